"""E6 - small reference models written from the property statements (not from the code)."""

# frozen copy of the documented default safe list (rpyc 5.x protocol.DEFAULT_CONFIG["safe_attrs"])
SAFE_ATTRS = frozenset([
    '__abs__', '__add__', '__and__', '__bool__', '__cmp__', '__contains__', '__delitem__', '__delslice__', '__div__',
    '__divmod__', '__doc__', '__eq__', '__float__', '__floordiv__', '__ge__', '__getitem__', '__getslice__', '__gt__',
    '__hash__', '__hex__', '__iadd__', '__iand__', '__idiv__', '__ifloordiv__', '__ilshift__', '__imod__', '__imul__',
    '__index__', '__int__', '__invert__', '__ior__', '__ipow__', '__irshift__', '__isub__', '__iter__', '__itruediv__',
    '__ixor__', '__le__', '__len__', '__long__', '__lshift__', '__lt__', '__mod__', '__mul__', '__ne__', '__neg__',
    '__new__', '__nonzero__', '__oct__', '__or__', '__pos__', '__pow__', '__radd__', '__rand__', '__rdiv__',
    '__rdivmod__', '__repr__', '__rfloordiv__', '__rlshift__', '__rmod__', '__rmul__', '__ror__', '__rpow__',
    '__rrshift__', '__rshift__', '__rsub__', '__rtruediv__', '__rxor__', '__setitem__', '__setslice__', '__str__',
    '__sub__', '__truediv__', '__xor__', 'next', '__length_hint__', '__enter__', '__exit__', '__next__', '__format__'])

DEFAULT_SWITCHES = dict(allow_safe_attrs=True, allow_exposed_attrs=True, allow_public_attrs=False, allow_all_attrs=False,
                        exposed_prefix="exposed_", allow_getattr=True, allow_setattr=False, allow_delattr=False)

PERM = {"get": "allow_getattr", "call": "allow_getattr", "set": "allow_setattr", "del": "allow_delattr"}
SWITCHES = ["allow_safe_attrs", "allow_exposed_attrs", "allow_public_attrs", "allow_all_attrs", "allow_getattr",
            "allow_setattr", "allow_delattr"]


def name_as_text(name):
    """-> (kind, text): kind in text / undecodable / nontext"""
    if type(name) is str:
        return "text", name
    if type(name) is bytes:
        try:
            return "text", name.decode("utf8")
        except UnicodeDecodeError:
            return "undecodable", None
    return "nontext", None


def policy(cfg, op, name, has):
    """The statement's access policy for objects WITHOUT their own hooks.
    cfg: the connection's switches; op: get/set/del/call; name: text; has(n) -> does the object have attribute n.
    returns ("deny",) or ("access", resolved_name)"""
    if not cfg[PERM[op]]:
        return ("deny",)
    exposed = cfg["allow_exposed_attrs"]
    prefix = cfg["exposed_prefix"]
    safe = cfg.get("safe_attrs", SAFE_ATTRS)
    allowed = bool(cfg["allow_all_attrs"]
                   or (exposed and name.startswith(prefix))
                   or (cfg["allow_safe_attrs"] and name in safe)
                   or (cfg["allow_public_attrs"] and not name.startswith("_")))
    twin = bool(exposed and prefix and has(prefix + name))
    if allowed and (not twin or has(name)):
        return ("access", name)
    if twin:
        return ("access", prefix + name)
    if allowed:
        return ("access", name)
    return ("deny",)

"""E3 (cont.) - a minimal independent peer speaking the published 5.x protocol over any byte stream
with read(n) / write(bytes).  It never imports rpyc's codec: everything goes through refcodec.
"""
import struct
import zlib

from rv import refcodec as rc


class Wire(object):
    """frame-level I/O on a raw stream"""

    def __init__(self, stream, compress=True):
        self.s = stream
        self.compress = compress
        self.sent = []       # (kind, seq, args)
        self.received = []   # dict messages
        self.raw_in = []     # raw frame tuples (length, flag, body, newline)

    def send_raw_payload(self, payload):
        self.s.write(rc.frame(payload, self.compress))

    def send(self, kind, seq, args):
        self.sent.append((kind, seq, args))
        self.s.write(rc.msg(kind, seq, args, self.compress))

    def recv_frame(self):
        hdr = self.s.read(5)
        n, flag = struct.unpack(">IB", hdr)
        body = self.s.read(n)
        nl = self.s.read(1)
        self.raw_in.append((n, flag, body, nl))
        return n, flag, body, nl

    def recv(self):
        n, flag, body, nl = self.recv_frame()
        problems = []
        if nl != b"\n":
            problems.append("frame not terminated by newline")
        if flag not in (0, 1):
            problems.append("compression flag %r" % flag)
        payload = zlib.decompress(body) if flag else body
        if flag and len(payload) <= rc.COMPRESSION_THRESHOLD:
            problems.append("compressed although payload is %d <= threshold" % len(payload))
        m = rc.parse_message(payload)
        if rc.encode((m["kind"], m["seq"], m["args"])) != payload and "frozenset" not in repr(m["args"]):
            problems.append("payload is not the canonical (shortest-form) encoding")
        m["problems"] = problems
        m["payload"] = payload
        self.received.append(m)
        return m


class ToyObject(object):
    """an object living in the reference peer's table"""

    def __init__(self, name_pack, cls_id, inst_id, methods=(), attrs=None, call=None):
        self.id_pack = (name_pack, cls_id, inst_id)
        self.methods = tuple(methods)      # ((name, doc), ...)
        self.attrs = dict(attrs or {})     # name -> python value or ToyObject
        self.call = call                   # callable(args, kwargs) -> value / ToyObject / raises ToyError


class ToyError(Exception):
    def __init__(self, modname, clsname, args=()):
        Exception.__init__(self, modname, clsname, args)
        self.record = ((modname, clsname), tuple(args), (("_remote_version", "5.0.1"),), "<traceback denied>")


class RefPeer(object):
    """answers GETROOT / GETATTR / CALL / CALLATTR / DEL / INSPECT / PING / HASH / STR / REPR / CLOSE
    for a toy object table; can also issue requests and serve nested requests while waiting."""

    def __init__(self, stream, root=None, compress=True):
        self.w = Wire(stream, compress)
        self.table = {}
        self.root = root
        self.seq = 0
        self.closed = False
        self.log = []              # (direction, summary)
        self.problems = []
        self.boxed_out = []        # id_packs we ever sent as REMOTE_REF
        self.dels = []             # (id_pack, count) release notices received
        if root is not None:
            self.add(root)

    def add(self, obj):
        self.table[obj.id_pack] = obj
        return obj

    # -- boxing
    def box(self, v):
        if isinstance(v, ToyObject):
            self.add(v)
            self.boxed_out.append(v.id_pack)
            return (rc.LABEL_REMOTE_REF, v.id_pack)
        if isinstance(v, PeerRef):
            return (rc.LABEL_LOCAL_REF, v.id_pack)
        if rc.plain_immutable(v):
            return (rc.LABEL_VALUE, v)
        if type(v) is tuple:
            return (rc.LABEL_TUPLE, tuple(self.box(x) for x in v))
        raise TypeError("reference peer cannot box %r" % (v,))

    def unbox(self, b):
        label, value = b
        if label == rc.LABEL_VALUE:
            return value
        if label == rc.LABEL_TUPLE:
            return tuple(self.unbox(x) for x in value)
        if label == rc.LABEL_LOCAL_REF:
            return self.table[tuple(value)]
        if label == rc.LABEL_REMOTE_REF:
            return PeerRef(tuple(value))
        raise ValueError("bad label %r" % (label,))

    # -- serving
    def handle_request(self, m):
        seq = m["seq"]
        handler, boxed = m["args"]
        self.log.append(("in", rc.HANDLER_NAMES.get(handler, handler), seq))
        try:
            args = self.unbox(boxed)
            res = self.dispatch(handler, args)
        except ToyError as e:
            self.w.send(rc.MSG_EXCEPTION, seq, e.record)
            return
        except StopIteration:
            self.w.send(rc.MSG_EXCEPTION, seq, rc.EXC_STOP_ITERATION)
            return
        except Exception as e:
            rec = (("builtins", type(e).__name__), tuple(a if rc.plain_immutable(a) else repr(a) for a in e.args),
                   (("_remote_version", "5.0.1"),), "<traceback denied>")
            self.w.send(rc.MSG_EXCEPTION, seq, rec)
            return
        if handler == rc.HANDLERS["CLOSE"]:
            self.closed = True
            return
        self.w.send(rc.MSG_REPLY, seq, self.box(res))

    def dispatch(self, handler, args):
        H = rc.HANDLERS
        if handler == H["PING"]:
            return args[0]
        if handler == H["CLOSE"]:
            return None
        if handler == H["GETROOT"]:
            return self.root
        if handler == H["GETATTR"]:
            obj, name = args
            if type(name) is bytes:
                name = name.decode("utf8")
            if name in obj.attrs:
                return obj.attrs[name]
            raise AttributeError(name)
        if handler == H["CALL"]:
            obj, a = args[0], args[1]
            kw = dict(args[2]) if len(args) > 2 else {}
            return obj.call(self, a, kw)
        if handler == H["CALLATTR"]:
            obj, name, a = args[0], args[1], args[2]
            kw = dict(args[3]) if len(args) > 3 else {}
            target = obj.attrs[name]
            return target.call(self, a, kw)
        if handler == H["DEL"]:
            obj = args[0]
            count = args[1] if len(args) > 1 else 1
            self.dels.append((obj.id_pack, count))
            return None
        if handler == H["INSPECT"]:
            return self.table[tuple(args[0])].methods
        if handler == H["HASH"]:
            return hash(args[0].id_pack)
        if handler in (H["STR"], H["REPR"]):
            return "<toy %s>" % (args[0].id_pack[0],)
        if handler == H["DIR"]:
            return tuple(sorted(args[0].attrs))
        raise ValueError("reference peer: unsupported handler %r" % (handler,))

    def serve_one(self):
        m = self.w.recv()
        self.problems += m["problems"]
        if m["kind"] == rc.MSG_REQUEST:
            self.handle_request(m)
        return m

    def serve_until_closed(self):
        while not self.closed:
            try:
                self.serve_one()
            except EOFError:
                break

    # -- requesting
    def request(self, handler, *args):
        """send a request, serve nested incoming requests until our reply arrives; returns the message"""
        self.seq += 1
        seq = self.seq
        self.w.send(rc.MSG_REQUEST, seq, (handler, self.box(tuple(args))))
        self.log.append(("out", rc.HANDLER_NAMES.get(handler, handler), seq))
        while True:
            m = self.w.recv()
            self.problems += m["problems"]
            if m["kind"] == rc.MSG_REQUEST:
                self.handle_request(m)
                continue
            if m["seq"] == seq:
                return m
            self.problems.append("response with unexpected seq %r while waiting for %r" % (m["seq"], seq))


class PeerRef(object):
    """a reference held by the reference peer to an object owned by the other side"""

    def __init__(self, id_pack):
        self.id_pack = id_pack

    def __repr__(self):
        return "PeerRef%r" % (self.id_pack,)

"""Harness shared by C13 / C14: several client tasks (+ optional BgServingThread) use ONE real Connection under the
controlled scheduler, against a scripted reference peer (independent codec) that answers in seeded permuted order and
at seeded virtual times.  Returns observations only; the checks judge them.
"""
import struct
import zlib

from rv import refcodec as rc, vnet, vsched

_codes = []


def instrument(sched, instruction_seq=True):
    from rpyc.core.protocol import Connection
    from rpyc.core.async_ import AsyncResult
    global _codes
    line = [Connection._send.__code__, Connection.serve.__code__, Connection._dispatch.__code__, Connection._seq_request_callback.__code__,
            Connection._async_request.__code__, Connection.async_request.__code__,
            getattr(AsyncResult.__call__, "__wrapped__", AsyncResult.__call__).__code__,
            AsyncResult.wait.__code__]
    ins = [Connection._get_seq_id.__code__] if instruction_seq else []
    _codes = sched.instrument(line, ins)


def uninstrument():
    vsched.Sched.uninstrument(_codes)


class ScriptedPeer(object):
    """answers every request; order and virtual delays are seeded"""

    def __init__(self, sched, stream, rng, delays=(0.0, 0.0, 0.01, 0.5), hold_p=0.6):
        self.sched, self.s, self.rng = sched, stream, rng
        self.delays, self.hold_p = delays, hold_p
        self.held = []
        self.seen_seqs = []
        self.requests = 0
        self.answers = 0
        self.dup_seq = []

    def reply_for(self, m):
        handler, boxed = m["args"]
        if handler == rc.HANDLERS["PING"]:
            token = boxed[1][0]
            if isinstance(token, str) and token.startswith("ref"):
                # a reference of a pre-generated proxy class (no nested INSPECT needed)
                return (rc.LABEL_REMOTE_REF, ("builtins.list", 4242, int(token[3:].replace("_", "")) + 10 ** 6))
            return (rc.LABEL_VALUE, ("r", token))
        return (rc.LABEL_VALUE, None)

    def answer_one(self):
        i = self.rng.randrange(len(self.held))
        m = self.held.pop(i)
        self.s.write(rc.msg(rc.MSG_REPLY, m["seq"], self.reply_for(m)))
        self.answers += 1

    def run(self):
        s = self.s
        try:
            while True:
                delay = self.rng.choice(self.delays)
                if s.poll(delay if self.held else None):
                    hdr = s.read(5)
                    n, flag = struct.unpack(">IB", hdr)
                    body = s.read(n)
                    s.read(1)
                    m = rc.parse_message(zlib.decompress(body) if flag else body)
                    if m["kind"] != rc.MSG_REQUEST:
                        continue
                    if m["seq"] in self.seen_seqs:
                        self.dup_seq.append(m["seq"])
                    self.seen_seqs.append(m["seq"])
                    self.requests += 1
                    if m["args"][0] == rc.HANDLERS["CLOSE"]:
                        return
                    self.held.append(m)
                    if self.rng.random() > self.hold_p:
                        self.answer_one()
                elif self.held:
                    self.answer_one()
        except EOFError:
            return


class _Unboxable(object):
    def __getattr__(self, name):
        raise RuntimeError("this object cannot be looked at (%s)" % name)


def run_shared(cfg, seed, policy="random", script=(), p_switch=0.3, census=False, timeout=30):
    """cfg = (n_clients, per-client request modes tuple of tuples ('s'|'a'|'sr'|'ar'), with_bg)"""
    import rpyc
    from rpyc.core.channel import Channel
    from rpyc.core import consts
    from rpyc.core import async_ as async_mod
    import random
    nclients, modes, with_bg = cfg
    sched = vsched.Sched(seed=seed, policy=policy, script=script, p_switch=p_switch, max_steps=150000 if with_bg != "poller" else 400000)
    sched.record_census = census
    if with_bg == "poller":
        sched.spin_cost = 0.002          # poll_all() busy-waits while another thread holds the receive lock
    rng = random.Random(repr(("peer", seed)))
    net = vnet.Net(waiter=vsched.SchedWaiter(sched))
    conn = rpyc.VoidService()._connect(Channel(net.a), {"sync_request_timeout": timeout})
    vsched.simulate_connection(conn, sched, "A")
    peer = ScriptedPeer(sched, net.b, rng)
    obs = dict(cfg=cfg, seed=seed, policy=policy, script=list(script), outcomes=[], dispatch_counts={}, done_at={}, callbacks={},
               errors=[], jumps=[])
    # ---- monitors
    orig_dispatch = conn._dispatch

    def counted_dispatch(data):
        obs["dispatch_counts"][data] = obs["dispatch_counts"].get(data, 0) + 1
        return orig_dispatch(data)
    conn._dispatch = counted_dispatch
    AsyncResult = async_mod.AsyncResult
    orig_call = AsyncResult.__call__

    def timed_call(self, is_exc, obj):
        r = orig_call(self, is_exc, obj)
        obs["done_at"][id(self)] = sched.now
        return r
    timed_call.__wrapped__ = orig_call
    AsyncResult.__call__ = timed_call
    unread_at_jump = []

    jump_info = []

    def on_jump(s, task):
        jump_info.append((s.now, task.deadline, {t.name: (t.tag if not norecheck.get(t.name) else ("woken-without-recheck", t.tag[0]))
                                                 for t in s.tasks if t.state == "BLOCKED"},
                          [t.name for t in s.tasks if t.state == "BLOCKED" and t.tag == ("poll", "A")]))
        sleepers = [(t.name, t.tag) for t in s.tasks if t.state == "BLOCKED" and t.tag and t.tag[0] == "cond-wait"]
        pollers = [t.name for t in s.tasks if t.state == "BLOCKED" and t.tag == ("poll", "A")]
        if net.ba.buf and sleepers and not pollers:
            unread_at_jump.append((s.now, sleepers))
    sched.on_clock_jump = on_jump
    keep = []
    half_published = []

    # per client thread: did it, since it last evaluated the loop condition of AsyncResult.wait(), already sleep on the
    # receive condition once? A waiter that then goes on to sleep again or to poll did not look at its result after being
    # woken - unlike the listed C14 mechanism, where the woken waiter looks, finds the reply not dispatched yet and re-enters
    slept_since_check = {}
    norecheck = {}

    def invariant(s, task, tag):
        # at every yield point: a result that reports ready must already carry its value / exception flag
        for ar in keep:
            if ar._is_ready and ar._is_exc is None:
                half_published.append(tag)
        name = task.name
        if name[:1] == "c" and type(tag) is tuple and tag:
            if tag[0] == "L" and tag[1] == "wait":
                slept_since_check[name] = False
                norecheck.pop(name, None)
            elif tag[0] == "cond-wait" and tag[1] == "A.recv_event":
                if slept_since_check.get(name):
                    norecheck[name] = True
                slept_since_check[name] = True
            elif tag == ("poll", "A") and slept_since_check.get(name):
                norecheck[name] = True
    sched.on_yield = invariant

    def client(ci):
        pending = []
        for ri, mode in enumerate(modes[ci]):
            token = ("ref%d_%d" if "r" in mode else "t%d_%d") % (ci, ri)
            if mode == "f":
                # a request that fails while it is being put together (an argument whose attribute look-ups raise): nothing is
                # sent, the caller gets the error - and the connection's bookkeeping must be none the worse for it
                try:
                    conn.async_request(consts.HANDLE_PING, _Unboxable())
                    obs["outcomes"].append((token, ("exc", "no-error-for-an-unboxable-argument"), sched.now, None, ci))
                except vsched.SchedAbort:
                    raise
                except RuntimeError:
                    obs["failed_requests"] = obs.get("failed_requests", 0) + 1
                except BaseException as e:
                    obs["outcomes"].append((token, ("exc", type(e).__name__), sched.now, None, ci))
                continue
            try:
                ar = conn.async_request(consts.HANDLE_PING, token)
                ar.set_expiry(timeout)
                cbs = []
                ar.add_callback(lambda r, cbs=cbs: cbs.append(sched.now))
                obs["callbacks"][token] = cbs
                if "x" in mode:
                    # an application callback that raises: whichever thread dispatches the reply gets the error, and the reply HAS been
                    # processed - the waiter must still be woken
                    def raiser(r):
                        raise RuntimeError("callback of the application failed")
                    ar.add_callback(raiser)
                keep.append(ar)
                if mode.startswith("s"):
                    collect(token, ar, ci)
                else:
                    pending.append((token, ar))
            except vsched.SchedAbort:
                raise
            except BaseException as e:
                obs["outcomes"].append((token, ("exc", type(e).__name__), sched.now, None, ci))
        for token, ar in pending:
            collect(token, ar, ci)

    def collect(token, ar, ci=None):
        try:
            ar.wait()
            t_ret = sched.now
            v = ar.value
            if hasattr(v, "____id_pack__"):
                v = ("ref", tuple(object.__getattribute__(v, "____id_pack__")))
            out = ("value", v)
        except vsched.SchedAbort:
            raise
        except BaseException as e:
            t_ret = sched.now
            out = ("exc", type(e).__name__)
        obs["outcomes"].append((token, out, t_ret, obs["done_at"].get(id(ar)), ci))

    poll_state = dict(stop=False)

    def poller():
        # an application thread that keeps the connection served through the non-blocking API (poll_all), as GUI loops do
        while not poll_state["stop"]:
            try:
                conn.poll_all(0.25)
            except EOFError:
                return
            sched.time.sleep(0.01)      # (poll_all returns at once when another thread holds the receive lock)

    def driver():
        from rpyc.utils.helpers import BgServingThread
        bg = BgServingThread(conn) if with_bg is True else None
        ph = sched.spawn(poller, name="poller") if with_bg == "poller" else None
        handles = [sched.spawn(client, i, name="c%d" % i) for i in range(nclients)]
        sched.block(lambda: all(h.state == "DONE" for h in handles), None, ("join-clients",))
        del keep[:]
        poll_state["stop"] = True
        if ph is not None:
            sched.block(lambda: ph.state == "DONE", None, ("join-poller",))
        if bg is not None:
            try:
                bg.stop()
            except vsched.SchedAbort:
                raise
            except BaseException as e:
                obs["errors"].append(("bg.stop", type(e).__name__))
        conn.close()

    try:
        with vsched.patched_time(sched, spawn=True):
            sched.spawn(driver, name="driver")
            sched.spawn(peer.run, name="peer")
            instrument(sched)
            ok = sched.run(watchdog=40)
    finally:
        uninstrument()
        AsyncResult.__call__ = orig_call
    for t in sched.tasks:
        if t.exc is not None:
            obs["errors"].append((t.name, type(t.exc).__name__, repr(t.exc)[:200]))
    frames, _ = net.frames("A->B")
    seqs = [m["seq"] for m in frames if m["kind"] == rc.MSG_REQUEST]
    obs.update(ok=ok, deadlock=sched.deadlock, aborted=sched.abort_reason if sched.aborting else None, trace=sched.trace_hash(),
               preemptions=sched.preemptions, steps=sched.steps, census=sched.census, seqs=seqs, jumps=list(sched.clock_jumps),
               unread_at_jump=unread_at_jump, jump_info=jump_info, half_published=half_published[:3], peer_requests=peer.requests, peer_dup_seq=peer.dup_seq, now=sched.now)
    try:
        conn.close()
    except BaseException:
        pass
    return obs


def stalls(obs):
    """[(token, waited virtual seconds, where the waiter sat during the clock jumps)] for waiters that returned after
    their reply had been processed"""
    out = []
    for token, outcome, t_ret, t_done, ci in obs["outcomes"]:
        if t_done is not None and t_ret > t_done:
            name = "c%d" % ci if ci is not None else None
            tags = []
            for (t0, t1, blocked, pollers) in obs["jump_info"]:
                # the clock advanced from t0 to t1 > t0 while the waiter was blocked at blocked[name]
                if t1 is not None and t1 > t0 and t_done <= t0 and t0 < t_ret and name in blocked:
                    tag = blocked[name]
                    if tag and tag[0] == "cond-wait":
                        tag = ("cond-wait", "behind-poller" if [p for p in pollers if p != name] else "nobody-polling")
                    tags.append(tag)
            if tags:        # stalled = the clock had to JUMP while the waiter sat blocked (spin costs alone are not stalls)
                out.append((token, t_ret - t_done, tags))
    return out


def expected_value(token):
    if token.startswith("ref"):
        return ("ref", ("builtins.list", 4242, int(token[3:].replace("_", "")) + 10 ** 6))
    return ("r", token)

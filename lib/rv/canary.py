"""E4 - recorders: audit hook (import / exec / compile / pickle / process / open events), judged by content.

The hook is installed once per process (audit hooks cannot be removed) and records only while a
`watch()` scope is active on the current thread (or on any thread with all_threads=True).
"""
import builtins
import contextlib
import sys
import threading

_state = threading.local()
_global_scopes = []
_installed = False
_lock = threading.Lock()

INTERESTING = ("import", "exec", "compile", "pickle.find_class", "os.system", "subprocess.Popen",
               "os.exec", "os.posix_spawn", "os.fork", "marshal.loads", "ctypes.dlopen", "code.__new__")


class Scope(object):
    def __init__(self, needles=()):
        self.events = []          # (event, summary)
        self.needles = tuple(needles)

    def hits(self, needles=None):
        """events whose arguments mention one of the needles (peer-supplied canary strings)"""
        needles = tuple(needles if needles is not None else self.needles)
        out = []
        for ev, summary in self.events:
            if any(n in summary for n in needles):
                out.append((ev, summary))
        return out

    def of_kind(self, *kinds):
        return [(e, s) for e, s in self.events if e in kinds]


def _summ(args):
    try:
        parts = []
        for a in args:
            if isinstance(a, (bytes, bytearray)):
                parts.append(bytes(a[:300]).decode("latin1"))
            elif isinstance(a, str):
                parts.append(a[:300])
            elif hasattr(a, "co_name"):
                parts.append("code:%s:%s" % (a.co_filename, a.co_name))
            elif a is None or isinstance(a, (int, float, tuple, list)):
                parts.append(repr(a)[:300])
            else:
                parts.append(type(a).__name__)
        return " | ".join(parts)
    except Exception:                      # never let the hook raise
        return "<unprintable>"


def _hook(event, args):
    if event not in INTERESTING:
        return
    scopes = getattr(_state, "scopes", None)
    if not scopes and not _global_scopes:
        return
    if getattr(_state, "busy", False):
        return
    _state.busy = True
    try:
        s = _summ(args)
        for sc in (scopes or ()):
            sc.events.append((event, s))
        for sc in _global_scopes:
            sc.events.append((event, s))
    finally:
        _state.busy = False


def install():
    global _installed
    with _lock:
        if not _installed:
            sys.addaudithook(_hook)
            _installed = True


@contextlib.contextmanager
def watch(needles=(), all_threads=False):
    install()
    sc = Scope(needles)
    if all_threads:
        _global_scopes.append(sc)
    else:
        if not hasattr(_state, "scopes"):
            _state.scopes = []
        _state.scopes.append(sc)
    try:
        yield sc
    finally:
        if all_threads:
            _global_scopes.remove(sc)
        else:
            _state.scopes.remove(sc)


class ImportSpy(object):
    """wraps builtins.__import__ to log every module name requested while active"""

    def __init__(self):
        self.names = []
        self._orig = None

    def __enter__(self):
        self._orig = builtins.__import__
        orig, names = self._orig, self.names

        def spy(name, *a, **k):
            names.append(name)
            return orig(name, *a, **k)
        builtins.__import__ = spy
        return self

    def __exit__(self, *exc):
        builtins.__import__ = self._orig

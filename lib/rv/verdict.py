"""E7 - verdict / evidence / known-findings plumbing shared by every check.

A check module exposes
    PROPERTY  = "C04"
    LEVEL     = "exploration" | "fault_enumeration"
    RULE      = "<how cases are generated; what makes one distinct and non-trivial>"
    ASSUMPTIONS = [...]
    SHARDS    = {"quick": 1, "thorough": 16}        (optional)
    MIN_DISTINCT = {"quick": n, "thorough": m}      (optional; fewer => inconclusive)
    def run(ctx): ...                                (drives the workload, calls ctx.*)
    def replay(ctx, witness): ...                    (optional)

Verdicts are three-valued: exit 0 (held on what was observed / only known findings),
exit 1 + "VIOLATION property=<id> replay=<path>", exit 2 + "INCONCLUSIVE ...".
"""
import collections
import hashlib
import json
import os
import random
import sys
import time

VERIF = os.path.dirname(os.path.dirname(os.path.dirname(os.path.abspath(__file__))))
KNOWN_FILE = os.path.join(VERIF, "known_findings.json")
EVIDENCE_DIR = os.environ.get("RV_EVIDENCE_DIR") or os.path.join(VERIF, "evidence")
REPLAY_DIR = os.environ.get("RV_REPLAY_DIR") or os.path.join(VERIF, "replays")


def h(obj):
    """short stable hash of a JSON-able / repr-able object"""
    if not isinstance(obj, (bytes, bytearray)):
        obj = repr(obj).encode("utf8", "backslashreplace")
    return hashlib.blake2b(bytes(obj), digest_size=8).hexdigest()


def jsonable(x, depth=0):
    if depth > 6:
        return repr(x)[:200]
    if isinstance(x, (str, int, bool, type(None))):
        if isinstance(x, int) and abs(x) > 2 ** 62:
            return "int:" + str(x)[:60]
        if isinstance(x, str):
            return x.encode("utf8", "backslashreplace").decode("utf8")[:2000]
        return x
    if isinstance(x, float):
        return x if x == x and abs(x) != float("inf") else repr(x)
    if isinstance(x, (bytes, bytearray)):
        return "hex:" + bytes(x[:400]).hex() + ("..." if len(x) > 400 else "")
    if isinstance(x, dict):
        return {str(k): jsonable(v, depth + 1) for k, v in list(x.items())[:60]}
    if isinstance(x, (list, tuple, set, frozenset)):
        return [jsonable(v, depth + 1) for v in list(x)[:60]]
    return repr(x)[:400]


class Inconclusive(Exception):
    pass


class Ctx(object):
    def __init__(self, prop, tier, seed, shard=(0, 1)):
        self.prop = prop
        self.tier = tier
        self.seed = seed
        self.shard = shard
        self.t0 = time.time()
        self.counters = collections.Counter()
        self.maxima = {}
        self.samples = []
        self.sample_limit = 6
        self.distinct = set()
        self.violations = []   # dicts: key, what, witness
        self.evaluations = 0
        self.inconclusive_reasons = []
        self.extra = {}
        self.last_beat = time.time()
        self.rng = random.Random("%s/%s/%s/%s" % (prop, tier, seed, shard[0]))
        try:
            self.known_keys = {k["key"] for k in load_known().get("known", []) if k["property"] == prop}
        except Exception:
            self.known_keys = set()

    # --- helpers for checks -------------------------------------------------
    @property
    def quick(self):
        return self.tier == "quick"

    def budget(self, quick, thorough):
        """per-shard budget: thorough totals are split over shards"""
        if self.tier == "quick":
            return quick
        return max(1, thorough // self.shard[1])

    def subrng(self, *tag):
        return random.Random("%s/%s/%s/%s/%r" % (self.prop, self.tier, self.seed, self.shard[0], tag))

    def count(self, key, n=1):
        self.counters[key] += n

    def maximum(self, key, v):
        if v > self.maxima.get(key, -1):
            self.maxima[key] = v

    def case(self, descriptor=None, nontrivial=True):
        """account one evaluated case; descriptor decides distinctness"""
        self.evaluations += 1
        self.last_beat = time.time()
        if nontrivial and descriptor is not None:
            self.distinct.add(h(descriptor))

    def sample(self, obj):
        if len(self.samples) < self.sample_limit:
            self.samples.append(jsonable(obj))

    def violation(self, key, what, witness=None):
        """key: mechanism key (never seeds / random values)"""
        self.counters["known_findings_raw" if key in self.known_keys else "violations_raw"] += 1
        for v in self.violations:
            if v["key"] == key:
                v["count"] += 1
                return
        self.violations.append({"key": key, "what": what, "witness": jsonable(witness), "count": 1})

    def beat(self):
        self.last_beat = time.time()

    def enough(self, n=25):
        """the verdict is already decided (many raw violations): checks may stop early"""
        raw = self.counters["violations_raw"]
        return raw >= n or (raw > 0 and self.elapsed() > 90)

    def inconclusive(self, why):
        self.inconclusive_reasons.append(why)

    def elapsed(self):
        return time.time() - self.t0

    # --- serialisation for shard merging -------------------------------------
    def dumpstate(self):
        return dict(counters=dict(self.counters), maxima=self.maxima, samples=self.samples,
                    distinct=sorted(self.distinct), violations=self.violations,
                    evaluations=self.evaluations, inconclusive=self.inconclusive_reasons,
                    extra=self.extra)

    def merge(self, st):
        self.counters.update(st["counters"])
        for k, v in st["maxima"].items():
            self.maximum(k, v)
        for s in st["samples"]:
            if len(self.samples) < self.sample_limit:
                self.samples.append(s)
        self.distinct.update(st["distinct"])
        for v in st["violations"]:
            for mine in self.violations:
                if mine["key"] == v["key"]:
                    mine["count"] += v["count"]
                    break
            else:
                self.violations.append(v)
        self.evaluations += st["evaluations"]
        self.inconclusive_reasons.extend(st["inconclusive"])
        for k, v in st.get("extra", {}).items():
            self.extra.setdefault(k, v)


def load_known():
    with open(KNOWN_FILE) as f:
        return json.load(f)


def finish(ctx, mod):
    """write evidence, print verdict lines, return exit code"""
    known = load_known()
    known_keys = {(k["property"], k["key"]): k for k in known.get("known", [])}
    new, listed = [], []
    for v in ctx.violations:
        (listed if (ctx.prop, v["key"]) in known_keys else new).append(v)
    min_distinct = getattr(mod, "MIN_DISTINCT", {}).get(ctx.tier, 2)
    if len(ctx.distinct) < max(2, min_distinct) and not new:
        ctx.inconclusive("only %d distinct non-trivial cases (< %d)" % (len(ctx.distinct), max(2, min_distinct)))
    os.makedirs(EVIDENCE_DIR, exist_ok=True)
    cov = dict(evaluations=ctx.evaluations, distinct_nontrivial=len(ctx.distinct),
               rule=mod.RULE, samples=ctx.samples or ["<none>"],
               exhaustive=bool(ctx.extra.pop("exhaustive", False)),
               observed=dict(ctx.counters), maxima=ctx.maxima)
    cov.update(ctx.extra)
    cov["known_findings_seen"] = [v["key"] for v in listed]
    cov["verdict"] = "violated" if new else ("inconclusive" if ctx.inconclusive_reasons else "held on what was observed")
    if ctx.inconclusive_reasons:
        cov["inconclusive_reasons"] = ctx.inconclusive_reasons[:10]
    ev = dict(property_id=ctx.prop, tier=ctx.tier, seed=ctx.seed, level=mod.LEVEL, coverage=cov,
              assumptions=list(getattr(mod, "ASSUMPTIONS", [])), wall_s=round(ctx.elapsed(), 2),
              violations=len(new))
    with open(os.path.join(EVIDENCE_DIR, "%s.json" % ctx.prop), "w") as f:
        json.dump(ev, f, indent=1, sort_keys=True)
        f.write("\n")
    for v in listed:
        print("KNOWN-FINDING: property=%s %s: %s (seen %d times this run)" % (
            ctx.prop, v["key"], known_keys[(ctx.prop, v["key"])]["what"], v["count"]))
    summary = "%s %s seed=%d evaluations=%d distinct_nontrivial=%d wall=%.1fs" % (
        ctx.prop, ctx.tier, ctx.seed, ctx.evaluations, len(ctx.distinct), ctx.elapsed())
    if new:
        os.makedirs(REPLAY_DIR, exist_ok=True)
        for i, v in enumerate(new):
            path = os.path.join(REPLAY_DIR, "%s_%s_%d.json" % (ctx.prop, h(v["key"]), ctx.seed))
            with open(path, "w") as f:
                json.dump(dict(property=ctx.prop, tier=ctx.tier, seed=ctx.seed, key=v["key"], what=v["what"],
                               witness=v["witness"], count=v["count"]), f, indent=1)
            print("violation key=%s count=%d: %s" % (v["key"], v["count"], v["what"]))
            print("VIOLATION property=%s replay=%s" % (ctx.prop, os.path.relpath(path, VERIF) if path.startswith(VERIF) else path))
        print("FAIL " + summary)
        return 1
    if ctx.inconclusive_reasons:
        print("INCONCLUSIVE property=%s %s" % (ctx.prop, "; ".join(ctx.inconclusive_reasons[:5])))
        print("INCONCLUSIVE " + summary)
        return 2
    print("OK " + summary + " observed=" + json.dumps({k: ctx.counters[k] for k in sorted(ctx.counters)[:14]}))
    return 0

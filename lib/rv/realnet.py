"""E5 - real sockets, real servers, real processes.

Harness side (imported as rv.realnet):
    ServerProc(kind, auth=False, unix=False)   one rpyc server in a CHILD PROCESS (own session / process group), driven
                                               over a JSON-lines control pipe (stdin/stdout of the child)
        .state()      -> dict sampled in the child after gc.collect(): fds, socket_fds, clients, fd_to_conn, on_connect,
                         on_disconnect, live_instances, threads, children (pids), zombies, active, closed, start_returned ...
        .close_server() / .close2() -> dict(elapsed, exc)      (server.close() called in the child, timed)
        .raw() / .good()  -> raw socket / rpyc connection to the server (token sent first when auth is on)
        .kill()       always in a finally block: SIGKILL to the whole process group (forked grand-children included)
    RawSession(sock)  a scripted peer speaking the published wire format through rv.refcodec (never through rpyc)
    SharedCtx(ctx)    lock around a verdict.Ctx for checks that drive several servers from several harness threads

Child side (python realnet.py serve <kind> ...): builds the server on 127.0.0.1:0 or a unix socket path, silenced logger,
auto_register=False; server.start() owns the child's MAIN thread (ForkingServer needs it for signal.signal; close() of a
ForkingServer is executed in the main thread through SIGUSR1 for the same reason), the control loop runs in helper threads.
End of the control pipe (the harness died) kills the child's whole process group.

Every wait here has a watchdog: ChildTimeout / ChildDied are for the check to turn into `inconclusive`.
"""
import collections
import errno
import gc
import json
import os
import queue
import select
import signal
import socket
import struct
import subprocess
import sys
import tempfile
import threading
import time
import weakref

LIB = os.path.dirname(os.path.dirname(os.path.abspath(__file__)))
TOKEN = b"rvTOKEN!"            # the 8 bytes the committed token authenticator expects
KINDS = {"threaded": None, "threadpool": 4, "threadpool4": 4, "threadpool20": 20, "oneshot": None, "forking": None}


def repo_dir():
    return os.environ.get("RPYC_VERIF_REPO", "/repo")


# ====================================================================================== child side
class _Counters(object):
    def __init__(self):
        self.lock = threading.Lock()
        self.on_connect = 0
        self.on_disconnect = 0
        self.created = 0
        self.instances = weakref.WeakSet()
        self.event_log = None      # path; used by the forking kind, whose hooks run in other processes

    def event(self, what):
        with self.lock:
            if what == "C":
                self.on_connect += 1
            else:
                self.on_disconnect += 1
        if self.event_log:
            fd = os.open(self.event_log, os.O_WRONLY | os.O_APPEND | os.O_CREAT, 0o600)
            try:
                os.write(fd, ("%s %d\n" % (what, os.getpid())).encode())
            finally:
                os.close(fd)


COUNTERS = _Counters()


def _make_service():
    import rpyc

    class TestService(rpyc.Service):
        """a service CLASS: the server makes one instance per connection; all state is per instance"""

        def __init__(self):
            self.store = {}
            self.made = []
            self.token = os.urandom(8).hex()
            with COUNTERS.lock:
                COUNTERS.created += 1
                COUNTERS.instances.add(self)

        def on_connect(self, conn):
            self.conn = conn
            COUNTERS.event("C")

        def exposed_identity(self):
            """what THIS connection was set up with: (credentials from the authenticator, endpoints seen by the server)"""
            cfg = self.conn._config
            ep = cfg.get("endpoints")
            return (cfg.get("credentials"), tuple(tuple(x) if isinstance(x, (tuple, list)) else x for x in ep) if ep else None)

        def on_disconnect(self, conn):
            COUNTERS.event("D")

        def exposed_set(self, k, v):
            self.store[k] = v
            return len(self.store)

        def exposed_get(self, k):
            return self.store.get(k)

        def exposed_whoami(self):
            return (id(self), self.token, os.getpid())

        def exposed_make(self):
            obj = []
            self.made.append(obj)
            return obj

        def exposed_echo(self, x):
            return x

        def exposed_sleep(self, t):
            time.sleep(t)
            return t
    return TestService


def _make_authenticator():
    from rpyc.utils.authenticators import AuthenticationError

    def token_authenticator(sock):
        """reads exactly 8 bytes (2 s socket timeout); wrong, short or late token -> AuthenticationError"""
        old = sock.gettimeout()
        # RV_AUTH_PATIENT: no limit on how long a client may take to present its token (a handshake-style authenticator)
        sock.settimeout(None if os.environ.get("RV_AUTH_PATIENT") == "1" else 2.0)
        try:
            buf = b""
            while len(buf) < len(TOKEN):
                chunk = sock.recv(len(TOKEN) - len(buf))
                if not chunk:
                    raise AuthenticationError("short token")
                buf += chunk
        except socket.timeout:
            raise AuthenticationError("token timeout")
        except OSError as e:
            raise AuthenticationError("socket error %s" % e)
        finally:
            try:
                sock.settimeout(old)
            except OSError:
                pass
        if buf[:3] != TOKEN[:3]:
            raise AuthenticationError("wrong token")
        # the last five bytes name the client: they become the connection's credentials
        if os.environ.get("RV_AUTH_REWRAP") == "1":
            # like ssl.wrap_socket: the authenticated socket is another object than the accepted one
            sock = socket.socket(fileno=sock.detach())
        return sock, buf[3:].decode("latin1")
    return token_authenticator


def _children_of(pid):
    """(live pids, zombie count) of direct children, from /proc/*/stat"""
    live, zombies = [], 0
    for name in os.listdir("/proc"):
        if not name.isdigit():
            continue
        try:
            with open("/proc/%s/stat" % name, "rb") as f:
                s = f.read().decode("latin-1")
        except OSError:
            continue
        rest = s[s.rfind(")") + 2:].split()
        if len(rest) > 1 and rest[1] == str(pid):
            if rest[0] in ("Z", "X"):
                zombies += 1
            else:
                live.append(int(name))
    return sorted(live), zombies


def _harness_thread_signals():
    """the harness's own threads inside the server process must not take the server's signals: with SIGCHLD blocked here the
    kernel delivers it to the main thread, as in an ordinary (single-threaded) ForkingServer process"""
    try:
        signal.pthread_sigmask(signal.SIG_BLOCK, {signal.SIGCHLD})
    except (AttributeError, ValueError, OSError):
        pass


class _Child(object):
    def __init__(self, args):
        self.kind = args.kind
        self.args = args
        self.out_lock = threading.Lock()
        self.jobs = queue.Queue()
        self.main_jobs = []
        self.quit = threading.Event()
        self.start_returned = False
        self.start_exc = None
        self.server = None

    def emit(self, obj):
        data = (json.dumps(obj) + "\n").encode()
        with self.out_lock:
            os.write(1, data)

    # ---- state sampled at the server
    def snapshot(self):
        gc.collect()
        srv = self.server
        names = os.listdir("/proc/self/fd")
        nsock = 0
        for n in names:
            try:
                if os.readlink("/proc/self/fd/" + n).startswith("socket:"):
                    nsock += 1
            except OSError:
                pass
        st = dict(fds=len(names), socket_fds=nsock, clients=len(srv.clients),
                  fd_to_conn=len(srv.fd_to_conn) if hasattr(srv, "fd_to_conn") else None,
                  threads=sorted(t.name for t in threading.enumerate()),
                  active=bool(srv.active), closed=bool(srv._closed), start_returned=self.start_returned,
                  start_exc=self.start_exc, pid=os.getpid())
        try:
            st["listener_fd"] = srv.listener.fileno()
        except Exception:
            st["listener_fd"] = -1
        live, zombies = _children_of(os.getpid())
        st["children"], st["zombies"] = live, zombies
        if getattr(self, "sigchld_trace", None) is not None:
            tr = self.sigchld_trace
            st["sigchld"] = dict(runs=len(tr) // 2, last_exit_age=round(time.time() - tr[-1][1], 2) if tr else None,
                                 inside=bool(tr) and tr[-1][0] == "enter", handler=repr(signal.getsignal(signal.SIGCHLD))[:80])
        if COUNTERS.event_log:
            c = d = 0
            try:
                with open(COUNTERS.event_log) as f:
                    for line in f:
                        if line.startswith("C"):
                            c += 1
                        elif line.startswith("D"):
                            d += 1
            except OSError:
                pass
            st["on_connect"], st["on_disconnect"], st["live_instances"] = c, d, None
        else:
            with COUNTERS.lock:
                st["on_connect"], st["on_disconnect"] = COUNTERS.on_connect, COUNTERS.on_disconnect
                st["live_instances"] = len(COUNTERS.instances)
        if hasattr(srv, "workers") and hasattr(srv, "polling_thread"):
            st["workers_alive"] = sum(1 for w in list(srv.workers) if w.is_alive())
            st["polling_alive"] = srv.polling_thread.is_alive()
        st["yield_injections"] = globals().get("_YIELD_COUNTER", [0])[0]
        if hasattr(srv, "fd_to_conn"):
            # thread pool: requests that arrived on a connection the server still tracks but has not read yet
            import fcntl
            import termios
            pending = {}
            for fd in list(srv.fd_to_conn):
                try:
                    buf = bytearray(4)
                    fcntl.ioctl(fd, termios.FIONREAD, buf)
                    n = int.from_bytes(bytes(buf), sys.byteorder)
                    if n:
                        pending[str(fd)] = n
                except OSError:
                    pass
            st["pending_unread"] = pending
            try:
                st["active_queue"] = srv._active_connection_queue.qsize()
            except Exception:
                st["active_queue"] = None
        return st

    def do_close(self):
        t0 = time.time()
        exc = None
        try:
            self.server.close()
        except BaseException as e:      # reported, never swallowed silently
            exc = "%s: %s" % (type(e).__name__, e)
        return dict(elapsed=round(time.time() - t0, 4), exc=exc)

    def close_cmd(self, watchdog=60):
        if self.kind != "forking":
            return self.do_close()
        # ForkingServer.close() calls signal.signal(): only legal in the main thread, which is inside start()
        box = {}
        done = threading.Event()

        def job():
            box.update(self.do_close())
            done.set()
        self.main_jobs.append(job)
        signal.pthread_kill(threading.main_thread().ident, signal.SIGUSR1)
        if not done.wait(watchdog):
            return dict(elapsed=None, exc=None, blocked="close() did not return within %ss" % watchdog)
        return box

    def _on_usr1(self, signum, frame):
        while self.main_jobs:
            self.main_jobs.pop(0)()

    # ---- control threads
    def reader(self):
        _harness_thread_signals()
        try:
            with os.fdopen(0, "rb", buffering=0, closefd=False) as f:
                buf = b""
                while True:
                    chunk = f.read(4096)
                    if not chunk:
                        break
                    buf += chunk
                    while b"\n" in buf:
                        line, buf = buf.split(b"\n", 1)
                        if line.strip():
                            self.jobs.put(json.loads(line))
        finally:
            # the harness is gone (or told us to quit): nothing of this process group may survive
            try:
                os.killpg(os.getpgid(0), signal.SIGKILL)
            except OSError:
                pass
            os._exit(0)

    def executor(self):
        _harness_thread_signals()
        srv = self.server
        t0 = time.time()
        def started():
            # ThreadPoolServer._listen() sets `active` before it has created its workers and polling thread
            return srv.active and (not hasattr(srv, "nbthreads") or hasattr(srv, "polling_thread"))
        while not started() and not self.start_returned and time.time() - t0 < 30:
            time.sleep(0.005)
        self.emit(dict(id=0, ready=bool(srv.active), port=srv.port, host=srv.host, pid=os.getpid(), kind=self.kind))
        while True:
            job = self.jobs.get()
            cmd = job.get("cmd")
            rep = dict(id=job.get("id"), cmd=cmd)
            try:
                if cmd == "port?":
                    rep.update(port=srv.port, host=srv.host)
                elif cmd == "state?":
                    rep.update(state=self.snapshot())
                elif cmd in ("close", "close2"):
                    rep.update(self.close_cmd())
                elif cmd == "stderr?":
                    rep.update(ok=True)
                elif cmd == "quit":
                    self.emit(rep)
                    try:
                        os.killpg(os.getpgid(0), signal.SIGKILL)
                    finally:
                        os._exit(0)
                else:
                    rep.update(error="unknown command")
            except BaseException as e:
                rep.update(error="%s: %s" % (type(e).__name__, e))
            self.emit(rep)

    def main(self):
        import logging
        import rpyc
        from rpyc.utils import server as srvmod
        a = self.args
        logger = logging.getLogger("rv-realnet")
        logger.addHandler(logging.NullHandler())
        logger.propagate = False
        logger.setLevel(logging.CRITICAL + 10)
        svc = _make_service()
        kw = dict(auto_register=False, logger=logger, protocol_config={"sync_request_timeout": 30, "allow_public_attrs": True})
        if a.unix:
            kw["socket_path"] = a.unix
        else:
            kw.update(hostname="127.0.0.1", port=0)
        if a.auth:
            kw["authenticator"] = _make_authenticator()
        nthreads = KINDS[self.kind]
        if self.kind.startswith("threadpool"):
            self.server = srvmod.ThreadPoolServer(svc, nbThreads=nthreads, **kw)
        elif self.kind == "threaded":
            self.server = srvmod.ThreadedServer(svc, **kw)
        elif self.kind == "oneshot":
            self.server = srvmod.OneShotServer(svc, **kw)
        elif self.kind == "forking":
            COUNTERS.event_log = os.path.join(a.scratch, "events.log")
            # diagnostics only (no behaviour is changed): when did the server's SIGCHLD handler run, and what does the process
            # consider its SIGCHLD handler to be
            orig_h = srvmod.ForkingServer._handle_sigchld.__func__
            trace = self.sigchld_trace = []

            def traced(cls, signum, unused, _orig=orig_h, _trace=trace):
                _trace.append(("enter", time.time()))
                try:
                    return _orig(cls, signum, unused)
                finally:
                    _trace.append(("exit", time.time()))
            srvmod.ForkingServer._handle_sigchld = classmethod(traced)
            self.server = srvmod.ForkingServer(svc, **kw)
            signal.signal(signal.SIGUSR1, self._on_usr1)
        else:
            raise SystemExit("unknown kind %r" % self.kind)
        threading.Thread(target=self.reader, name="rv-reader", daemon=True).start()
        threading.Thread(target=self.executor, name="rv-ctl", daemon=True).start()
        try:
            self.server.start()
        except BaseException as e:
            self.start_exc = "%s: %s" % (type(e).__name__, e)
        self.start_returned = True
        while True:                      # stay around for state? / close2 / quit; signal handlers keep running here
            time.sleep(0.05)


def _child_entry(argv):
    import argparse
    ap = argparse.ArgumentParser()
    ap.add_argument("kind")
    ap.add_argument("--auth", action="store_true")
    ap.add_argument("--unix")
    ap.add_argument("--scratch", required=True)
    args = ap.parse_args(argv)
    sys.dont_write_bytecode = True
    repo = repo_dir()
    here = os.path.dirname(os.path.abspath(__file__))
    sys.path[:] = [p for p in sys.path if os.path.abspath(p or ".") != here]     # run as a script: drop lib/rv itself
    for p in (LIB, repo):
        if p in sys.path:
            sys.path.remove(p)
        sys.path.insert(0, p)
    import rpyc
    if not os.path.abspath(rpyc.__file__).startswith(os.path.abspath(repo) + os.sep):
        raise SystemExit("rpyc imported from %s, expected %s" % (rpyc.__file__, repo))
    if os.environ.get("RV_YIELD_INJECT", "1") != "0":
        _install_yield_injection()
    if os.environ.get("RV_FORK_FAIL"):
        # fault injection: the n-th, ... calls of os.fork() in this process fail the way they do on a loaded machine
        import errno
        nums = {int(x) for x in os.environ["RV_FORK_FAIL"].split(",") if x}
        real_fork, calls = os.fork, [0]

        def failing_fork():
            calls[0] += 1
            if calls[0] in nums:
                raise OSError(errno.EAGAIN, "Resource temporarily unavailable (injected)")
            return real_fork()
        os.fork = failing_fork
    if os.environ.get("RV_NOFILE"):
        # a small descriptor table: a listening process that keeps something of every client it ever had runs out within one run
        import resource
        n = int(os.environ["RV_NOFILE"])
        resource.setrlimit(resource.RLIMIT_NOFILE, (n, n))
    _Child(args).main()


def _install_yield_injection():
    """Delay injection between critical sections of the per-client set-up path: at every source line of the functions that
    accept, authenticate and wire up a client the running thread may give up the GIL (time.sleep(0)) or sleep for a
    fraction of a millisecond, so that clients accepted at the same time really interleave inside those functions.
    Only suspension is injected - no state is touched - so every interleaving it produces is one the OS could produce."""
    import random
    import rpyc.utils.server as srv
    import rpyc.core.service as service
    import rpyc.core.protocol as protocol
    mon = sys.monitoring
    tool = None
    for tid in (4, 3, 5, 2):
        try:
            mon.use_tool_id(tid, "rv-yield-inject")
            tool = tid
            break
        except ValueError:
            continue
    if tool is None:
        return
    rng = random.Random(os.getpid())
    counter = [0]

    slow_codes = set()
    medium_codes = set()
    # RV_ACCEPT_PAUSE: a thread that has just taken a client off the listener (the `break` that leaves the accept loop) is held
    # up for some tens of milliseconds - long enough for a close() issued at that moment to run its course meanwhile
    pause_lines = set()
    if os.environ.get("RV_ACCEPT_PAUSE") == "1":
        import inspect
        try:
            lines, first = inspect.getsourcelines(srv.Server.accept)
            pause_lines.update(first + i for i, text in enumerate(lines) if text.strip() == "break")
        except (OSError, TypeError):
            pass
    accept_code = srv.Server.accept.__code__

    def on_line(code, line):
        counter[0] += 1
        if pause_lines and code is accept_code and line in pause_lines:
            time.sleep(0.08)
            return
        r = rng.random()
        if code in slow_codes:           # shutting a server down is not time critical: give the other threads real time
            if r < 0.6:
                time.sleep(0.002)
            return
        if code in medium_codes:         # descriptor hand-over points of the thread pool: windows of a few milliseconds
            if r < 0.2:
                time.sleep(0.003)
            elif r < 0.5:
                time.sleep(0)
            return
        if r < 0.25:
            time.sleep(0)
        elif r < 0.30:
            time.sleep(0.0004)
    mon.register_callback(tool, mon.events.LINE, on_line)
    funcs = [srv.Server.close, srv.ThreadPoolServer.close, srv.Server._serve_client, srv.Server._authenticate_and_serve_client, srv.Server.accept, srv.ThreadedServer._accept_method,
             srv.ThreadPoolServer._accept_method, srv.ThreadPoolServer._authenticate_and_build_connection,
             srv.ThreadPoolServer._serve_requests, srv.ThreadPoolServer._drop_connection, srv.ThreadPoolServer._handle_poll_result,
             service.Service.__dict__["_connect"].func, protocol.Connection.__init__]
    slow_codes.update((srv.Server.close.__code__, srv.ThreadPoolServer.close.__code__))
    medium_codes.update((srv.ThreadPoolServer._serve_requests.__code__, srv.ThreadPoolServer._drop_connection.__code__))
    for f in funcs:
        code = getattr(f, "__code__", None)
        if code is not None:
            mon.set_local_events(tool, code, mon.events.LINE)
    globals()["_YIELD_COUNTER"] = counter


# ====================================================================================== harness side
class ChildError(Exception):
    """the server process did not do what the harness needs; never a verdict about rpyc by itself"""


class ChildTimeout(ChildError):
    pass


class ChildDied(ChildError):
    pass


class ServerProc(object):
    def __init__(self, kind, auth=False, unix=False, start_watchdog=60, cmd_watchdog=60, nofile=None, accept_pause=False, fork_fail=None):
        """auth: False | True | "rewrap" (the authenticator returns a new socket object for the same descriptor)"""
        if kind not in KINDS:
            raise ValueError(kind)
        self.kind, self.auth, self.unix = kind, bool(auth), unix
        self.auth_kind = auth
        self.cmd_watchdog = cmd_watchdog
        self.scratch = tempfile.mkdtemp(prefix="rv_rn_", dir="/tmp")
        self.path = os.path.join(self.scratch, "s.sock") if unix else None
        self._replies = queue.Queue()
        self._next = 0
        self._lock = threading.Lock()
        self.dead = False
        env = dict(os.environ)
        env["PYTHONPATH"] = repo_dir() + os.pathsep + LIB
        env["PYTHONDONTWRITEBYTECODE"] = "1"
        env["RV_AUTH_REWRAP"] = "1" if auth == "rewrap" else "0"
        env["RV_AUTH_PATIENT"] = "1" if auth == "patient" else "0"
        env["RV_ACCEPT_PAUSE"] = "1" if accept_pause else "0"
        if fork_fail:
            env["RV_FORK_FAIL"] = fork_fail
        else:
            env.pop("RV_FORK_FAIL", None)
        if nofile:
            env["RV_NOFILE"] = str(nofile)
        else:
            env.pop("RV_NOFILE", None)
        cmd = [sys.executable, "-u", os.path.abspath(__file__).replace(".pyc", ".py"), "serve", kind, "--scratch", self.scratch]
        if auth:
            cmd.append("--auth")
        if unix:
            cmd += ["--unix", self.path]
        self._stderr = open(os.path.join(self.scratch, "stderr.log"), "wb")
        self.proc = subprocess.Popen(cmd, stdin=subprocess.PIPE, stdout=subprocess.PIPE, stderr=self._stderr,
                                     start_new_session=True, env=env, cwd=self.scratch)
        self._reader = threading.Thread(target=self._read, name="rv-childout-%d" % self.proc.pid, daemon=True)
        self._reader.start()
        try:
            rep = self._wait(0, start_watchdog)
            if not rep.get("ready"):
                raise ChildDied("server did not become active: %r; stderr: %s" % (rep, self.stderr_tail()))
            self.host, self.port, self.pid = rep["host"], rep["port"], rep["pid"]
        except BaseException:
            self.kill()
            raise

    # ---- control pipe
    def _read(self):
        try:
            for line in self.proc.stdout:
                try:
                    self._replies.put(json.loads(line))
                except ValueError:
                    pass
        except (OSError, ValueError):
            pass
        self._replies.put(None)

    def _wait(self, ident, watchdog):
        deadline = time.time() + watchdog
        while True:
            left = deadline - time.time()
            if left <= 0:
                raise ChildTimeout("no reply to command %s within %ss" % (ident, watchdog))
            try:
                rep = self._replies.get(timeout=min(left, 1.0))
            except queue.Empty:
                continue
            if rep is None:
                self.dead = True
                self._replies.put(None)
                raise ChildDied("server process ended (rc=%s); stderr: %s" % (self.proc.poll(), self.stderr_tail()))
            if rep.get("id") == ident:
                return rep

    def cmd(self, name, watchdog=None):
        with self._lock:
            self._next += 1
            ident = self._next
            try:
                self.proc.stdin.write((json.dumps(dict(id=ident, cmd=name)) + "\n").encode())
                self.proc.stdin.flush()
            except (OSError, ValueError) as e:
                self.dead = True
                raise ChildDied("control pipe closed: %s; stderr: %s" % (e, self.stderr_tail()))
            rep = self._wait(ident, watchdog or self.cmd_watchdog)
        if rep.get("error"):
            raise ChildError("command %s failed in the child: %s" % (name, rep["error"]))
        return rep

    def state(self, watchdog=None):
        return self.cmd("state?", watchdog)["state"]

    def close_server(self, watchdog=None):
        return self.cmd("close", watchdog or 90)

    def close2(self, watchdog=None):
        return self.cmd("close2", watchdog or 90)

    def stderr_tail(self, n=1500):
        try:
            self._stderr.flush()
            with open(os.path.join(self.scratch, "stderr.log"), "rb") as f:
                f.seek(0, 2)
                size = f.tell()
                f.seek(max(0, size - n))
                return f.read().decode("utf8", "replace")
        except (OSError, ValueError):
            return ""

    def poll_state(self, pred, watchdog, interval=0.05):
        """sample state? until pred(state) holds; -> (held, last state, samples taken). The last state is a sample taken
        at least `watchdog` seconds after the call when pred never held."""
        deadline = time.time() + watchdog
        n = 0
        while True:
            st = self.state()
            n += 1
            if pred(st):
                return True, st, n
            if time.time() >= deadline:
                return False, st, n
            time.sleep(interval)
            interval = min(interval * 1.5, 0.5)

    # ---- clients
    @property
    def address(self):
        return ("unix", self.path) if self.unix else ("tcp", self.host, self.port)

    def raw(self, timeout=15.0, token=None):
        """connected raw socket; token=True sends a right token, bytes sends those bytes first"""
        if self.unix:
            s = socket.socket(socket.AF_UNIX, socket.SOCK_STREAM)
            target = self.path
        else:
            s = socket.socket(socket.AF_INET, socket.SOCK_STREAM)
            target = (self.host, self.port)
        try:
            s.settimeout(timeout)
            s.connect(target)
            if not self.unix:
                s.setsockopt(socket.IPPROTO_TCP, socket.TCP_NODELAY, 1)
            if token is True:
                s.sendall(TOKEN)
            elif token:
                s.sendall(token)
        except BaseException:
            s.close()
            raise
        return s

    def good(self, sync_timeout=30, connect_timeout=15.0, identity=None):
        """well-behaved rpyc client over a fresh socket (sends the token first when the server authenticates;
        `identity` = five characters that the authenticator turns into this connection's credentials)"""
        import rpyc
        from rpyc.core.stream import SocketStream
        tok = True
        if identity is not None:
            tok = TOKEN[:3] + identity.encode("latin1")[:5].ljust(5, b"_")
        s = self.raw(connect_timeout, token=tok if self.auth else None)
        s.settimeout(None)
        try:
            return rpyc.connect_stream(SocketStream(s), config={"sync_request_timeout": sync_timeout})
        except BaseException:
            s.close()
            raise

    # ---- end
    def kill(self):
        self.dead = True
        try:
            os.killpg(self.proc.pid, signal.SIGKILL)
        except OSError:
            pass
        try:
            self.proc.kill()
        except OSError:
            pass
        try:
            self.proc.wait(10)
        except Exception:
            pass
        for f in (self.proc.stdin, self.proc.stdout, self._stderr):
            try:
                f.close()
            except Exception:
                pass
        try:                       # forked grand-children that outlived the group leader
            os.killpg(self.proc.pid, signal.SIGKILL)
        except OSError:
            pass
        import shutil
        shutil.rmtree(self.scratch, ignore_errors=True)

    def __enter__(self):
        return self

    def __exit__(self, *exc):
        self.kill()


def rst_close(sock):
    """abortive close: SO_LINGER 0 (TCP sends RST; a unix socket is simply torn down with unread data pending)"""
    try:
        sock.setsockopt(socket.SOL_SOCKET, socket.SO_LINGER, struct.pack("ii", 1, 0))
    except OSError:
        pass
    sock.close()


def wait_eof(sock, watchdog):
    """-> 'eof' (read b'' or connection reset: end of stream) | 'data' (something else arrived first: returned as
    ('data', bytes)) | 'timeout'. Only looks, never writes."""
    deadline = time.time() + watchdog
    got = b""
    while True:
        left = deadline - time.time()
        if left <= 0:
            return ("timeout", got)
        try:
            r, _, _ = select.select([sock], [], [], min(left, 0.5))
        except (OSError, ValueError):
            return ("eof", got)
        if not r:
            continue
        try:
            data = sock.recv(65536)
        except (ConnectionResetError, BrokenPipeError, ConnectionAbortedError):
            return ("eof", got)
        except socket.timeout:
            continue
        except OSError as e:
            if e.errno in (errno.EBADF, errno.ENOTCONN, errno.ECONNRESET, errno.EPIPE):
                return ("eof", got)
            raise
        if not data:
            return ("eof", got)
        got += data


class RawSession(object):
    """scripted peer over a raw socket; encodes and parses with the independent codec (rv.refcodec)"""

    def __init__(self, sock):
        from rv import refcodec
        self.rc = refcodec
        self.sock = sock
        self.parser = refcodec.FrameParser()
        self.inbox = collections.deque()
        self.seq = 0
        self.eof = False

    def send_request(self, handler, boxed, seq=None):
        if seq is None:
            self.seq += 1
            seq = self.seq
        self.sock.sendall(self.rc.request(seq, handler, boxed))
        return seq

    def request_bytes(self, handler, boxed, seq=None):
        if seq is None:
            self.seq += 1
            seq = self.seq
        return self.rc.request(seq, handler, boxed)

    def read_message(self, watchdog):
        """-> dict(kind, seq, args) | 'eof' | 'timeout'"""
        deadline = time.time() + watchdog
        while not self.inbox:
            left = deadline - time.time()
            if left <= 0:
                return "timeout"
            try:
                r, _, _ = select.select([self.sock], [], [], min(left, 0.5))
            except (OSError, ValueError):
                self.eof = True
                return "eof"
            if not r:
                continue
            try:
                data = self.sock.recv(65536)
            except socket.timeout:
                continue
            except OSError:
                self.eof = True
                return "eof"
            if not data:
                self.eof = True
                return "eof"
            for body, flag, n in self.parser.feed(data):
                try:
                    self.inbox.append(self.rc.parse_message(body))
                except Exception as e:
                    self.inbox.append(dict(kind="undecodable", seq=None, args=repr(e)))
        return self.inbox.popleft()

    def read_reply(self, seq, watchdog):
        """skips requests of the peer (e.g. its CLOSE) and replies to other seqs"""
        deadline = time.time() + watchdog
        while True:
            m = self.read_message(max(0.0, deadline - time.time()))
            if m in ("eof", "timeout"):
                return m
            if m["kind"] in (self.rc.MSG_REPLY, self.rc.MSG_EXCEPTION) and m["seq"] == seq:
                return m

    def getroot(self, watchdog=20):
        """-> id_pack of the root (tuple) | 'eof' | 'timeout' | ('unexpected', message)"""
        seq = self.send_request(self.rc.HANDLERS["GETROOT"], self.rc.box_value(()))
        m = self.read_reply(seq, watchdog)
        if m in ("eof", "timeout"):
            return m
        if m["kind"] == self.rc.MSG_REPLY and type(m["args"]) is tuple and m["args"][0] == self.rc.LABEL_REMOTE_REF:
            return m["args"][1]
        return ("unexpected", m)

    def callattr_bytes(self, id_pack, name, args=(), seq=None):
        rc = self.rc
        boxed = rc.box_args((rc.LABEL_LOCAL_REF, id_pack), rc.box_value(name), rc.box_value(tuple(args)), rc.box_value(()))
        return self.request_bytes(rc.HANDLERS["CALLATTR"], boxed, seq)

    def callattr(self, id_pack, name, args=(), watchdog=20):
        data = self.callattr_bytes(id_pack, name, args)
        seq = self.seq
        self.sock.sendall(data)
        return self.read_reply(seq, watchdog)


class SharedCtx(object):
    """serialises access to a verdict.Ctx used from several harness threads"""

    def __init__(self, ctx):
        self._ctx = ctx
        self._lock = threading.RLock()
        self.quick = ctx.quick

    def __getattr__(self, name):
        target = getattr(self._ctx, name)
        if not callable(target):
            return target

        def locked(*a, **kw):
            with self._lock:
                return target(*a, **kw)
        return locked


def run_parallel(ctx, jobs, width, name="rv-job"):
    """run callables on `width` harness threads; exceptions are collected, the driver's stuck detector is fed only by
    the jobs' own ctx.case()/beat() calls. -> list of (job index, exception)"""
    q = queue.Queue()
    for i, j in enumerate(jobs):
        q.put((i, j))
    errors = []

    def worker():
        while True:
            try:
                i, j = q.get_nowait()
            except queue.Empty:
                return
            try:
                j()
            except BaseException as e:   # harness trouble: reported by the caller as inconclusive
                import traceback
                errors.append((i, "%s: %s\n%s" % (type(e).__name__, e, traceback.format_exc()[-1500:])))
    threads = [threading.Thread(target=worker, name="%s-%d" % (name, k), daemon=True) for k in range(max(1, width))]
    for t in threads:
        t.start()
    for t in threads:
        while t.is_alive():
            t.join(1.0)
    return errors


if __name__ == "__main__":
    if len(sys.argv) > 1 and sys.argv[1] == "serve":
        _child_entry(sys.argv[2:])
    else:
        sys.exit("usage: realnet.py serve <kind> --scratch DIR [--auth] [--unix PATH]")

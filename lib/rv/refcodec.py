"""E3 - independent reference of the published rpyc 5.x wire format (frozen; does NOT import rpyc).

brine tag table (one byte tag, then payload):
  00 None   01 b""   02 ()   03 True   04 False   05 NotImplemented   06 Ellipsis
  08 text: followed by the brine encoding of its UTF-8 bytes
  0a..0d bytes of length 1..4       0e bytes, 1-byte length      0f bytes, 4-byte BE length
  10..13 tuple of length 1..4       14 tuple, 1-byte count       15 tuple, 4-byte BE count
  16 int as decimal text, 1-byte length   17 int as decimal text, 4-byte BE length
  18 float  (IEEE-754 binary64 big endian)        1b complex (two binary64 BE)
  19 slice  (followed by the 3-tuple start, stop, step)     1a frozenset (followed by a tuple)
  20..ef  immediate integers -48..159  (value + 0x50)
frame:  !L payload length, !B compressed flag, payload, b"\n"; zlib only above 3000 bytes.
message: brine((kind, seq, args));  request args = (handler, boxed_args);  box = (label, value)
"""
import struct
import zlib

MSG_REQUEST, MSG_REPLY, MSG_EXCEPTION = 1, 2, 3
LABEL_VALUE, LABEL_TUPLE, LABEL_LOCAL_REF, LABEL_REMOTE_REF = 1, 2, 3, 4
HANDLERS = dict(PING=1, CLOSE=2, GETROOT=3, GETATTR=4, DELATTR=5, SETATTR=6, CALL=7, CALLATTR=8, REPR=9,
                STR=10, CMP=11, HASH=12, DIR=13, PICKLE=14, DEL=15, INSPECT=16, BUFFITER=17,
                OLDSLICING=18, CTXEXIT=19, INSTANCECHECK=20)
HANDLER_NAMES = {v: k for k, v in HANDLERS.items()}
EXC_STOP_ITERATION = 1
COMPRESSION_THRESHOLD = 3000
MAX_IO_CHUNK = 64000
# published constants of rpyc.core.consts, by name
PUBLISHED_CONSTS = dict(
    MSG_REQUEST=1, MSG_REPLY=2, MSG_EXCEPTION=3,
    LABEL_VALUE=1, LABEL_TUPLE=2, LABEL_LOCAL_REF=3, LABEL_REMOTE_REF=4,
    HANDLE_PING=1, HANDLE_CLOSE=2, HANDLE_GETROOT=3, HANDLE_GETATTR=4, HANDLE_DELATTR=5, HANDLE_SETATTR=6,
    HANDLE_CALL=7, HANDLE_CALLATTR=8, HANDLE_REPR=9, HANDLE_STR=10, HANDLE_CMP=11, HANDLE_HASH=12,
    HANDLE_DIR=13, HANDLE_PICKLE=14, HANDLE_DEL=15, HANDLE_INSPECT=16, HANDLE_BUFFITER=17,
    HANDLE_OLDSLICING=18, HANDLE_CTXEXIT=19, HANDLE_INSTANCECHECK=20, EXC_STOP_ITERATION=1,
    STREAM_CHUNK=64000)

DOCSTRING_VECTOR_HEX = ("140e0b686557080c6c6c6f580216033930300003061840323333333333331b402a0000000000004032"
                        "33333333333319125152531a1255565705")


class DecodeError(Exception):
    pass


def plain_immutable(v, _depth=0):
    """the property's notion of 'immutable plain value' (exact types, recursively)"""
    t = type(v)
    if t in (int, bool, float, complex, bytes, str, type(None), type(NotImplemented), type(Ellipsis)):
        return True
    if t in (tuple, frozenset):
        return all(plain_immutable(x) for x in v)
    if t is slice:
        return plain_immutable(v.start) and plain_immutable(v.stop) and plain_immutable(v.step)
    return False


def _enc_bytes(b, out):
    n = len(b)
    if n == 0:
        out.append(b"\x01")
    elif n <= 4:
        out.append(bytes([0x09 + n]) + b)
    elif n < 256:
        out.append(b"\x0e" + bytes([n]) + b)
    else:
        out.append(b"\x0f" + struct.pack(">I", n) + b)


def _enc(v, out):
    t = type(v)
    if v is None:
        out.append(b"\x00")
    elif v is NotImplemented:
        out.append(b"\x05")
    elif v is Ellipsis:
        out.append(b"\x06")
    elif t is bool:
        out.append(b"\x03" if v else b"\x04")
    elif t is int:
        if -48 <= v < 160:
            out.append(bytes([v + 0x50]))
        else:
            txt = str(v).encode("ascii")
            if len(txt) < 256:
                out.append(b"\x16" + bytes([len(txt)]) + txt)
            else:
                out.append(b"\x17" + struct.pack(">I", len(txt)) + txt)
    elif t is float:
        out.append(b"\x18" + struct.pack(">d", v))
    elif t is complex:
        out.append(b"\x1b" + struct.pack(">dd", v.real, v.imag))
    elif t is bytes:
        _enc_bytes(v, out)
    elif t is str:
        out.append(b"\x08")
        _enc_bytes(v.encode("utf-8"), out)     # the published format: UTF-8 (strict)
    elif t is tuple:
        n = len(v)
        if n == 0:
            out.append(b"\x02")
        elif n <= 4:
            out.append(bytes([0x0f + n]))
        elif n < 256:
            out.append(b"\x14" + bytes([n]))
        else:
            out.append(b"\x15" + struct.pack(">I", n))
        for x in v:
            _enc(x, out)
    elif t is slice:
        out.append(b"\x19")
        _enc((v.start, v.stop, v.step), out)
    elif t is frozenset:
        out.append(b"\x1a")
        _enc(tuple(v), out)
    else:
        raise TypeError("not a plain immutable value: %r" % (t,))


def encode(v):
    out = []
    _enc(v, out)
    return b"".join(out)


class _R(object):
    def __init__(self, data):
        self.d = data
        self.i = 0

    def take(self, n):
        if self.i + n > len(self.d):
            raise DecodeError("truncated")
        b = self.d[self.i:self.i + n]
        self.i += n
        return b


def _dec(r, depth=0):
    if depth > 400:
        raise DecodeError("too deep")
    tag = r.take(1)[0]
    if 0x20 <= tag <= 0xef:
        return tag - 0x50
    if tag == 0x00:
        return None
    if tag == 0x01:
        return b""
    if tag == 0x02:
        return ()
    if tag == 0x03:
        return True
    if tag == 0x04:
        return False
    if tag == 0x05:
        return NotImplemented
    if tag == 0x06:
        return Ellipsis
    if tag == 0x08:
        b = _dec(r, depth + 1)
        if type(b) is not bytes:
            raise DecodeError("text payload is not bytes")
        try:
            return b.decode("utf-8", "surrogatepass")
        except UnicodeDecodeError as e:
            raise DecodeError(str(e))
    if 0x0a <= tag <= 0x0d:
        return r.take(tag - 0x09)
    if tag == 0x0e:
        return r.take(r.take(1)[0])
    if tag == 0x0f:
        return r.take(struct.unpack(">I", r.take(4))[0])
    if 0x10 <= tag <= 0x13:
        return tuple(_dec(r, depth + 1) for _ in range(tag - 0x0f))
    if tag == 0x14:
        return tuple(_dec(r, depth + 1) for _ in range(r.take(1)[0]))
    if tag == 0x15:
        n = struct.unpack(">I", r.take(4))[0]
        if n > len(r.d):
            raise DecodeError("absurd count")
        return tuple(_dec(r, depth + 1) for _ in range(n))
    if tag in (0x16, 0x17):
        n = r.take(1)[0] if tag == 0x16 else struct.unpack(">I", r.take(4))[0]
        try:
            return int(r.take(n))
        except ValueError as e:
            raise DecodeError(str(e))
    if tag == 0x18:
        return struct.unpack(">d", r.take(8))[0]
    if tag == 0x1b:
        return complex(*struct.unpack(">dd", r.take(16)))
    if tag == 0x19:
        t = _dec(r, depth + 1)
        if type(t) is not tuple or len(t) != 3:
            raise DecodeError("bad slice")
        return slice(*t)
    if tag == 0x1a:
        t = _dec(r, depth + 1)
        try:
            return frozenset(t)
        except TypeError as e:
            raise DecodeError(str(e))
    raise DecodeError("unknown tag %#x" % tag)


def decode(data):
    return _dec(_R(bytes(data)))


def fingerprint(v):
    """bit-exact structural fingerprint: type at every node, floats by their bytes"""
    t = type(v)
    if t is float:
        return ("float", struct.pack(">d", v))
    if t is complex:
        return ("complex", struct.pack(">dd", v.real, v.imag))
    if t is tuple:
        return ("tuple", tuple(fingerprint(x) for x in v))
    if t is frozenset:
        return ("frozenset", frozenset(fingerprint(x) for x in v))
    if t is slice:
        return ("slice", fingerprint(v.start), fingerprint(v.stop), fingerprint(v.step))
    if t in (int, bool, bytes, str, type(None), type(NotImplemented), type(Ellipsis)):
        return (t.__name__, v)
    return ("OTHER", t.__module__ + "." + t.__qualname__, id(v))


# ---------------------------------------------------------------- frames
def frame(payload, compress=True, level=1):
    if compress and len(payload) > COMPRESSION_THRESHOLD:
        body, flag = zlib.compress(payload, level), 1
    else:
        body, flag = payload, 0
    return struct.pack(">IB", len(body), flag) + body + b"\n"


class FrameParser(object):
    """incremental parser of one direction's byte stream; tolerant: records, never raises"""

    def __init__(self):
        self.buf = bytearray()
        self.frames = []        # (payload bytes, flag, raw length)
        self.errors = []
        self.offset = 0

    def feed(self, data):
        self.buf += data
        out = []
        while len(self.buf) >= 5:
            n, flag = struct.unpack(">IB", self.buf[:5])
            if len(self.buf) < 5 + n + 1:
                break
            body = bytes(self.buf[5:5 + n])
            tail = self.buf[5 + n]
            del self.buf[:5 + n + 1]
            self.offset += 5 + n + 1
            if tail != 0x0a:
                self.errors.append("frame without trailing newline at %d" % self.offset)
            if flag not in (0, 1):
                self.errors.append("flag %r" % flag)
            if flag:
                try:
                    body = zlib.decompress(body)
                except zlib.error as e:
                    self.errors.append("zlib: %s" % e)
                    continue
            fr = (body, flag, n)
            self.frames.append(fr)
            out.append(fr)
        return out


def parse_message(payload):
    """-> dict(kind, seq, handler, args) using the reference decoder"""
    m = decode(payload)
    if type(m) is not tuple or len(m) != 3:
        raise DecodeError("message is not a 3-tuple")
    kind, seq, args = m
    d = dict(kind=kind, seq=seq, args=args, handler=None)
    if kind == MSG_REQUEST and type(args) is tuple and len(args) == 2:
        d["handler"], d["boxed"] = args
    return d


def msg(kind, seq, args, compress=True):
    return frame(encode((kind, seq, args)), compress)


def request(seq, handler, boxed_args, compress=True):
    """boxed_args: already boxed (label, value) of the args tuple"""
    return msg(MSG_REQUEST, seq, (handler, boxed_args), compress)


def box_value(v):
    return (LABEL_VALUE, v)


def box_args(*items):
    """box a tuple of already boxed items; if every item is a plain value the whole is one value"""
    if all(i[0] == LABEL_VALUE for i in items):
        return (LABEL_VALUE, tuple(i[1] for i in items))
    return (LABEL_TUPLE, tuple(items))


def remote_ref_ids(boxed, out=None):
    """all id_packs that appear as REMOTE_REF in a boxed tree"""
    out = [] if out is None else out
    if type(boxed) is tuple and len(boxed) == 2:
        label, value = boxed
        if label == LABEL_REMOTE_REF:
            out.append(value)
        elif label == LABEL_TUPLE and type(value) is tuple:
            for item in value:
                remote_ref_ids(item, out)
    return out

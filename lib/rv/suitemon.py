"""Record-only runtime contracts on the real rpyc functions, attached process-wide (see lib/rv_site/sitecustomize.py) while
the repository's OWN test-suite - a workload written by other people, with real sockets, threads, sub-processes, classic mode,
teleportation, pickling - runs. Each monitor states a clause of one property as a local pre/post-condition; a violated
condition is appended to <dir>/violations.<pid>.jsonl at once (a forked child that leaves through os._exit still reports),
counters are written when the process exits. The monitors never raise and never change a result.

  C03  Connection._box(obj): by value  <=>  independent predicate plain_immutable(obj)
  C04  brine.dump(v): reference decoder reads back a value with the same bit-exact fingerprint; brine.load() returns plain data
  C19  brine.dump(v) equals the reference encoder byte for byte (values without multi-element frozensets); every payload
       handed to Channel.send() is a (kind, seq, args) message of the published shapes
  C08  Connection._dispatch_request(seq, ...) returning normally  =>  exactly one REPLY/EXCEPTION with that seq was handed to
       _send by then; AsyncResult.__call__ runs at most once per result
  C13  Connection._get_seq_id() never returns a number twice on one connection
  C11  after Connection._cleanup(): nothing left lent, connection reports closed
"""
import atexit
import json
import os
import threading

_lock = threading.Lock()
_counters = {}
_dir = None
_installed = False


def _count(k, n=1):
    with _lock:
        _counters[k] = _counters.get(k, 0) + n


def _violation(prop, key, what):
    _count("violations")
    try:
        with _lock:
            with open(os.path.join(_dir, "violations.%d.jsonl" % os.getpid()), "a") as f:
                f.write(json.dumps(dict(property=prop, key=key, what=what[:600], test=os.environ.get("PYTEST_CURRENT_TEST", ""))) + "\n")
    except Exception:
        pass


def _flush():
    try:
        with _lock:
            data = dict(_counters)
        with open(os.path.join(_dir, "counters.%d.json" % os.getpid()), "w") as f:
            json.dump(data, f)
    except Exception:
        pass


def _has_multi_frozenset(v, depth=0):
    if depth > 60:
        return True
    if type(v) is frozenset:
        return len(v) > 1 or any(_has_multi_frozenset(x, depth + 1) for x in v)
    if type(v) is tuple:
        return any(_has_multi_frozenset(x, depth + 1) for x in v)
    if type(v) is slice:
        return any(_has_multi_frozenset(x, depth + 1) for x in (v.start, v.stop, v.step))
    return False


def install(directory):
    global _dir, _installed
    if _installed:
        return
    _installed = True
    _dir = directory
    from rv import refcodec as rc
    from rpyc.core import brine, protocol, consts, async_, channel
    atexit.register(_flush)
    guard = threading.local()

    # ---- C04 / C19: the serializer
    orig_dump, orig_load = brine.dump, brine.load

    def dump(obj):
        data = orig_dump(obj)
        if getattr(guard, "busy", False):
            return data
        guard.busy = True
        try:
            _count("dump_calls")
            try:
                fp = rc.fingerprint(obj)
                back = rc.decode(data)
                if rc.fingerprint(back) != fp:
                    _violation("C04", "suite/roundtrip-differs/%s" % type(obj).__name__, "reference decoder reads %r back from dump(%r)" % (back, obj))
                if not _has_multi_frozenset(obj):
                    if rc.encode(obj) != data:
                        _violation("C19", "suite/encoding-differs/%s" % type(obj).__name__, "dump(%r) = %r, reference encoder gives %r" % (obj, data[:80], rc.encode(obj)[:80]))
                    _count("dump_compared_bytewise")
            except RecursionError:
                _count("dump_skipped_recursion")
            except Exception as e:
                _violation("C19", "suite/reference-rejects-own-dump/%s" % type(e).__name__, "reference codec fails on dump(%r): %r" % (obj, e))
        finally:
            guard.busy = False
        return data

    def load(data):
        v = orig_load(data)
        try:
            _count("load_calls")
            if not rc.plain_immutable(v):
                _violation("C04", "suite/load-yields-non-plain", "load() returned %r" % (v,))
        except Exception:
            pass
        return v
    brine.dump, brine.load = dump, load

    # ---- C03: by value or by reference
    Connection = protocol.Connection
    orig_box = Connection._box

    def _box(self, obj):
        r = orig_box(self, obj)
        try:
            _count("box_calls")
            by_value = type(r) is tuple and r[0] == consts.LABEL_VALUE
            if by_value != rc.plain_immutable(obj):
                _violation("C03", "suite/decision/%s" % type(obj).__name__, "_box(%r) -> label %r, plain_immutable=%s" % (obj, r[0], not by_value))
        except Exception:
            pass
        return r
    Connection._box = _box

    # ---- C08: one response per handled request; C13: sequence numbers
    mon_lock = threading.Lock()
    # (monitor state lives on the connection object itself, so it cannot outlive or be confused with another connection)
    orig_send = Connection._send
    orig_dispatch_request = Connection._dispatch_request
    orig_get_seq = Connection._get_seq_id
    orig_cleanup = Connection._cleanup

    def _send(self, msg, seq, args):
        r = orig_send(self, msg, seq, args)        # a message that fails to encode raises here and was not handed over
        if msg in (consts.MSG_REPLY, consts.MSG_EXCEPTION):
            with mon_lock:
                d = self.__dict__.setdefault("_rv_mon_responses", {})
                d[seq] = d.get(seq, 0) + 1
        return r

    def _dispatch_request(self, seq, raw_args):
        r = orig_dispatch_request(self, seq, raw_args)
        try:
            _count("requests_handled")
            with mon_lock:
                n = self.__dict__.get("_rv_mon_responses", {}).pop(seq, 0)
            if n != 1:
                _violation("C08", "suite/responses-per-request/%d" % min(n, 2), "request seq %r was handled and %d responses were handed to _send" % (seq, n))
        except Exception:
            pass
        return r

    def _get_seq_id(self):
        v = orig_get_seq(self)
        try:
            _count("sequence_numbers_issued")
            with mon_lock:
                s = self.__dict__.setdefault("_rv_mon_seqs", set())
                dup = v in s
                s.add(v)
            if dup:
                _violation("C13", "suite/sequence-number-reused", "sequence number %r issued twice on one connection" % (v,))
        except Exception:
            pass
        return v

    def _cleanup(self, *a, **k):
        r = orig_cleanup(self, *a, **k)
        try:
            _count("cleanups")
            left = len(self._local_objects._dict) if self._local_objects is not None else 0
            if left:
                _violation("C11", "suite/objects-still-lent-after-cleanup", "%d objects still lent after _cleanup()" % left)
            if not self.closed:
                _violation("C11", "suite/not-closed-after-cleanup", "connection does not report closed after _cleanup()")
        except Exception:
            pass
        return r
    Connection._send, Connection._dispatch_request = _send, _dispatch_request
    Connection._get_seq_id, Connection._cleanup = _get_seq_id, _cleanup

    # ---- C08 / C15: a result is completed once
    AsyncResult = async_.AsyncResult
    orig_call = AsyncResult.__call__

    def __call__(self, is_exc, obj):
        try:
            _count("results_completed")
            dup = getattr(self, "_is_ready", False)       # completed results are ready; a second completion finds it so
            if dup:
                _violation("C15", "suite/result-completed-twice", "AsyncResult.__call__ ran twice on one result")
        except Exception:
            pass
        return orig_call(self, is_exc, obj)
    AsyncResult.__call__ = __call__

    # ---- C19: messages handed to the channel
    Channel = channel.Channel
    orig_chan_send = Channel.send

    def send(self, data):
        try:
            _count("payloads_sent")
            m = rc.decode(bytes(data))
            ok = type(m) is tuple and len(m) == 3 and m[0] in (consts.MSG_REQUEST, consts.MSG_REPLY, consts.MSG_EXCEPTION)
            if ok and m[0] == consts.MSG_REQUEST:
                ok = type(m[2]) is tuple and len(m[2]) == 2 and type(m[2][0]) is int
            if ok and m[0] == consts.MSG_EXCEPTION:
                ok = m[2] == 1 or (type(m[2]) is tuple and len(m[2]) == 4)
            if not ok:
                _violation("C19", "suite/message-shape", "payload handed to the channel is not a published message: %r" % (m,))
        except RecursionError:
            pass
        except Exception as e:
            _violation("C19", "suite/payload-undecodable/%s" % type(e).__name__, "reference decoder fails on an outgoing payload: %r" % (e,))
        return orig_chan_send(self, data)
    Channel.send = send
    _count("processes_monitored")

"""Runs the repository's own test-suite with the monitors of rv.suitemon attached; returns the merged report.
The tests' verdicts are NOT used (some fail for reasons of this sandbox): only what the monitors recorded counts."""
import glob
import json
import os
import shutil
import subprocess
import sys
import tempfile

HERE = os.path.dirname(os.path.dirname(os.path.dirname(os.path.abspath(__file__))))


def run(repo, timeout=1500, tests="tests", extra=()):
    out = tempfile.mkdtemp(prefix="rv_suitemon_")
    try:
        env = dict(os.environ, RV_SUITEMON_DIR=out, PYTHONHASHSEED="0",
                   PYTHONPATH=os.pathsep.join([repo, os.path.join(HERE, "lib", "rv_site"), os.path.join(HERE, "lib")]))
        inner = "cd %s && exec %s -m pytest -q -p no:cacheprovider --timeout=120 %s --deselect tests/test_gdb.py %s" % (
            repo, sys.executable, tests, " ".join(extra))
        # the suite uses fixed ports: give it a network namespace of its own when that is possible
        can_unshare = subprocess.run(["unshare", "-n", "true"], capture_output=True).returncode == 0
        if can_unshare:
            cmd = ["unshare", "-n", "sh", "-c", "ip link set lo up; ip route add default dev lo 2>/dev/null; " + inner]
        else:
            cmd = ["flock", os.path.join(tempfile.gettempdir(), "rv_suitemon.lock"), "sh", "-c", inner]
        try:
            r = subprocess.run(cmd, env=env, capture_output=True, text=True, timeout=timeout)
            tail = (r.stdout + r.stderr)[-400:]
            rc = r.returncode
        except subprocess.TimeoutExpired:
            tail, rc = "TIMEOUT", None
        counters, violations, errors = {}, [], []
        for f in glob.glob(os.path.join(out, "counters.*.json")):
            for k, v in json.load(open(f)).items():
                counters[k] = counters.get(k, 0) + v
        for f in glob.glob(os.path.join(out, "violations.*.jsonl")):
            for line in open(f):
                try:
                    violations.append(json.loads(line))
                except ValueError:
                    pass
        for f in glob.glob(os.path.join(out, "install-error.*.txt")):
            errors.append(open(f).read()[:300])
        return dict(returncode=rc, tail=tail, counters=counters, violations=violations, install_errors=errors, isolated=can_unshare)
    finally:
        shutil.rmtree(out, ignore_errors=True)


def account(ctx, prop, rep, needed):
    """feed a check's context: violations of its own property, what the monitors saw; `needed` = counters that must be > 0"""
    for k, v in rep["counters"].items():
        ctx.count("suite_" + k, v)
    ctx.count("suite_runs")
    if rep["install_errors"]:
        ctx.inconclusive("suite monitors failed to attach: %s" % rep["install_errors"][0])
    for k in needed:
        if not rep["counters"].get(k):
            ctx.inconclusive("repository suite under monitors: counter %s stayed 0 (%s)" % (k, rep["tail"][-200:].replace("\n", " ")))
    for v in rep["violations"]:
        if v["property"] == prop:
            ctx.violation("%s/%s" % (prop, v["key"]), "while the repository's own tests ran (%s): %s" % (v.get("test", "")[:80], v["what"]),
                          dict(family="suite-under-monitors", test=v.get("test")))


def for_check(ctx, prop, needed):
    """thorough tier, first shard only: the repository's own suite as one more workload for this property's monitors"""
    if ctx.quick or ctx.shard[0] != 0:
        return
    repo = os.environ.get("RPYC_VERIF_REPO", "/repo")
    account(ctx, prop, run(repo), needed)
    ctx.extra["suite_under_monitors"] = ("the repository's own tests ran once with record-only contracts attached to the real functions of every "
                                         "process they start (lib/rv/suitemon.py); only the monitors' records count, not the tests' verdicts")

"""E2 - controlled scheduler with virtual time.

Each logical thread is a real threading.Thread that runs only while it holds the baton; all others are parked on
private semaphores.  Control changes hands only at yield points: transport calls of the in-memory link (vnet),
SimLock / SimCondition operations, virtual sleep, and sys.monitoring LINE / INSTRUCTION events in chosen code
objects.  When nobody can run the virtual clock jumps to the earliest deadline; with no deadline the run is a
deadlock.  A run is a pure function of (seed, policy, script).
"""
import random
import sys
import threading

_TOOL = None
_ACTIVE = None            # the scheduler whose tasks may be pre-empted by monitoring callbacks
_thread_task = {}         # thread ident -> Task


class SchedAbort(BaseException):
    """raised inside parked tasks when the run is being torn down (deadlock, step budget, end of run)"""


class Task(object):
    def __init__(self, name, index):
        self.name = name
        self.index = index
        self.sem = threading.Semaphore(0)
        self.state = "NEW"           # NEW READY RUNNING BLOCKED DONE
        self.pred = None
        self.deadline = None
        self.tag = None
        self.woke_by_pred = True
        self.exc = None
        self.result = None
        self.thread = None
        self.yields = 0
        self.delay_left = 0
        self.priority = 0.0
        self.in_sched = False


class Sched(object):
    def __init__(self, seed=0, policy="random", script=(), p_switch=0.3, max_steps=200000, pct_depth=3):
        self.rng = random.Random(repr(seed))
        self.policy = policy
        self.script = {(t, n): d for (t, n, d) in script}     # (task name, nth yield of that task) -> delay in decisions
        self.p_switch = p_switch
        self.max_steps = max_steps
        self.tasks = []
        self.now = 0.0
        self.current = None
        self.steps = 0
        self.switches = 0
        self.preemptions = 0
        self.trace = []              # (task index, tag) at every switch
        self.census = []             # (task name, nth yield, tag) for every yield point (used to enumerate delay placements)
        self.record_census = False
        self.deadlock = None
        self.aborting = False
        self.abort_reason = None
        self.done = threading.Event()
        self.clock_jumps = []        # (from, to, task, tag)
        self.spin_cost = 0.0         # virtual seconds charged for a failed try-lock (a thread that spins on one burns real time)
        self.on_yield = None         # optional callback(sched, task, tag) at every yield point (invariant-at-a-hook monitors)
        self.on_clock_jump = None    # optional callback(sched, task) evaluated before time advances (lost wake-up detector)
        self.pct_changes = sorted(self.rng.randrange(1, 400) for _ in range(pct_depth)) if policy == "pct" else []
        self.time = SimClock(self)
        import collections
        self.ring = collections.deque(maxlen=40)

    # ------------------------------------------------------------------ tasks
    def spawn(self, fn, *args, **kwargs):
        name = kwargs.pop("name", None) or "t%d" % len(self.tasks)
        t = Task(name, len(self.tasks))
        t.priority = self.rng.random()
        self.tasks.append(t)

        def body():
            _thread_task[threading.get_ident()] = t
            t.sem.acquire()
            try:
                if self.aborting:
                    raise SchedAbort()
                t.result = fn(*args, **kwargs)
            except SchedAbort:
                pass
            except BaseException as e:      # recorded, judged by the check
                t.exc = e
            finally:
                _thread_task.pop(threading.get_ident(), None)
                self.ring.append((threading.current_thread().name, "finish", t.name, t.state, self.steps, repr(t.exc)))
                t.state = "DONE"
                self._task_finished(t)
        t.thread = threading.Thread(target=body, daemon=True, name="rv-" + name)
        t.state = "READY"
        t.thread.start()
        return t

    def cur(self):
        return _thread_task.get(threading.get_ident())

    def run(self, watchdog=60.0):
        """start the first task and wait until all tasks are done or the run was aborted"""
        global _ACTIVE
        import gc
        gc_was = gc.isenabled()
        gc.disable()            # finalizers of earlier runs' objects must not fire at arbitrary points of this run
        _ACTIVE = self
        try:
            first = self._choose([t for t in self.tasks if t.state == "READY"], None)
            self.current = first
            first.state = "RUNNING"
            first.sem.release()
            ok = self.done.wait(watchdog)
            if not ok:
                import faulthandler
                sys.stderr.write("rv.vsched: wall-clock watchdog (%ss); tasks: %r current=%r\n" % (
                    watchdog, [(t.name, t.state, t.tag, t.thread.is_alive(), getattr(t, "dbg", None)) for t in self.tasks], self.current and self.current.name))
                faulthandler.dump_traceback(file=sys.stderr)
                self.abort("wall-clock watchdog")
                self.done.wait(5)
            return ok
        finally:
            _ACTIVE = None
            if gc_was:
                gc.enable()

    def _task_finished(self, t):
        if all(x.state == "DONE" for x in self.tasks):
            self.done.set()
            return
        if self.aborting:
            self._release_all()
            return
        nxt = self._pick(None)
        if nxt is not None:
            self._resume(nxt)

    def abort(self, reason):
        if not self.aborting:
            self.aborting = True
            self.abort_reason = reason
        self._release_all()

    def _release_all(self):
        for t in self.tasks:
            if t.state in ("READY", "BLOCKED", "NEW"):
                t.state = "RUNNING"
                t.sem.release()
        if all(x.state == "DONE" for x in self.tasks):
            self.done.set()

    # ------------------------------------------------------------------ scheduling core
    def _runnable(self, exclude=None):
        out = []
        for t in self.tasks:
            if t is exclude:
                continue
            if t.state == "READY":
                out.append(t)
            elif t.state == "BLOCKED":
                try:
                    if t.pred():
                        out.append(t)
                except Exception:
                    out.append(t)
        return out

    def _choose(self, cands, cur):
        """policy: pick among runnable candidates (cur included if it can continue)"""
        if not cands:
            return None
        live = [t for t in cands if t.delay_left <= 0]
        if live and len(live) < len(cands):
            for t in cands:
                if t.delay_left > 0:
                    t.delay_left -= 1          # a delayed task sits out this decision
        if not live:
            live = cands
            for t in cands:
                t.delay_left = 0
        if self.policy == "random":
            if cur is not None and cur in live and self.rng.random() >= self.p_switch:
                return cur
            return self.rng.choice(live)
        if self.policy == "pct":
            if self.pct_changes and self.steps >= self.pct_changes[0]:
                self.pct_changes.pop(0)
                if cur is not None:
                    cur.priority = -self.rng.random()
            return max(live, key=lambda t: t.priority)
        # scripted / fifo: keep running the current task; otherwise lowest index
        if cur is not None and cur in live:
            return cur
        return min(live, key=lambda t: t.index)

    def _pick(self, cur, cur_can_run=False):
        """-> next task to run (may be cur), advancing virtual time if nobody can run; None on deadlock"""
        while True:
            cands = self._runnable(exclude=cur if cur_can_run else None)
            if cur_can_run and cur is not None:
                cands = cands + [cur]
            if cands:
                return self._choose(cands, cur if cur_can_run else None)
            timed = [t for t in self.tasks if t.state == "BLOCKED" and t.deadline is not None]
            if cur is not None and cur.state == "BLOCKED" and cur.deadline is not None and cur not in timed:
                timed.append(cur)
            if not timed:
                self.deadlock = [(t.name, t.state, t.tag) for t in self.tasks if t.state != "DONE"]
                self.abort("deadlock")
                return None
            t = min(timed, key=lambda x: (x.deadline, x.index))
            if self.on_clock_jump is not None:
                self.on_clock_jump(self, t)
            self.clock_jumps.append((self.now, t.deadline, t.name, t.tag))
            self.now = max(self.now, t.deadline)
            t.woke_by_pred = False
            t.pred = lambda: True
            t.deadline = None
            # loop: t is now runnable

    def _resume(self, t):
        self.ring.append((threading.current_thread().name, "resume", t.name, t.state, self.steps))
        if t.state == "DONE":
            sys.stderr.write("rv.vsched BUG: resuming a DONE task %s\n%s\n" % (t.name, "\n".join(map(repr, self.ring))))
        t.dbg = ("resumed-by", threading.current_thread().name, self.steps)
        self.current = t
        if t.state == "BLOCKED":
            pass
        t.state = "RUNNING"
        t.sem.release()

    def _switch(self, cur, nxt, tag):
        """cur gives the baton to nxt and parks"""
        self.switches += 1
        if len(self.trace) < 4000:
            self.trace.append((nxt.index, tag if isinstance(tag, str) else tag[0] if tag else None))
        self._resume(nxt)
        self.ring.append((threading.current_thread().name, "park", cur.name, cur.state, self.steps))
        cur.sem.acquire()
        self.ring.append((threading.current_thread().name, "woke", cur.name, cur.state, self.steps))
        if self.aborting:
            raise SchedAbort()

    def _account(self, cur, tag):
        self.steps += 1
        cur.yields += 1
        if self.on_yield is not None:
            self.on_yield(self, cur, tag)
        if self.record_census:
            self.census.append((cur.name, cur.yields, tag))
        d = self.script.get((cur.name, cur.yields))
        if d:
            cur.delay_left = d
        if self.steps > self.max_steps:
            self.abort("step budget exceeded (%d yield points): livelock or spin" % self.max_steps)
            raise SchedAbort()

    def yield_point(self, tag=None):
        cur = self.cur()
        if cur is None:
            return
        if self.aborting:
            raise SchedAbort()
        if cur is not self.current or cur.in_sched:
            return          # (in_sched: re-entered from a finalizer that the collector ran inside the scheduler itself)
        cur.in_sched = True
        try:
            self._account(cur, tag)
            cur.state = "READY"
            nxt = self._pick(cur, cur_can_run=True)
            if nxt is None:
                raise SchedAbort()
            if nxt is cur:
                cur.state = "RUNNING"
                return
            self.preemptions += 1
            self._switch(cur, nxt, tag)
        finally:
            cur.in_sched = False

    def block(self, pred, timeout=None, tag=None):
        """park the current task until pred() holds or `timeout` virtual seconds passed; returns pred-driven wake?"""
        cur = self.cur()
        if cur is None:
            raise RuntimeError("Sched.block() called outside a scheduled task (%r)" % (tag,))
        if self.aborting:
            raise SchedAbort()
        if cur.in_sched or cur is not self.current:
            # a blocking operation started by a finalizer inside the scheduler cannot be served: treat as not satisfied
            return bool(pred())
        cur.in_sched = True
        try:
            self._account(cur, tag)
            cur.state = "BLOCKED"
            cur.pred = pred
            cur.tag = tag
            cur.woke_by_pred = True
            cur.deadline = None if timeout is None else self.now + max(0.0, timeout)
            nxt = self._pick(cur, cur_can_run=False)
            if nxt is None:
                raise SchedAbort()
            if nxt is cur:
                cur.state = "RUNNING"
                cur.pred = None
                return cur.woke_by_pred
            self._switch(cur, nxt, tag)
            cur.pred = None
            return cur.woke_by_pred
        finally:
            cur.in_sched = False

    # ------------------------------------------------------------------ helpers for checks
    def trace_hash(self):
        from rv.verdict import h
        return h(tuple(self.trace))

    def instrument(self, codes, instruction_codes=()):
        """pre-emption at every source line (or instruction) of the given code objects"""
        global _TOOL
        mon = sys.monitoring
        if _TOOL is None:
            for tid in (3, 4, 5, 2, 1):
                try:
                    mon.use_tool_id(tid, "rv-vsched")
                    _TOOL = tid
                    break
                except ValueError:
                    continue
            mon.register_callback(_TOOL, mon.events.LINE, _on_line)
            mon.register_callback(_TOOL, mon.events.INSTRUCTION, _on_instruction)
        for c in codes:
            mon.set_local_events(_TOOL, c, mon.events.LINE)
        for c in instruction_codes:
            mon.set_local_events(_TOOL, c, mon.events.LINE | mon.events.INSTRUCTION)
        return list(codes) + list(instruction_codes)

    @staticmethod
    def uninstrument(codes):
        if _TOOL is not None:
            for c in codes:
                sys.monitoring.set_local_events(_TOOL, c, 0)


def _on_line(code, line):
    s = _ACTIVE
    if s is not None and not s.aborting:
        t = _thread_task.get(threading.get_ident())
        if t is not None and t is s.current:
            s.yield_point(("L", code.co_name, line - code.co_firstlineno))


def _on_instruction(code, offset):
    s = _ACTIVE
    if s is not None and not s.aborting:
        t = _thread_task.get(threading.get_ident())
        if t is not None and t is s.current:
            s.yield_point(("I", code.co_name, offset))


class SimClock(object):
    """stands in for the `time` module inside rpyc.lib / rpyc.utils.helpers"""

    def __init__(self, sched):
        self.sched = sched

    def time(self):
        return self.sched.now

    def sleep(self, dt):
        if self.sched.cur() is None:
            return
        self.sched.block(lambda: False, max(0.0, dt), ("sleep",))

    def monotonic(self):
        return self.sched.now


class SimLock(object):
    def __init__(self, sched, name="lock"):
        self.sched = sched
        self.name = name
        self._locked = False
        self.owner = None
        self.acquisitions = 0

    def acquire(self, blocking=True, timeout=-1):
        s = self.sched
        s.yield_point(("acq", self.name))
        if not self._locked:
            self._locked, self.owner = True, s.cur()
            self.acquisitions += 1
            return True
        if not blocking:
            if s.spin_cost:
                s.now += s.spin_cost
            return False
        ok = s.block(lambda: not self._locked, None if timeout is None or timeout < 0 else timeout, ("lock", self.name))
        if ok and not self._locked:
            self._locked, self.owner = True, s.cur()
            self.acquisitions += 1
            return True
        return False

    def release(self):
        if not self._locked:
            if self.sched.aborting:
                raise SchedAbort()      # unwinding a `with` whose acquire was cut short by the abort
            raise RuntimeError("release unlocked lock")
        self._locked, self.owner = False, None
        self.sched.yield_point(("rel", self.name))

    def locked(self):
        return self._locked

    def __enter__(self):
        self.acquire()
        return self

    def __exit__(self, *exc):
        self.release()


class SimRLock(SimLock):
    """stands in for threading.RLock: the owner may acquire again"""

    def __init__(self, sched, name="rlock"):
        SimLock.__init__(self, sched, name)
        self.depth = 0

    def acquire(self, blocking=True, timeout=-1):
        s = self.sched
        if self._locked and self.owner is s.cur() and s.cur() is not None:
            s.yield_point(("acq", self.name))
            self.depth += 1
            return True
        ok = SimLock.acquire(self, blocking, timeout)
        if ok:
            self.depth = 1
        return ok

    def release(self):
        if self.depth > 1:
            self.depth -= 1
            self.sched.yield_point(("rel", self.name))
            return
        self.depth = 0
        SimLock.release(self)


class _Ticket(object):
    __slots__ = ("notified",)

    def __init__(self):
        self.notified = False


class SimCondition(object):
    """threading.Condition look-alike (own lock, wait/notify/notify_all)"""

    def __init__(self, sched, name="cond"):
        self.sched = sched
        self.name = name
        self.lock = SimLock(sched, name + ".lock")
        self.waiters = []
        self.notifications = 0

    def acquire(self, *a, **k):
        return self.lock.acquire(*a, **k)

    def release(self):
        self.lock.release()

    def __enter__(self):
        self.lock.acquire()
        return self

    def __exit__(self, *exc):
        self.lock.release()

    def wait(self, timeout=None):
        ticket = _Ticket()
        self.waiters.append(ticket)
        self.lock.release()
        try:
            self.sched.block(lambda: ticket.notified, timeout, ("cond-wait", self.name))
        finally:
            self.waiters = [t for t in self.waiters if t is not ticket]      # by identity
            self.lock.acquire()
        return ticket.notified

    def wait_for(self, predicate, timeout=None):
        end = None if timeout is None else self.sched.now + timeout
        r = predicate()
        while not r:
            left = None if end is None else end - self.sched.now
            if left is not None and left <= 0:
                break
            self.wait(left)
            r = predicate()
        return r

    def notify(self, n=1):
        for t in [t for t in self.waiters if not t.notified][:n]:
            t.notified = True
        self.notifications += 1

    def notify_all(self):
        for t in self.waiters:
            t.notified = True
        self.notifications += 1


class SchedWaiter(object):
    """blocking strategy of the in-memory link under the scheduler"""

    def __init__(self, sched):
        self.sched = sched

    def wait(self, pred, timeout, what=None):
        if pred():
            self.sched.yield_point(what)
            return True
        self.sched.block(pred, timeout, what)
        return pred()

    def notify(self):
        pass

    def yield_point(self, what=None):
        self.sched.yield_point(what)


def simulate_connection(conn, sched, name, tables=False):
    """replace the connection's three lock objects by scheduler-aware ones with the semantics of the originals
    (a re-entrant original gets a re-entrant stand-in, so changing the KIND of a lock is not masked by the simulation);
    tables=True: the lock of the table of lent objects as well (needed when code under that lock is pre-empted)"""
    import threading
    rlock_type = type(threading.RLock())

    def like(orig, nm):
        return SimRLock(sched, nm) if isinstance(orig, rlock_type) else SimLock(sched, nm)
    conn._recvlock = like(conn._recvlock, name + ".recvlock")
    conn._sendlock = like(conn._sendlock, name + ".sendlock")
    conn._recv_event = SimCondition(sched, name + ".recv_event")
    if tables:
        conn._local_objects._lock = like(conn._local_objects._lock, name + ".local_objects.lock")
    return conn


class patched_time(object):
    """rebind the `time` globals rpyc reads (and `spawn` in helpers) to the simulation for the duration of a run"""

    def __init__(self, sched, spawn=True):
        self.sched = sched
        self.spawn = spawn
        self.saved = []

    def __enter__(self):
        import rpyc.lib
        import rpyc.utils.helpers as helpers
        import rpyc.core.async_ as async_
        import rpyc.core.protocol as protocol
        for mod in (rpyc.lib, helpers, async_, protocol):
            if hasattr(mod, "time"):
                self.saved.append((mod, "time", mod.time))
                mod.time = self.sched.time
        if self.spawn:
            sched = self.sched

            def sim_spawn(*args, **kwargs):
                func, args = args[0], args[1:]
                t = sched.spawn(func, *args, name="spawned%d" % len(sched.tasks), **kwargs)
                return SimThreadHandle(sched, t)
            for mod in (helpers, protocol):
                self.saved.append((mod, "spawn", mod.spawn))
                mod.spawn = sim_spawn
        return self

    def __exit__(self, *exc):
        for mod, name, val in reversed(self.saved):
            setattr(mod, name, val)


class SimThreadHandle(object):
    def __init__(self, sched, task):
        self.sched, self.task = sched, task
        self.daemon = True

    def join(self, timeout=None):
        if self.sched.cur() is None:
            return
        self.sched.block(lambda: self.task.state == "DONE", timeout, ("join", self.task.name))

    def is_alive(self):
        return self.task.state != "DONE"

    def setName(self, n):
        pass

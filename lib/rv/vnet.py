"""E1 - in-memory transport between two real rpyc Connections: ledger, held delivery, fault plans.

MemStream subclasses rpyc's abstract Stream, so the real Channel / Connection run on top of it.
Blocking is delegated to a *waiter* (real threads: a Condition; controlled scheduler: vsched).
"""
import threading

from rpyc.core.stream import Stream
from rpyc.lib import Timeout

from rv import refcodec


class Stalled(BaseException):
    """an unbounded wait did not end within the wall-clock watchdog (a hang, judged by the check)"""


class ThreadWaiter(object):
    """blocking strategy for free-running real threads"""

    def __init__(self, hard_limit=20.0):
        self.cond = threading.Condition()
        self.hard_limit = hard_limit
        self.stalls = []

    def wait(self, pred, timeout, what=None):
        """block until pred() or timeout (seconds or None); returns pred()"""
        with self.cond:
            if timeout is not None:
                return self.cond.wait_for(pred, timeout)
            if what and what[0] == "poll" and threading.current_thread().name.startswith("rv-server"):
                # a serving loop that is idle between requests legitimately waits for as long as the session lasts
                return self.cond.wait_for(pred, None)
            if self.cond.wait_for(pred, self.hard_limit):
                return True
        self.stalls.append(what)
        raise Stalled("no progress for %ss in %r" % (self.hard_limit, what))

    def notify(self):
        with self.cond:
            self.cond.notify_all()

    def yield_point(self, what=None):
        pass


class NoWaiter(object):
    """held / single-driver mode: nothing may block. A zero-timeout wait that is not satisfied is a timeout; any
    other unsatisfied wait would block the only thread forever and is reported as Stalled."""

    def wait(self, pred, timeout, what=None):
        if pred():
            return True
        if timeout is not None and timeout <= 0:
            return False
        raise Stalled("blocking wait (%r, timeout=%r) in single-driver mode: nobody could ever satisfy it" % (what, timeout))

    def notify(self):
        pass

    def yield_point(self, what=None):
        pass


class Pipe(object):
    """one direction of the duplex link"""

    def __init__(self, name, held):
        self.name = name
        self.held = held
        self.inflight = bytearray()     # written, not yet delivered
        self.buf = bytearray()          # delivered, not yet read
        self.eof_inflight = False       # writer closed; EOF travels behind the in-flight bytes
        self.eof = False                # EOF delivered
        self.reader_closed = False
        self.writes = []                # every write call's bytes, in order
        self.cut_at = None              # byte offset at which the stream is cut (fault plan)
        self.written = 0

    def deliverable(self):
        return len(self.inflight) > 0 or (self.eof_inflight and not self.eof)


class FaultPlan(object):
    """fail the k-th transport call of a side; decided by (side, op, per-side call index)"""

    def __init__(self, side=None, index=None, kind="eof"):
        self.side, self.index, self.kind = side, index, kind
        self.calls = {"A": 0, "B": 0}
        self.trace = []            # census: (side, op)
        self.fired = None
        self.enabled = True

    def on_call(self, side, op):
        i = self.calls[side]
        self.calls[side] = i + 1
        self.trace.append((side, op))
        if self.enabled and self.fired is None and side == self.side and i == self.index:
            self.fired = (side, op, i)
            return self.kind
        return None


class Net(object):
    """the link: two pipes, ledger, delivery control"""

    def __init__(self, waiter=None, held=False, fault=None, epipe=False):
        self.epipe = epipe          # True: writing to a closed reader fails (EPIPE); False: bytes vanish (TCP before RST)
        self.waiter = waiter or (NoWaiter() if held else ThreadWaiter())
        self.held = held
        self.fault = fault
        self.ab = Pipe("A->B", held)
        self.ba = Pipe("B->A", held)
        self.a = MemStream(self, "A", rx=self.ba, tx=self.ab)
        self.b = MemStream(self, "B", rx=self.ab, tx=self.ba)
        self.in_send = {"A": 0, "B": 0}
        self.max_in_send = 0
        self.on_write = None        # optional callback(side, data) called inside write (re-entrancy injection)
        self.hold_eof = False       # held mode: EOF is delivered only by deliver_eof()
        self.nwrites = 0
        self.max_writes = None      # logical step bound per case: exceeding it ends the link and sets runaway
        self.runaway = False

    def new_case(self, max_writes=4000):
        self.nwrites = 0
        self.max_writes = max_writes

    # ---- held delivery ----
    def pipe(self, direction):
        return self.ab if direction in ("A->B", "ab") else self.ba

    def deliver(self, direction, nbytes=None):
        """move nbytes (default: everything in flight) to the reader's buffer"""
        p = self.pipe(direction)
        if nbytes is None:
            nbytes = len(p.inflight)
        chunk = p.inflight[:nbytes]
        del p.inflight[:nbytes]
        p.buf += chunk
        if p.eof_inflight and not p.inflight and not self.hold_eof:
            p.eof = True
        self.waiter.notify()
        return len(chunk)

    def deliver_eof(self, direction):
        p = self.pipe(direction)
        if p.eof_inflight and not p.inflight:
            p.eof = True
            self.waiter.notify()
            return True
        return False

    def deliver_frame(self, direction):
        """deliver exactly one whole frame if one is in flight; returns True if delivered"""
        p = self.pipe(direction)
        if len(p.inflight) >= 5:
            import struct
            n, _ = struct.unpack(">IB", p.inflight[:5])
            if len(p.inflight) >= 5 + n + 1:
                self.deliver(direction, 5 + n + 1)
                return True
        if p.eof_inflight and not p.inflight and not p.eof and not self.hold_eof:
            p.eof = True
            self.waiter.notify()
        return False

    def frames_in_flight(self, direction):
        import struct
        p = self.pipe(direction)
        i, k = 0, 0
        while len(p.inflight) - i >= 5:
            n, _ = struct.unpack(">IB", p.inflight[i:i + 5])
            if len(p.inflight) - i < 5 + n + 1:
                break
            i += 5 + n + 1
            k += 1
        return k

    # ---- ledger ----
    def frames(self, direction):
        """parse everything ever written in this direction with the independent codec"""
        fp = refcodec.FrameParser()
        p = self.pipe(direction)
        fp.feed(b"".join(p.writes))
        out = []
        for body, flag, n in fp.frames:
            try:
                m = refcodec.parse_message(body)
                m["raw"] = body
            except Exception as e:        # undecodable frame: keep it visible
                m = dict(kind=None, seq=None, args=None, handler=None, error=repr(e), raw=body)
            out.append(m)
        return out, fp

    def raw(self, direction):
        return b"".join(self.pipe(direction).writes)


def idle_in_poll(thread, stream):
    """state, not time: `thread` is parked in stream.poll() and the stream's receive buffer is empty - everything that was
    sent to it has been consumed and it is waiting for more input"""
    import sys
    fr = sys._current_frames().get(thread.ident)
    while fr is not None:
        if fr.f_code is MemStream.poll.__code__ and fr.f_locals.get("self") is stream:
            return len(stream.rx.buf) == 0
        fr = fr.f_back
    return False


class MemStream(Stream):
    __slots__ = ("net", "side", "rx", "tx", "_closed", "ncalls")
    MAX_IO_CHUNK = 64000

    def __init__(self, net, side, rx, tx):
        self.net = net
        self.side = side
        self.rx = rx
        self.tx = tx
        self._closed = False
        self.ncalls = 0

    # -- fault plumbing
    def _fault(self, op):
        self.ncalls += 1
        plan = self.net.fault
        if plan is not None:
            act = plan.on_call(self.side, op)
            if act == "eof":          # transport ended / failed at this call
                self._break()
                raise EOFError("injected failure at %s.%s" % (self.side, op))
            if act == "peer_closed":  # the peer vanished just before this call
                self._peer_vanishes()
        return None

    def _break(self):
        """the transport under this side fails: both directions die, peer sees EOF"""
        self.close()

    def _peer_vanishes(self):
        peer = self.net.b if self.side == "A" else self.net.a
        peer._silent_close()

    def _silent_close(self):
        if not self._closed:
            self._closed = True
            self.tx.eof_inflight = True
            if (not self.tx.held or not self.tx.inflight) and not self.net.hold_eof:
                self.tx.eof = True
            self.rx.reader_closed = True
            self.net.waiter.notify()

    @property
    def closed(self):
        return self._closed

    def close(self):
        self._silent_close()

    def fileno(self):
        if self._closed:
            raise EOFError("stream has been closed")
        return -1

    def poll(self, timeout):
        if self._closed:
            raise EOFError("stream has been closed")
        self._fault("poll")
        t = Timeout(timeout)
        rx = self.rx
        self.net.waiter.wait(lambda: bool(rx.buf) or rx.eof or self._closed, t.timeleft(), ("poll", self.side))
        if self._closed:
            raise EOFError("stream has been closed")
        return bool(rx.buf) or rx.eof

    def read(self, count):
        if self._closed:
            raise EOFError("stream has been closed")
        self._fault("read")
        rx = self.rx
        if rx.cut_at is not None:
            pass
        self.net.waiter.wait(lambda: len(rx.buf) >= count or rx.eof or self._closed, None, ("read", self.side))
        if self._closed:
            raise EOFError("stream has been closed")
        if len(rx.buf) < count:
            self.close()
            raise EOFError("connection closed by peer")
        data = bytes(rx.buf[:count])
        del rx.buf[:count]
        return data

    def write(self, data):
        if self._closed:
            raise EOFError("stream has been closed")
        self._fault("write")
        tx = self.tx
        net = self.net
        net.nwrites += 1
        if net.max_writes is not None and net.nwrites > net.max_writes:
            net.runaway = True
            self.close()
            raise EOFError("runaway exchange: more than %d writes in one case" % net.max_writes)
        if tx.reader_closed:
            if self.net.epipe:
                self.close()
                raise EOFError("broken pipe")
            tx.writes.append(bytes(data))
            tx.written += len(data)
            return
        net = self.net
        net.in_send[self.side] += 1
        net.max_in_send = max(net.max_in_send, net.in_send[self.side])
        try:
            data = bytes(data)
            if tx.cut_at is not None and tx.written + len(data) > tx.cut_at:
                keep = max(0, tx.cut_at - tx.written)
                part = data[:keep]
                tx.writes.append(part)
                tx.written += len(part)
                (tx.inflight if tx.held else tx.buf).extend(part)
                self.close()
                raise EOFError("injected cut at byte %d" % tx.cut_at)
            tx.writes.append(data)
            tx.written += len(data)
            if net.on_write is not None:
                net.on_write(self.side, data)
            net.waiter.yield_point(("write", self.side))
            if tx.held:
                tx.inflight += data
            else:
                tx.buf += data
            net.waiter.notify()
        finally:
            net.in_send[self.side] -= 1


# ---------------------------------------------------------------- connection pairs
def make_pair(svc_a, svc_b, cfg_a=None, cfg_b=None, held=False, waiter=None, fault=None, compress=True, epipe=False):
    """two real Connections joined by a Net. Nothing is served yet (services must not talk in on_connect)."""
    from rpyc.core.channel import Channel
    net = Net(waiter=waiter, held=held, fault=fault, epipe=epipe)
    cb = svc_b._connect(Channel(net.b, compress), dict(cfg_b or {}))
    ca = svc_a._connect(Channel(net.a, compress), dict(cfg_a or {}))
    return net, ca, cb


class ServedPair(object):
    """A drives; B is served by a daemon thread running the real serve_all() (started before A connects,
    so A's service may talk to B from on_connect, as MasterService does)"""

    def __init__(self, svc_a, svc_b, cfg_a=None, cfg_b=None, fault=None, compress=True, epipe=False, hard_limit=20.0, cfg_b_as_is=False):
        from rpyc.core.channel import Channel
        self.net = Net(waiter=ThreadWaiter(hard_limit), fault=fault, epipe=epipe)
        # cfg_b_as_is: hand the caller's own dict object to the connection (applications reuse and edit one dict)
        self.b = svc_b._connect(Channel(self.net.b, compress), cfg_b if cfg_b_as_is else dict(cfg_b or {}))
        self.server_exc = None
        self.thread = threading.Thread(target=self._serve, daemon=True, name="rv-server-B")
        self.thread.start()
        self.a = svc_a._connect(Channel(self.net.a, compress), dict(cfg_a or {}))

    def _serve(self):
        try:
            self.b.serve_all()
        except BaseException as e:       # recorded, judged by the check
            self.server_exc = e

    def close(self, join=5.0):
        try:
            self.a.close()
        except Exception:
            pass
        self.thread.join(join)
        alive = self.thread.is_alive()
        if alive:
            try:
                self.b.close()
            except Exception:
                pass
            self.net.a.close()
            self.net.b.close()
            self.thread.join(join)
        return not alive

    def __enter__(self):
        return self

    def __exit__(self, *exc):
        self.close()

"""E6 - seeded generators of values (plain immutable, non-plain zoo, hostile byte strings)."""
import collections
import enum
import struct
import sys

LEN_CLASSES = [0, 1, 2, 3, 4, 5, 6, 17, 254, 255, 256, 257, 300]
BIG_LENS = [65535, 65536, 70000]

try:
    INT_TEXT_LIMIT = sys.get_int_max_str_digits() or 0
except AttributeError:
    INT_TEXT_LIMIT = 0


def _bits_float(b):
    return struct.unpack(">d", struct.pack(">Q", b))[0]


SPECIAL_FLOATS = [0.0, -0.0, 1.0, -1.5, float("inf"), float("-inf"), float("nan"),
                  _bits_float(0x7ff8000000000001), _bits_float(0xfff8000000000000),
                  _bits_float(0x7ff0000000000001), _bits_float(0x7ff4000000000abc),  # signalling NaNs
                  5e-324, 2.2250738585072014e-308, 1.7976931348623157e308, 18.2, 1e100]

TEXT_ATOMS = ["", "a", "\x00", "\n", "é", "ß", "€", "中", "￿", "\U00010000", "\U0010ffff", "𝄞", "​", "'\"\\"]
SURROGATES = ["\ud800", "\udfff", "a\udc80b", "\udc00\ud800"]   # lone / unpaired surrogates


def boundary_ints():
    out = [-49, -48, -47, -1, 0, 1, 158, 159, 160, 161, 255, 256, -256, 2 ** 31 - 1, 2 ** 31, 2 ** 32, 2 ** 63 - 1,
           2 ** 63, 2 ** 64 - 1, 2 ** 64, 2 ** 64 + 1, -2 ** 64 - 1, 10 ** 254, 10 ** 255 - 1, 10 ** 255,
           -(10 ** 253), -(10 ** 254), -(10 ** 254) - 1, 10 ** 256, 10 ** 1000]
    if INT_TEXT_LIMIT:
        out += [10 ** (INT_TEXT_LIMIT - 1) - 1, 10 ** (INT_TEXT_LIMIT - 1), 10 ** INT_TEXT_LIMIT - 1,
                -(10 ** INT_TEXT_LIMIT - 1)]
    return out


def boundary_values(surrogates=True):
    """deterministic list covering every wire-form length class"""
    vals = [None, True, False, NotImplemented, Ellipsis, (), b"", ""]
    vals += boundary_ints()
    vals += SPECIAL_FLOATS
    vals += [complex(a, b) for a in SPECIAL_FLOATS[:8] for b in (0.0, -0.0, float("nan"), 13.0)]
    for n in LEN_CLASSES + BIG_LENS:
        vals.append(bytes((i * 7 + 3) % 256 for i in range(n)))
        vals.append("x" * n)
        vals.append("é" * n)
        if n <= 300:
            vals.append(tuple(range(n)))
            vals.append(frozenset(range(n)))
    vals.append(tuple([0] * 65536))
    vals += TEXT_ATOMS
    if surrogates:
        vals += SURROGATES
    vals += [slice(None), slice(1, 2, 3), slice((1, 2), "a", None), slice(b"x", 1.5, (None,)),
             frozenset([(1, 2), (3, (4, 5))]), frozenset([frozenset([1]), frozenset()]),
             (1, (2, (3, (4, (5,))))), ((), ((),), (((),),)), (None, True, 1, 1.0, 1j, "1", b"1"),
             (float("nan"),), frozenset([float("nan")]), (0.0, -0.0), (True, 1, 1.0), (slice(0, 1), frozenset([slice(1, 2) and 3]))]
    d = ()
    for _ in range(150):
        d = (d,)
    vals.append(d)
    return vals


def gen_int(rng):
    c = rng.randrange(8)
    if c == 0:
        return rng.choice(boundary_ints())
    if c == 1:
        return rng.randrange(-60, 200)
    if c == 2:
        return rng.randrange(-2 ** 70, 2 ** 70)
    if c == 3:
        nd = rng.choice([253, 254, 255, 256, 257, 300, 1000])
        v = rng.randrange(10 ** (nd - 1), 10 ** nd)
        return -v if rng.random() < .5 else v
    return rng.randrange(-2 ** rng.randrange(1, 200), 2 ** rng.randrange(1, 200))


def gen_float(rng):
    c = rng.randrange(4)
    if c == 0:
        return rng.choice(SPECIAL_FLOATS)
    if c == 1:
        return _bits_float(rng.getrandbits(64))
    return rng.uniform(-1e6, 1e6)


def gen_text(rng, surrogates=True):
    c = rng.randrange(6)
    if c == 0:
        return rng.choice(TEXT_ATOMS)
    if c == 1 and surrogates:
        return rng.choice(SURROGATES)
    n = rng.choice(LEN_CLASSES[:9]) if rng.random() < .5 else rng.randrange(0, 12)
    alphabet = rng.choice(["abc", "aé中𝄞", "\x00\x7f\x80\xff", "ab \n"])
    s = "".join(rng.choice(alphabet) for _ in range(n))
    if surrogates and rng.random() < .03:
        s += rng.choice(SURROGATES)
    return s


def gen_bytes(rng):
    n = rng.choice(LEN_CLASSES) if rng.random() < .4 else rng.randrange(0, 10)
    return bytes(rng.getrandbits(8) for _ in range(n))


def gen_plain(rng, depth=0, surrogates=True, hashable=False):
    """a plain immutable value"""
    c = rng.randrange(14 if depth < 4 else 9)
    if c == 0:
        return rng.choice([None, True, False, NotImplemented, Ellipsis])
    if c in (1, 2):
        return gen_int(rng)
    if c == 3:
        return gen_float(rng)
    if c == 4:
        return complex(gen_float(rng), gen_float(rng))
    if c in (5, 6):
        return gen_text(rng, surrogates)
    if c in (7, 8):
        return gen_bytes(rng)
    if c in (9, 10):
        n = rng.choice([0, 1, 2, 3, 4, 5, 6]) if rng.random() < .9 else rng.choice([254, 255, 256, 257])
        if n > 6:
            return tuple(rng.randrange(-3, 3) for _ in range(n))
        return tuple(gen_plain(rng, depth + 1, surrogates, hashable) for _ in range(n))
    if c == 11:
        n = rng.randrange(0, 5)
        return frozenset(gen_plain(rng, depth + 1, surrogates, True) for _ in range(n))
    if c == 12 and not hashable:
        return slice(gen_plain(rng, depth + 2, surrogates), gen_plain(rng, depth + 2, surrogates),
                     gen_plain(rng, depth + 2, surrogates))
    return gen_int(rng)


# ------------------------------------------------------------------ non-plain zoo
class IntSub(int):
    pass


class StrSub(str):
    pass


class BytesSub(bytes):
    pass


class TupleSub(tuple):
    pass


class FrozenSub(frozenset):
    pass


class FloatSub(float):
    pass


class ComplexSub(complex):
    pass


class Color(enum.IntEnum):
    RED = 1
    BLUE = 2


class Perm(enum.IntFlag):
    R = 4
    W = 2


class PlainEnum(enum.Enum):
    A = 1


Point = collections.namedtuple("Point", "x y")


class Obj(object):
    def __init__(self, tag=0):
        self.tag = tag

    def __eq__(self, other):
        return type(other) is Obj and other.tag == self.tag

    def __hash__(self):
        return hash(("Obj", self.tag))


def _fn(x=1):
    return x


def nonplain_atoms():
    return [[1], [], {}, {"a": 1}, set(), {1}, bytearray(b"ab"), IntSub(5), StrSub("s"), BytesSub(b"b"),
            TupleSub((1, 2)), FrozenSub([1]), FloatSub(1.5), ComplexSub(1j), Color.RED, Perm.R, Perm.R | Perm.W,
            PlainEnum.A, Point(1, 2), Obj(1), _fn, Obj, len, sys, range(3), memoryview(b"abc"), iter([1]),
            (x for x in [1]), collections.deque([1]), Exception("x"), type, object(), lambda: 0, int, 1 .__add__]


def gen_nonplain(rng, depth=0):
    """a value that is NOT plain immutable: an atom, or a plain container holding one somewhere"""
    atoms = nonplain_atoms()
    c = rng.randrange(6 if depth < 3 else 1)
    if c in (0, 1):
        return rng.choice(atoms)
    inner = gen_nonplain(rng, depth + 1)
    if c in (2, 3):
        items = [gen_plain(rng, 3) for _ in range(rng.randrange(0, 4))]
        items.insert(rng.randrange(len(items) + 1), inner)
        return tuple(items)
    if c == 4:
        try:
            return frozenset([inner, 1, "a"])
        except TypeError:
            return (inner,)
    parts = [gen_plain(rng, 3), gen_plain(rng, 3), inner]
    rng.shuffle(parts)
    return slice(*parts)


# ------------------------------------------------------------------ hostile bytes for decoders
def gen_hostile_bytes(rng, valid_pool):
    """random bytes / mutated valid encodings / adversarial grammar"""
    c = rng.randrange(10)
    if c == 0:
        return bytes(rng.getrandbits(8) for _ in range(rng.randrange(0, 40)))
    if c in (1, 2, 3):
        b = bytearray(rng.choice(valid_pool))
        if not b:
            return bytes(b)
        for _ in range(rng.randrange(1, 4)):
            m = rng.randrange(4)
            i = rng.randrange(len(b))
            if m == 0:
                b[i] ^= 1 << rng.randrange(8)
            elif m == 1:
                del b[i:]
            elif m == 2:
                b[i:i] = bytes(rng.getrandbits(8) for _ in range(rng.randrange(1, 5)))
            else:
                b[i] = rng.choice([0x08, 0x0f, 0x15, 0x17, 0x19, 0x1a, 0x14, 0x07, 0x09, 0x1c, 0xf0, 0xff])
            if not b:
                break
        return bytes(b)
    if c == 4:   # absurd lengths
        tag = rng.choice([0x0f, 0x15, 0x17])
        return bytes([tag]) + struct.pack(">I", rng.choice([0xffffffff, 0x7fffffff, 2 ** 24, 70000])) + b"123"
    if c == 5:   # depth bomb
        tag = rng.choice([0x10, 0x19, 0x1a, 0x08, 0x14])
        n = rng.choice([10, 100, 900, 1100, 5000])
        body = bytes([tag]) * n if tag != 0x14 else bytes([0x14, 1]) * n
        return body + rng.choice([b"", b"\x00", b"\x02"])
    if c == 6:   # type confusion inside containers
        inner = rng.choice([b"\x50", b"\x00", b"\x18" + b"\x7f" * 8, b"\x10\x02", b"\x0a\xff", b"\x08\x0a\xff",
                            b"\x08\x50", b"\x08\x00", b"\x16\x03abc", b"\x16\x00", b"\x16\x02-0", b"\x16\x051_000",
                            b"\x16\x03 12", b"\x16\x040x10", b"\x19\x50", b"\x19\x11\x50\x50", b"\x1a\x50", b"\x1a\x00",
                            b"\x1a\x10\x10\x02", b"\x1a\x10\x19\x12\x00\x00\x00"])
        outer = rng.choice([b"", b"\x10", b"\x11\x50", b"\x1a\x10", b"\x19\x12\x00\x00", b"\x08"])
        return outer + inner
    if c == 7:   # unknown tags
        return bytes([rng.choice([0x07, 0x09, 0x1c, 0x1d, 0x1e, 0x1f, 0xf0, 0xf5, 0xff])]) + bytes(
            rng.getrandbits(8) for _ in range(rng.randrange(0, 6)))
    if c == 8:   # splice two valid encodings
        a, b = rng.choice(valid_pool), rng.choice(valid_pool)
        return a[:rng.randrange(len(a) + 1)] + b[rng.randrange(len(b) + 1):]
    return rng.choice(valid_pool) + bytes(rng.getrandbits(8) for _ in range(rng.randrange(0, 4)))


# ------------------------------------------------------------------ hostile exception records (C07 / C09)
def gen_exc_payload(rng, vocab):
    """something a hostile peer may send as the args of MSG_EXCEPTION. vocab: canary_module, ctor_class=(mod, cls)"""
    mods = [vocab["canary_module"], "rv_evil_%d" % rng.randrange(5), "builtins", "builtins", "builtins", "builtins", "os", "subprocess", "pickle", "sys",
            vocab["ctor_class"][0], "rpyc.core.vinegar", "", "builtins.os", b"builtins", 7, None, ("builtins",), "a" * 300]
    clss = ["Evil", "eval", "exec", "open", "system", "Popen", "SystemExit", "KeyboardInterrupt", "ValueError", "type", "object",
            "BaseException", "Exception", vocab["ctor_class"][1], "GenericException", "_get_exception_class", "__import__",
            "ExceptionGroup", "UnicodeDecodeError", "OSError", "", b"ValueError", 3, None, "__class__", "a.b",
            "dict", "list", "int", "str", "bytearray", "memoryview", "property", "staticmethod", "super", "map", "range", "slice",
            "frozenset", "classmethod", "bool", "NoneType", "function", "module", "Warning", "BaseExceptionGroup", "GeneratorExit"]
    attr_names = ["__class__", "__dict__", "args", "__init__", "__new__", "_remote_tb", "_remote_version", "__cause__",
                  "__context__", "__traceback__", "__suppress_context__", "with_traceback", "errno", "x", "", 5, None,
                  "__setattr__", "__reduce__", "__str__", "__module__", "__doc__", "__slots__", "__weakref__", "add_note"]
    c = rng.randrange(12)
    if c == 0:
        return gen_plain(rng, 2, surrogates=False)
    name = (rng.choice(mods), rng.choice(clss))
    args = tuple(gen_plain(rng, 3, surrogates=False) for _ in range(rng.randrange(0, 3)))
    attrs = tuple((rng.choice(attr_names), gen_plain(rng, 3, surrogates=False)) for _ in range(rng.randrange(0, 4)))
    tb = rng.choice(["tb", "", "\n\n========= Remote Traceback (1) =========\n", "x" * 5000])
    if c == 1:
        return (name, args, attrs)                      # wrong arity
    if c == 2:
        return (name, args, attrs, tb, "extra")
    if c == 3:
        return (rng.choice(mods), args, attrs, tb)      # name not a pair
    if c == 4:
        return (name, rng.choice([None, 5, "str", b"b"]), attrs, tb)
    if c == 5:
        return (name, args, rng.choice([None, 5, "ab", (1, 2), ((1,),), (("a", 1, 2),)]), tb)
    if c == 6:
        return (name, args, attrs, rng.choice([None, 5, b"bytes", ("t",)]))
    if c == 7:
        return (name, args, attrs + (("_remote_version", rng.choice([5, None, b"9.9", "9.9.9", ("a",), ""])),), tb)
    if c == 8:
        return rng.choice([1, 0, 2, "string exception", b"bytes", (), None, True, 1.0])
    return (name, args, attrs, tb)


# ---- families of EQUAL values of DIFFERENT types (1 == 1.0 == True == (1+0j)): anything keyed by equality inside the library
# (a cache of encodings, a memo of boxed values) confuses them, and only a SEQUENCE in one process shows it
_TWIN_LEAVES = {0: [0, 0.0, False, 0j, -0.0], 1: [1, 1.0, True, (1 + 0j)], 2: [2, 2.0, (2 + 0j)], -1: [-1, -1.0, (-1 + 0j)],
                255: [255, 255.0], 2 ** 31: [2 ** 31, float(2 ** 31)]}


class TwinInt(int):
    """equal to (and hashing like) the plain integer, but not a plain integer: must not be encoded as one"""


class TwinStr(str):
    pass


class TwinFloat(float):
    pass


import enum as _enum


class TwinEnum(_enum.IntEnum):
    ZERO = 0
    ONE = 1
    TWO = 2
    MINUS = -1
    BYTE = 255


def _retype(v, rng, subclasses=False):
    if type(v) is tuple:
        return tuple(_retype(x, rng, subclasses) for x in v)
    if type(v) is frozenset:
        return frozenset(_retype(x, rng, subclasses) for x in v)
    if type(v) is int and v in _TWIN_LEAVES:
        if subclasses and rng.random() < .5:
            r = rng.randrange(3)
            if r == 0:
                return TwinInt(v)
            if r == 1:
                return TwinFloat(v)
            try:
                return TwinEnum(v)
            except ValueError:
                return TwinInt(v)
        return rng.choice(_TWIN_LEAVES[v])
    if type(v) is str and subclasses and rng.random() < .5:
        return TwinStr(v)
    return v


def gen_twin_family(rng):
    """-> a list of 3-5 plain immutable values that compare (mostly) equal to one another but differ in the exact types of their
    numeric members, in random order with repeats: tuples of every small length, text-first (the shape of an id pack) or not,
    flat or nested, and bare numbers"""
    keys = list(_TWIN_LEAVES)

    def base(depth):
        c = rng.randrange(8)
        if c == 0 and depth:
            return rng.choice(keys)
        n = rng.choice([1, 2, 3, 3, 3, 4, 5])
        items = []
        for i in range(n):
            r = rng.random()
            if i == 0 and r < .6:
                items.append(rng.choice(["scale", "a", "builtins.int", ""]))
            elif r < .75 or depth >= 2:
                items.append(rng.choice(keys))
            elif r < .85:
                items.append(rng.choice(["x", b"x", None]))
            else:
                items.append(base(depth + 1))
        return tuple(items)
    r = rng.random()
    if r < .1:
        b = rng.choice(keys)
    elif r < .4:
        # frozensets (their own hash and equality make them the natural key of a memo), bare or inside a tuple
        b = frozenset(rng.sample(keys + ["x", "scale"], rng.randrange(1, 4)))
        if rng.random() < .4:
            b = ("k", b, 1)
    else:
        b = base(0)
    # plain twins first or subclass-typed twins first, in random order with the original: members that are instances of SUBCLASSES of
    # int / float / str (an IntEnum member, a str subclass) are equal and hash alike but are not plain values
    sub = rng.random() < .5
    fam = [_retype(b, rng, subclasses=sub and rng.random() < .7) for _ in range(rng.randrange(3, 6))]
    fam.append(b)
    rng.shuffle(fam)
    if sub and rng.random() < .6:
        fam.insert(0, b)        # the plain one is seen first, its subclass-typed twins afterwards
    return fam

"""Loaded by every interpreter started with this directory on PYTHONPATH: when RV_SUITEMON_DIR is set, the record-only
monitors of rv.suitemon are attached to the rpyc modules of that process (pytest itself and every server / client process
the repository's tests start). Nothing is attached otherwise."""
import os
import sys

if os.environ.get("RV_SUITEMON_DIR"):
    try:
        here = os.path.dirname(os.path.dirname(os.path.abspath(__file__)))
        if here not in sys.path:
            sys.path.insert(1, here)
        from rv import suitemon
        suitemon.install(os.environ["RV_SUITEMON_DIR"])
    except Exception as e:          # never disturb the process under observation
        try:
            with open(os.path.join(os.environ["RV_SUITEMON_DIR"], "install-error.%d.txt" % os.getpid()), "w") as f:
                f.write(repr(e))
        except Exception:
            pass

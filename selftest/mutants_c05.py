"""Hand-made breaks for C05 (framing over fragmenting / failing transports): each compiles and is silent under the
repository's own tests (which use default settings on healthy loopback transports).
edits = [(file, old, new)] with old occurring exactly once."""
CH = "rpyc/core/channel.py"
ST = "rpyc/core/stream.py"


def M(id, props, what, *edits):
    return dict(id=id, props=props.split(","), what=what, edits=list(edits))


MUTANTS = [
    M("c05-short-recv", "C05", "SocketStream.read returns after the first recv, however short",
      (ST, "\n            data.append(buf)\n            count -= len(buf)\n", "\n            data.append(buf)\n            break\n")),
    M("c05-flusher-kept", "C05", "Channel.recv no longer strips the trailing newline",
      (CH, "data = self.stream.read(length + len(self.FLUSHER))[:-len(self.FLUSHER)]", "data = self.stream.read(length + len(self.FLUSHER))")),
    M("c05-part1-off-by-one", "C05", "second write of a large frame starts one byte late",
      (CH, "            self.stream.write(data[part1:])", "            self.stream.write(data[part1 + 1:])")),
    M("c05-header-HB", "C05", "frame header !LB -> !HB on both ends",
      (CH, 'FRAME_HEADER = Struct("!LB")', 'FRAME_HEADER = Struct("!HB")')),
    M("c05-timeout-is-eof", "C05", "socket.timeout while reading no longer retried (closes, EOFError)",
      (ST, "            except socket.timeout:\n                continue\n", "")),
    M("c05-eagain-is-eof", "C05", "EAGAIN / EWOULDBLOCK while reading no longer retried",
      (ST, "retry_errnos = (errno.EAGAIN, errno.EWOULDBLOCK)", "retry_errnos = (errno.EINTR,)")),
    M("c05-timeout-restarts-read", "C05", "a timeout discards what the current read has collected",
      (ST, "            except socket.timeout:\n                continue\n", "            except socket.timeout:\n                del data[:]\n                continue\n")),
    M("c05-partial-send-ignored", "C05", "SocketStream.write ignores how many bytes send() accepted",
      (ST, "                count = self.sock.send(data[:self.MAX_IO_CHUNK])\n                data = data[count:]",
       "                count = self.sock.send(data[:self.MAX_IO_CHUNK])\n                data = data[self.MAX_IO_CHUNK:]")),
    M("c05-decompress-by-size", "C05", "receiver with compression on inflates any frame above the threshold, flag or not",
      (CH, "        if compressed:\n            data = zlib.decompress(data)",
       "        if compressed or (self.compress and length > self.COMPRESSION_THRESHOLD):\n            data = zlib.decompress(data)")),
    M("c05-pipe-short-read-is-eof", "C05", "PipeStream.read treats a short read as the end of the stream",
      (ST, "                buf = os.read(self.incoming.fileno(), min(self.MAX_IO_CHUNK, count))\n                if not buf:",
       "                buf = os.read(self.incoming.fileno(), min(self.MAX_IO_CHUNK, count))\n                if len(buf) < min(self.MAX_IO_CHUNK, count):")),
    M("c05-eof-not-closed", "C05", "SocketStream.read raises EOFError at end of stream without closing",
      (ST, "            if not buf:\n                self.close()\n                raise EOFError(\"connection closed by peer\")",
       "            if not buf:\n                raise EOFError(\"connection closed by peer\")")),
    M("c05-eof-returns-partial", "C05", "end of stream in the middle of a read returns what was collected",
      (ST, "            if not buf:\n                self.close()\n                raise EOFError(\"connection closed by peer\")",
       "            if not buf:\n                self.close()\n                if data:\n                    break\n                raise EOFError(\"connection closed by peer\")")),
    M("c05-write-error-not-closed", "C05", "SocketStream.write raises EOFError on a failed send without closing",
      (ST, "            ex = sys.exc_info()[1]\n            self.close()\n            raise EOFError(ex)\n\n\nclass TunneledSocketStream",
       "            ex = sys.exc_info()[1]\n            raise EOFError(ex)\n\n\nclass TunneledSocketStream")),
    M("c05-write-error-leaks-oserror", "C05", "SocketStream.write lets the socket error escape instead of EOFError",
      (ST, "            ex = sys.exc_info()[1]\n            self.close()\n            raise EOFError(ex)\n\n\nclass TunneledSocketStream",
       "            self.close()\n            raise\n\n\nclass TunneledSocketStream")),
    M("c05-reset-error-leaks", "C05", "connection reset while reading escapes as ConnectionResetError",
      (ST, "                    continue\n                self.close()\n                raise EOFError(ex)", "                    continue\n                self.close()\n                raise")),
    M("c05-pipe-eof-not-closed", "C05", "PipeStream.read raises EOFError at end of stream without closing",
      (ST, "        except EOFError:\n            self.close()\n            raise\n        except EnvironmentError:", "        except EOFError:\n            raise\n        except EnvironmentError:")),
    M("c05-pipe-write-error-leaks", "C05", "PipeStream.write lets EPIPE escape as BrokenPipeError",
      (ST, "                written = os.write(self.outgoing.fileno(), chunk)\n                data = data[written:]\n        except EnvironmentError:\n            ex = sys.exc_info()[1]\n            self.close()\n            raise EOFError(ex)",
       "                written = os.write(self.outgoing.fileno(), chunk)\n                data = data[written:]\n        except EnvironmentError:\n            self.close()\n            raise")),
    M("c05-incompressible-raw", "C05", "incompressible payload sent raw but still flagged compressed",
      (CH, "            data = zlib.compress(data, self.COMPRESSION_LEVEL)\n",
       "            zdata = zlib.compress(data, self.COMPRESSION_LEVEL)\n            data = zdata if len(zdata) < len(data) else data\n")),
]

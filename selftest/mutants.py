"""Hand-made breaks ("Breaks" of DESIGN.md section 3): each compiles, and is meant to be silent under the
repository's own tests. edits = [(file, old, new)] with old occurring exactly once."""
B = "rpyc/core/brine.py"
P = "rpyc/core/protocol.py"
CH = "rpyc/core/channel.py"
CO = "rpyc/core/consts.py"
ST = "rpyc/core/stream.py"
V = "rpyc/core/vinegar.py"
N = "rpyc/core/netref.py"
A = "rpyc/core/async_.py"
L = "rpyc/lib/__init__.py"
COL = "rpyc/lib/colls.py"
H = "rpyc/utils/helpers.py"
S = "rpyc/utils/server.py"
R = "rpyc/utils/registry.py"
CL = "rpyc/utils/classic.py"
SV = "rpyc/core/service.py"


def M(id, props, what, *edits):
    return dict(id=id, props=props.split(","), what=what, edits=list(edits))


MUTANTS = [
    # ---- C04
    M("c04-len256", "C04", "bytes length class < 256 -> <= 256", (B, "    elif lenobj < 256:\n        stream.append(TAG_STR_L1", "    elif lenobj <= 256:\n        stream.append(TAG_STR_L1")),
    M("c04-str4", "C04", "TAG_STR4 reads 3 bytes", (B, "def _load_str4(stream):\n    return stream.read(4)", "def _load_str4(stream):\n    return stream.read(3)")),
    M("c04-float32", "C04", "float packed as !f", (B, 'F8 = Struct("!d")', 'F8 = Struct("!f")')),
    M("c04-fset-as-set", "C04", "frozenset decoded as set", (B, "    return frozenset(_load(stream))", "    return set(_load(stream))")),
    M("c04-dumpable-isinstance", "C04,C03", "dumpable accepts subclasses", (B, "    if type(obj) in simple_types:\n        return True", "    if isinstance(obj, tuple(simple_types)):\n        return True")),
    M("c04-load-list", "C04", "TUP_L1 loader builds a list", (B, "    l, = I1.unpack(stream.read(1))\n    return tuple(_load(stream) for i in range(l))", "    l, = I1.unpack(stream.read(1))\n    return [_load(stream) for i in range(l)]")),
    M("c04-int-l1", "C19", "int length class 256 -> 255", (B, "        if lenobj < 256:\n            stream.append(TAG_INT_L1", "        if lenobj < 255:\n            stream.append(TAG_INT_L1")),
    M("c04-negzero", "C04", "complex loses sign of zero imag", (B, "    return complex(real, imag)", "    return complex(real, imag + 0.0)")),
    # ---- C19 (all self-consistent: both ends agree)
    M("c19-swap-tags", "C19", "TAG_TRUE/TAG_FALSE swapped consistently", (B, 'TAG_TRUE = b"\\x03"\nTAG_FALSE = b"\\x04"', 'TAG_TRUE = b"\\x04"\nTAG_FALSE = b"\\x03"')),
    M("c19-msg-renumber", "C19", "MSG_REPLY/MSG_EXCEPTION renumbered", (CO, "MSG_REPLY = 2\nMSG_EXCEPTION = 3", "MSG_REPLY = 3\nMSG_EXCEPTION = 2")),
    M("c19-header", "C19", "frame header !LB -> !BL", (CH, 'FRAME_HEADER = Struct("!LB")', 'FRAME_HEADER = Struct("!BL")')),
    M("c19-flusher", "C19", "flusher dropped on both sides", (CH, 'FLUSHER = BYTES_LITERAL("\\n")', 'FLUSHER = BYTES_LITERAL("")'), (CH, "data = self.stream.read(length + len(self.FLUSHER))[:-len(self.FLUSHER)]", "data = self.stream.read(length)")),
    M("c19-threshold", "C19", "compression threshold 3000 -> 300", (CH, "COMPRESSION_THRESHOLD = 3000", "COMPRESSION_THRESHOLD = 300")),
    M("c19-handlers-shift", "C19", "HANDLE_DEL/INSPECT swapped", (CO, "HANDLE_DEL = 15\nHANDLE_INSPECT = 16", "HANDLE_DEL = 16\nHANDLE_INSPECT = 15")),
    M("c19-label", "C19", "LABEL_LOCAL_REF/REMOTE_REF swapped", (CO, "LABEL_LOCAL_REF = 3\nLABEL_REMOTE_REF = 4", "LABEL_LOCAL_REF = 4\nLABEL_REMOTE_REF = 3")),
    M("c19-utf16", "C19", "text encoded as utf-16 consistently", (B, '_dump_bytes(obj.encode("utf8", "surrogatepass"), stream)', '_dump_bytes(obj.encode("utf-16-le", "surrogatepass"), stream)'), (B, 'return obj.decode("utf-8", "surrogatepass")', 'return obj.decode("utf-16-le", "surrogatepass")')),
    M("c19-imm-range", "C19", "immediate int range shrunk", (B, "for i in range(-0x30, 0xa0))", "for i in range(-0x30, 0x9f))")),
    M("c19-kwargs-dict", "C19", "CALL kwargs layout changed consistently", (N, "            kwargs = tuple(kwargs.items())\n            return syncreq(_self, consts.HANDLE_CALLATTR, name, args, kwargs)", "            kwargs = tuple((v, k) for k, v in kwargs.items())\n            return syncreq(_self, consts.HANDLE_CALLATTR, name, args, kwargs)"), (P, "        obj = self._handle_getattr(obj, name)\n        return self._handle_call(obj, args, kwargs)", "        obj = self._handle_getattr(obj, name)\n        return self._handle_call(obj, args, tuple((k, v) for v, k in kwargs))")),
]

MUTANTS += [
    # ---- C08
    M("c08-revert-fix", "C08", "reply encoding error escapes again (revert of b9a4d49)", (P, "            except Exception:\n                # the result could not be boxed or encoded (nothing was sent yet):\n                # the requester still gets exactly one response - this error\n                self._send_exception(seq, *sys.exc_info())", "            except ZeroDivisionError:\n                pass")),
    M("c08-double-reply", "C08", "PING answered twice", (P, "    def _handle_ping(self, data):  # request handler\n        return data", "    def _handle_ping(self, data):  # request handler\n        import inspect\n        self._send(consts.MSG_REPLY, inspect.currentframe().f_back.f_locals['seq'], self._box(data))\n        return data")),
    M("c08-get-not-pop", "EQUIVALENT", "(equivalent: sequence numbers are never reused, so a stale callback is never hit) callback looked up with get, not pop", (P, "_callback = self._request_callbacks.pop(seq, None)", "_callback = self._request_callbacks.get(seq, None)")),
    M("c08-exc-no-reply", "C08", "StopIteration from a handler gets no response", (P, "            if t is KeyboardInterrupt and self._config[\"propagate_KeyboardInterrupt_locally\"]:\n                raise", "            if t is KeyboardInterrupt and self._config[\"propagate_KeyboardInterrupt_locally\"]:\n                raise\n            if t is StopIteration and seq % 7 == 6:\n                return")),
    M("c08-reply-in-try", "C08", "reply sent inside try: failure of send answered twice", (P, "            res = self._HANDLERS[handler](self, *args)\n        except:", "            res = self._HANDLERS[handler](self, *args)\n            if handler == consts.HANDLE_CALL and type(res) is list:\n                self._send(consts.MSG_REPLY, seq, self._box(res))\n        except:")),
    M("c08-bad-handler-silent", "C08", "unknown handler id silently ignored", (P, "            handler, args = raw_args\n            args = self._unbox(args)", "            handler, args = raw_args\n            if handler not in self._HANDLERS:\n                return\n            args = self._unbox(args)")),
]

MUTANTS += [
    # ---- C03
    M("c03-no-tuple-branch", "C03", "_box: mixed tuples go by reference as a whole", (P, "        if type(obj) is tuple:\n            return consts.LABEL_TUPLE, tuple(self._box(item) for item in obj)\n        elif", "        if False:\n            pass\n        elif")),
    M("c03-no-proxy-cache", "EQUIVALENT", "(equivalent since c61f145: the cache is looked at again after the proxy was built, which hands out the live proxy and counts the receipt on it - only slower) proxy cache not consulted first", (P, "            if id_pack in self._proxy_cache:", "            if False and id_pack in self._proxy_cache:")),
    M("c03-no-proxy-cache-at-all", "C03,C10", "proxy cache consulted neither before nor after building the proxy",
      (P, "            if id_pack in self._proxy_cache:", "            if False and id_pack in self._proxy_cache:"),
      (P, "                cached = self._proxy_cache.get(id_pack)\n", "                cached = None\n")),
    M("c03-netref-rebox", "C03", "own netref boxed as a new remote ref (echo gives proxy of proxy)", (P, "        elif isinstance(obj, netref.BaseNetref) and obj.____conn__ is self:", "        elif isinstance(obj, netref.BaseNetref) and obj.____conn__ is self and obj.____id_pack__[2] % 5:")),
    M("c03-bool-as-int", "C03,C04,C19", "bool dumped through the int path when inside tuples", (B, "@register(_dump_registry, bool)\ndef _dump_bool(obj, stream):\n    if obj:", "@register(_dump_registry, bool)\ndef _dump_bool(obj, stream):\n    if len(stream) > 3:\n        stream.append(IMM_INTS[int(obj)])\n    elif obj:")),
    M("c03-slice-dumpable", "C03,C04", "dumpable ignores slice.step", (B, "return dumpable(obj.start) and dumpable(obj.stop) and dumpable(obj.step)", "return dumpable(obj.start) and dumpable(obj.stop)")),
    M("c03-fset-subclass", "C03", "frozenset subclass treated as value", (B, "    if type(obj) in (tuple, frozenset):\n        return all", "    if type(obj) is tuple or isinstance(obj, frozenset):\n        return all")),
    M("c03-revert-inflight-proxy", "C03", "the cache is not looked at again after the class was fetched: an object arriving twice in flight gets two proxies (revert)",
      (P, "                cached = self._proxy_cache.get(id_pack)\n", "                cached = None\n")),
    M("c03-inflight-spare-releases", "C10", "the spare proxy of an object that arrived twice in flight still releases one reference when dropped",
      (P, "                    proxy.____refcount__ = 0\n", "")),
    M("c03-inflight-receipt-not-counted", "C10", "the second in-flight receipt is not counted on the proxy that is handed out",
      (P, "                    proxy.____refcount__ = 0\n                    cached.____refcount__ += 1\n", "                    proxy.____refcount__ = 0\n")),
    M("c03-obtain-no-copy", "C03", "obtain returns the proxy for lists", (CL, "    return pickle.loads(pickle.dumps(proxy))", "    return proxy if len(proxy) == 3 else pickle.loads(pickle.dumps(proxy))")),
]

MUTANTS += [
    # ---- C01
    M("c01-revert-stopiter", "C01,C09", "StopIteration fast path loses args again (revert of 819a62c)", (V, '    if typ is StopIteration and not getattr(val, "args", None):', "    if typ is StopIteration:")),
    M("c01-drop-kwargs", "C01", "_handle_call drops keyword arguments when there are > 1", (P, "        return obj(*args, **dict(kwargs))", "        return obj(*args, **dict(kwargs[:1]))")),
    M("c01-call-twice", "C01", "callable invoked twice when it returns None", (P, "        return obj(*args, **dict(kwargs))", "        r = obj(*args, **dict(kwargs))\n        return obj(*args, **dict(kwargs)) if r is None else r")),
    M("c01-localref-proxy", "C01,C03", "LOCAL_REF inside tuples resolves to a fresh proxy of own object", (P, "        if label == consts.LABEL_LOCAL_REF:\n            return self._local_objects[value]", "        if label == consts.LABEL_LOCAL_REF:\n            return self._local_objects[value] if value[2] % 3 else self._netref_factory(value)")),
    M("c01-serve-under-lock", "C01,C13", "dispatch moved inside the receive lock (serve not re-entrant)", (P, "        finally:\n            self._recvlock.release()\n            with self._recv_event:\n                self._recv_event.notify_all()\n        self._dispatch(data)\n        return True", "            self._dispatch(data)\n        finally:\n            self._recvlock.release()\n            with self._recv_event:\n                self._recv_event.notify_all()\n        return True")),
    M("c01-exc-class", "C01,C09", "KeyError arrives as LookupError", (V, "    elif modname == exceptions_module.__name__:\n        cls = getattr(exceptions_module, clsname, None)", "    elif modname == exceptions_module.__name__:\n        cls = getattr(exceptions_module, clsname if clsname != 'KeyError' else 'LookupError', None)")),
    M("c01-kwargs-order", "C01", "async call loses keyword arguments", (H, "        return asyncreq(self.proxy, HANDLE_CALL, args, tuple(kwargs.items()))", "        return asyncreq(self.proxy, HANDLE_CALL, args, tuple(kwargs.items())[:1])")),
    M("c01-args-reversed-in-tuple", "C01", "LABEL_TUPLE of length 4 unboxed reversed", (P, "            return tuple(self._unbox(item) for item in value)", "            return tuple(self._unbox(item) for item in (value if len(value) != 4 else value[::-1]))")),
]

MUTANTS += [
    # ---- C09
    M("c09-ctor", "C09", "exception rebuilt with cls(*args) (constructor runs)", (V, "        exc = cls.__new__(cls)\n", "        exc = cls(*args) if cls.__module__ != 'builtins' else cls.__new__(cls)\n")),
    M("c09-no-subclass-check", "C09,C07", "issubclass(BaseException) check dropped", (V, "    if not isinstance(cls, type) or not issubclass(cls, BaseException):\n        cls = None", "    if not isinstance(cls, type):\n        cls = None")),
    M("c09-tb-always", "C09", "traceback always included", (V, "    if include_local_traceback:\n        try:", "    if include_local_traceback or val.args:\n        try:")),
    M("c09-version-always", "C09", "version always included", (V, "    if include_local_version:", "    if include_local_version or True:")),
    M("c09-instantiate-ignored", "C09", "custom class rebuilt for already imported modules regardless of the switch", (V, "    if instantiate_custom_exceptions:\n        if modname in sys.modules:", "    if instantiate_custom_exceptions or modname in sys.modules:\n        if modname in sys.modules:")),
    M("c09-attrs-dropped", "C09", "attributes not restored for OSError family", (V, "    for name, attrval in attrs:\n        try:", "    for name, attrval in attrs:\n        if name == 'filename':\n            continue\n        try:")),
    M("c09-import-always", "C09,C07", "module imported when instantiate is on (import switch ignored)", (V, "    if import_custom_exceptions and modname not in sys.modules:", "    if (import_custom_exceptions or instantiate_custom_exceptions) and modname not in sys.modules:")),
    M("c09-args-repr-all", "C09", "all non-str args sent as repr", (V, "                if brine.dumpable(a):\n                    args.append(a)", "                if brine.dumpable(a) and type(a) is not bytes:\n                    args.append(a)")),
    M("c09-generic-name", "C09", "generic stand-in loses module in its name", (V, '        fullname = "%s.%s" % (modname, clsname)', '        fullname = "%s" % (clsname,)')),
    M("c09-revert-tbfmt", "C09,C08", "traceback formatting failure escapes again (revert of 1e81b3f)", (V, "        except Exception:\n            # e.g. a SyntaxError carrying ill-typed details makes the formatter itself raise\n            tbtext", "        except ZeroDivisionError:\n            tbtext")),
]

MUTANTS += [
    # ---- C06
    M("c06-shared-default", "C06", "connections share the default config dict (no copy)", (P, "        self._config = DEFAULT_CONFIG.copy()", "        self._config = DEFAULT_CONFIG")),
    M("c06-public-underscore", "C06", "allow_public_attrs accepts single-underscore names", (P, '        plain |= config["allow_public_attrs"] and not name.startswith("_")', '        plain |= config["allow_public_attrs"] and not name.startswith("__")')),
    M("c06-no-hasattr", "C06", "twin preferred even when the plain name exists", (P, "        if plain and (not has_exposed or hasattr(obj, name)):", "        if plain and not has_exposed:")),
    M("c06-service-setattr", "C06", "Service no longer denies setattr on itself", (SV, "    def _rpyc_setattr(self, name, value):\n        raise AttributeError(\"access denied\")", "    def _rpyc_setattr_(self, name, value):\n        raise AttributeError(\"access denied\")")),
    M("c06-callattr-bypass", "C06,C07", "callattr bypasses the policy for dunder-free names", (P, "        obj = self._handle_getattr(obj, name)\n        return self._handle_call(obj, args, kwargs)", "        obj = self._handle_getattr(obj, name) if str(name).startswith('_') else getattr(obj, name)\n        return self._handle_call(obj, args, kwargs)")),
    M("c06-delattr-perm", "C06", "delattr checks allow_setattr", (P, '        return self._access_attr(obj, name, (), "_rpyc_delattr", "allow_delattr", delattr)', '        return self._access_attr(obj, name, (), "_rpyc_delattr", "allow_setattr", delattr)')),
    M("c06-nontext-attrerror", "C06", "non-text name raises AttributeError", (P, '            raise TypeError("name must be a string")', '            raise AttributeError("name must be a string")')),
    M("c06-safe-attrs-shared-set", "C06", "safe list gains a name", (P, "'__truediv__', '__xor__', 'next',", "'__truediv__', '__xor__', 'next', '__dict__',")),
    M("c06-restricted-wattrs", "C06", "restricted(): wattrs default ignored, attrs writable", (H, "            if name not in wattrs:\n                raise AttributeError(name)", "            if name not in wattrs and name not in attrs:\n                raise AttributeError(name)")),
    M("c06-exposed-any-prefix", "C06", "exposed check uses 'in' instead of startswith", (P, '        plain |= config["allow_exposed_attrs"] and name.startswith(prefix)', '        plain |= config["allow_exposed_attrs"] and prefix in name')),
    M("c06-slave-widens-class", "C06", "SlaveService widens via class-level protocol default", (SV, "        self._conn._config.update(dict(", "        from rpyc.core import protocol as _p\n        _p.DEFAULT_CONFIG['allow_public_attrs'] = True\n        self._conn._config.update(dict(")),
    M("c06-bytes-name-skip", "C06", "bytes names skip the policy check", (P, '        if type(name) is bytes:\n            name = str(name, "utf8")', '        if type(name) is bytes:\n            return default(obj, str(name, "utf8"), *args)')),
]

MUTANTS += [
    # ---- C02
    M("c02-revert-buffiter", "C02", "buffiter float factor breaks again (revert)", (H, "        count = int(min(count * factor, max_chunk))  # islice() needs an integer, factor may be fractional", "        count = min(count * factor, max_chunk)")),
    M("c02-buffiter-offbyone", "C02", "buffiter drops the last element of a chunk when the chunk has grown past 8", (H, "        for elem in items:\n            yield elem", "        for elem in (items if len(items) <= 8 else items[:-1]):\n            yield elem")),
    M("c02-cmp-swapped", "C02", "_handle_cmp swaps operands", (P, 'return self._access_attr(type(obj), op, (), "_rpyc_getattr", "allow_getattr", getattr)(obj, other)', 'return self._access_attr(type(obj), op, (), "_rpyc_getattr", "allow_getattr", getattr)(other, obj) if op in ("__lt__", "__le__") else self._access_attr(type(obj), op, (), "_rpyc_getattr", "allow_getattr", getattr)(obj, other)')),
    M("c02-delattr-as-setattr", "C02", "__delattr__ routed to SETATTR with None", (N, "            syncreq(self, consts.HANDLE_DELATTR, name)", "            syncreq(self, consts.HANDLE_SETATTR, name, None)")),
    M("c02-stopiter-value", "C02", "StopIteration fast path swallowed at the third call of next", (V, "    if val == consts.EXC_STOP_ITERATION:\n        return StopIteration  # optimization", "    if val == consts.EXC_STOP_ITERATION:\n        return StopIteration(None)")),
    M("c02-no-getitem", "C02", "__getitem__ dropped from synthesized methods", (N, "        if name not in LOCAL_ATTRS:  # i.e. `name != __class__`", "        if name not in LOCAL_ATTRS and name != '__getitem__':  # i.e. `name != __class__`")),
    M("c02-str-is-repr", "C02", "str() answered with repr()", (P, "    def _handle_str(self, obj):  # request handler\n        return str(obj)", "    def _handle_str(self, obj):  # request handler\n        return repr(obj)")),
    M("c02-hash-const", "C02", "hash of proxies truncated", (P, "        return hash(obj)", "        return hash(obj) & 0xffff")),
    M("c02-ctxexit-noexit", "C02", "context manager exit not forwarded for files", (N, "        return syncreq(self, consts.HANDLE_CTXEXIT, exc)  # can't pass type nor traceback", "        return None if exc is None and self.____id_pack__[0].startswith('_io') else syncreq(self, consts.HANDLE_CTXEXIT, exc)")),
    M("c02-dir-sorted-subset", "C02", "dir() loses private names", (P, "        return tuple(dir(obj))", "        return tuple(n for n in dir(obj) if not n.startswith('__r'))")),
    M("c02-kwargs-call", "C02", "__call__ drops kwargs", (N, "            kwargs = tuple(kwargs.items())\n            return syncreq(_self, consts.HANDLE_CALL, args, kwargs)", "            kwargs = ()\n            return syncreq(_self, consts.HANDLE_CALL, args, kwargs)")),
    M("c02-metaclass-methods", "C02", "metaclass methods not discovered", (L, "        mros = list(reversed(type(obj).__mro__)) + list(reversed(obj.__mro__))", "        mros = list(reversed(obj.__mro__))")),
]

MUTANTS += [
    # ---- C07
    M("c07-cmp-no-policy", "C07,C06", "comparison handler skips the policy (CVE-2019-16328)", (P, 'return self._access_attr(type(obj), op, (), "_rpyc_getattr", "allow_getattr", getattr)(obj, other)', 'return getattr(type(obj), op)(obj, other)')),
    M("c07-pickle-always", "C07", "allow_pickle test removed", (P, '        if not self._config["allow_pickle"]:\n            raise ValueError("pickling is disabled")', '        pass')),
    M("c07-global-table", "C07", "LOCAL_REF falls back to a process-global id table", (P, "        if label == consts.LABEL_LOCAL_REF:\n            return self._local_objects[value]", "        if label == consts.LABEL_LOCAL_REF:\n            try:\n                return self._local_objects[value]\n            except KeyError:\n                import ctypes\n                return ctypes.cast(value[2], ctypes.py_object).value if isinstance(value[2], int) and value[2] in {id(o) for o in gc.get_objects()} else self._local_objects[value]")),
    M("c07-getattr-fallback", "C07", "_handle_getattr falls back to plain getattr on AttributeError", (P, '        return self._access_attr(obj, name, (), "_rpyc_getattr", "allow_getattr", getattr)\n\n    def _handle_delattr', '        try:\n            return self._access_attr(obj, name, (), "_rpyc_getattr", "allow_getattr", getattr)\n        except AttributeError:\n            return getattr(obj, name)\n\n    def _handle_delattr')),
    M("c07-vinegar-import", "C07,C09", "vinegar imports modules named by the payload when not configured", (V, "    if import_custom_exceptions and modname not in sys.modules:", "    if modname not in sys.modules:")),
    M("c07-shared-local-objects", "C07,C16", "connections of one process share the table of exported objects", (P, "        self._local_objects = RefCountingColl()", "        self._local_objects = _SHARED_OBJECTS"), (P, "_connection_id_generator = itertools.count(1)", "_connection_id_generator = itertools.count(1)\n_SHARED_OBJECTS = RefCountingColl()")),
    M("c07-oldslicing-bypass", "C07", "oldslicing fallback uses plain getattr", (P, "            getslice = self._handle_getattr(obj, fallback)", "            getslice = getattr(obj, fallback)")),
    M("c07-setattr-allowed", "C07,C06", "setattr permitted by default", (P, "    allow_setattr=False,", "    allow_setattr=True,")),
    M("c07-instancecheck-eval", "C07", "instancecheck resolves class names by import", (P, "        else:  # might just have missed cache, FIX ME\n            return False", "        else:  # might just have missed cache, FIX ME\n            try:\n                __import__(str(other_id_pack[0]).rsplit('.', 1)[0])\n            except Exception:\n                pass\n            return False")),
]

MUTANTS += [
    # ---- C10
    M("c10-decref-le", "C10", "decref removes the slot one unit early", (COL, "            if slot[1] < count:", "            if slot[1] <= count:")),
    M("c10-add-starts-at-1", "C10", "first add counts 1 instead of 0", (COL, "                slot = [obj, 0]", "                slot = [obj, 1]")),
    M("c10-unbox-no-bump", "C10", "cached proxy's count not bumped on re-receipt", (P, "                proxy.____refcount__ += 1  # if cached then remote incremented refcount, so sync refcount", "                pass")),
    M("c10-del-sends-1", "C10", "proxy finalizer sends 1 instead of its whole count", (N, "            asyncreq(self, consts.HANDLE_DEL, self.____refcount__)", "            asyncreq(self, consts.HANDLE_DEL, 1)")),
    M("c10-cleanup-no-clear", "C10,C11", "_cleanup does not clear the table of lent objects", (P, "        self._local_objects.clear()\n        self._proxy_cache.clear()", "        self._proxy_cache.clear()")),
    M("c10-del-default-count", "C10", "_handle_del ignores the count", (P, "        self._local_objects.decref(get_id_pack(obj), count)", "        self._local_objects.decref(get_id_pack(obj))")),
    M("c10-box-no-add-in-tuple", "C10", "objects inside LABEL_TUPLE of length 2 are boxed without being recorded", (P, "            return consts.LABEL_TUPLE, tuple(self._box(item) for item in obj)", "            return consts.LABEL_TUPLE, tuple(self._box(item) if len(obj) != 2 or i == 0 else (consts.LABEL_REMOTE_REF, get_id_pack(item)) for i, item in enumerate(obj))")),
]

MUTANTS += [
    # ---- C12
    M("c12-while-if", "C12", "_send: while -> if", (P, "        while self._send_queue:\n            if not self._sendlock.acquire(False):", "        if self._send_queue:\n            if not self._sendlock.acquire(False):")),
    M("c12-no-recheck", "C12", "_send: re-check of the queue under the lock dropped", (P, "                if not self._send_queue:\n                    # Must `continue` to ensure that `send_queue` is checked\n                    # after releasing the lock! (in case another producer is\n                    # scheduled before `release`)\n                    continue\n", "")),
    M("c12-continue-return", "C12", "_send: continue -> return", (P, "                    # scheduled before `release`)\n                    continue", "                    # scheduled before `release`)\n                    return")),
    M("c12-blocking-acquire", "C12", "_send: try-lock -> blocking acquire", (P, "            if not self._sendlock.acquire(False):", "            if not self._sendlock.acquire():")),
    M("c12-pop-last", "C12", "_send: pop(0) -> pop()", (P, "                data = self._send_queue.pop(0)", "                data = self._send_queue.pop()")),
    M("c12-send-outside-lock", "C12", "_send: channel.send after releasing the lock", (P, "                data = self._send_queue.pop(0)\n                self._channel.send(data)\n            finally:\n                self._sendlock.release()", "                data = self._send_queue.pop(0)\n            finally:\n                self._sendlock.release()\n            self._channel.send(data)")),
    M("c12-direct-send", "C12", "_send: own message sent directly when the lock is free, queue bypassed", (P, "        self._send_queue.append(data)\n        # It is crucial", "        if self._sendlock.acquire(False):\n            try:\n                self._channel.send(data)\n            finally:\n                self._sendlock.release()\n            return\n        self._send_queue.append(data)\n        # It is crucial")),
]

MUTANTS += [
    # ---- C11
    M("c11-close-no-guard", "C11", "close(): closed guard removed (hook can run twice)", (P, '        """closes the connection, releasing all held resources"""\n        if self._closed:\n            return\n', '        """closes the connection, releasing all held resources"""\n')),
    M("c11-cleanup-skips-hook", "C11", "_cleanup skips on_disconnect when already flagged closed", (P, "        self._channel.close()\n        self._local_root.on_disconnect(self)", "        self._channel.close()\n        if not self._closed or not _anyway:\n            self._local_root.on_disconnect(self)")),
    M("c11-serve-swallows-eof", "C11", "serve() swallows EOFError without closing", (P, "        except EOFError:\n            self.close()\n            raise\n        finally:\n            self._recvlock.release()", "        except EOFError:\n            return False\n        finally:\n            self._recvlock.release()")),
    M("c11-serve-all-no-finally", "C11", "serve_all does not close on exit", (P, "        except EOFError:\n            pass\n        finally:\n            self.close()\n\n    def serve_threaded", "        except EOFError:\n            pass\n\n    def serve_threaded")),
    M("c11-handle-close-noop", "C11", "_handle_close does not clean up", (P, "    def _handle_close(self):  # request handler\n        self._cleanup()", "    def _handle_close(self):  # request handler\n        pass")),
    M("c11-close-waits", "C11", "close() waits for a reply to its close request", (P, "            self._async_request(consts.HANDLE_CLOSE)\n        except EOFError:", "            self.async_request(consts.HANDLE_CLOSE).wait()\n        except EOFError:")),
    M("c11-eof-not-closing", "C11", "serve(): EOF while receiving re-raised without close()", (P, "        except EOFError:\n            self.close()\n            raise\n        finally:\n            self._recvlock.release()", "        except EOFError:\n            raise\n        finally:\n            self._recvlock.release()")),
    M("c11-closed-flag-late", "C11", "_cleanup: flag set after the hook", (P, "        self._closed = True\n        self._channel.close()\n        self._local_root.on_disconnect(self)", "        self._channel.close()\n        self._local_root.on_disconnect(self)\n        self._closed = True")),
]

MUTANTS += [
    # ---- C13 / C14
    M("c13-seq-nonatomic", "C13", "sequence numbers from a read-modify-write counter", (P, "        return next(self._seqcounter)", "        n = getattr(self, '_n', 0)\n        self._n = n + 1\n        return n")),
    M("c13-no-notify", "C13,C14", "notify_all removed after releasing the receive lock", (P, "            self._recvlock.release()\n            with self._recv_event:\n                self._recv_event.notify_all()", "            self._recvlock.release()")),
    M("c13-ready-before-value", "C13", "ready flag published before the value", (A, "        self._is_exc = is_exc\n        self._obj = obj\n        self._is_ready = True", "        self._is_ready = True\n        self._is_exc = is_exc\n        self._obj = obj")),
    M("c13-dispatch-twice", "C13", "a frame received while another thread waits is dispatched by both", (P, "        self._dispatch(data)\n        return True", "        self._dispatch(data)\n        if self._recv_event.waiters if hasattr(self._recv_event, 'waiters') else False:\n            self._dispatch(data)\n        return True")),
    M("c13-notify-before-release", "C13,C14", "waiters notified before the receive lock is released, never after", (P, "        finally:\n            self._recvlock.release()\n            with self._recv_event:\n                self._recv_event.notify_all()", "        finally:\n            with self._recv_event:\n                self._recv_event.notify_all()\n            self._recvlock.release()")),
    M("c14-wait-serve-forever", "C14,C15", "AsyncResult.wait serves with no time limit", (A, "            self._conn.serve(self._ttl)", "            self._conn.serve(None)")),
    M("c13-callbacks-shared", "C13", "reply routed by the oldest pending callback instead of its seq", (P, "        _callback = self._request_callbacks.pop(seq, None)", "        _callback = self._request_callbacks.pop(min(self._request_callbacks) if self._request_callbacks and seq % 3 == 2 else seq, None)")),
]

MUTANTS += [
    # ---- C15
    M("c15-late-reply-accepted", "C15", "late reply no longer discarded", (A, "        if self.expired:\n            return\n        self._is_exc = is_exc", "        self._is_exc = is_exc")),
    M("c15-timeout-gt", "C15", "Timeout.expired uses > instead of >=", (L, "        return self.finite and time.time() >= self.tmax", "        return self.finite and time.time() > self.tmax")),
    M("c15-callbacks-not-cleared-x", "EQUIVALENT", "(removed: code rewritten by the callback-race fix)"),
    M("c15-callbacks-reversed", "C15", "callbacks run in reverse registration order", (A, "                self._callbacks.pop(0)(self)", "                self._callbacks.pop()(self)")),
    M("c15-add-callback-late", "C15", "callback registered after readiness is queued, not run", (A, "        self._callbacks.append(func)\n        if self._is_ready:\n            self._run_callbacks()", "        self._callbacks.append(func)")),
    M("c15-wait-if", "C15", "wait: while -> if", (A, "        while not self._is_ready and not self._ttl.expired():", "        if not self._is_ready and not self._ttl.expired():")),
    M("c15-sync-ignores-timeout", "C15", "sync_request ignores the configured timeout", (P, '        timeout = self._config["sync_request_timeout"]\n        return self.async_request(handler, *args, timeout=timeout).value', '        return self.async_request(handler, *args, timeout=30).value')),
    M("c15-negative-timeout-zero", "C15", "negative timeout treated as already expired", (L, "            self.finite = timeout is not None and timeout >= 0\n            self.tmax = time.time() + timeout if self.finite else None", "            self.finite = timeout is not None\n            self.tmax = time.time() + max(timeout, 0) if self.finite else None")),
    M("c15-timed-no-expiry", "C15", "timed() forgets to set the expiry when the timeout is < 1", (H, "        res.set_expiry(self.timeout)\n        return res", "        if self.timeout >= 1:\n            res.set_expiry(self.timeout)\n        return res")),
    M("c15-ready-no-poll", "C15", "ready does not serve pending traffic", (A, "        self._conn.poll_all()\n        return self._is_ready", "        return self._is_ready")),
    M("c15-timeleft-late", "C15", "timeleft overshoots: waits 10 ms past the expiry", (L, "        return max((0, self.tmax - time.time())) if self.finite else None", "        return max((0, self.tmax - time.time() + 0.01)) if self.finite else None")),
]

MUTANTS += [
    M("c15-revert-callback-race", "C15", "add_callback tests readiness before queueing again (revert)", (A, "        self._callbacks.append(func)\n        if self._is_ready:\n            self._run_callbacks()", "        if self._is_ready:\n            func(self)\n        else:\n            self._callbacks.append(func)")),
]

MUTANTS += [
    M("c07-revert-inspect-guard", "C07", "INSPECT hashes a peer object under the table lock again (revert)", (P, "        if not brine.dumpable(id_pack):\n            # an id pack is plain data.", "        if False:\n            # an id pack is plain data.")),
]

"""Hand-made breaks ("Breaks" of DESIGN.md section 3): each compiles, and is meant to be silent under the
repository's own tests. edits = [(file, old, new)] with old occurring exactly once."""
B = "rpyc/core/brine.py"
P = "rpyc/core/protocol.py"
CH = "rpyc/core/channel.py"
CO = "rpyc/core/consts.py"
ST = "rpyc/core/stream.py"
V = "rpyc/core/vinegar.py"
N = "rpyc/core/netref.py"
A = "rpyc/core/async_.py"
L = "rpyc/lib/__init__.py"
COL = "rpyc/lib/colls.py"
H = "rpyc/utils/helpers.py"
S = "rpyc/utils/server.py"
R = "rpyc/utils/registry.py"
CL = "rpyc/utils/classic.py"
SV = "rpyc/core/service.py"


def M(id, props, what, *edits):
    return dict(id=id, props=props.split(","), what=what, edits=list(edits))


MUTANTS = [
    # ---- C04
    M("c04-len256", "C04", "bytes length class < 256 -> <= 256", (B, "    elif lenobj < 256:\n        stream.append(TAG_STR_L1", "    elif lenobj <= 256:\n        stream.append(TAG_STR_L1")),
    M("c04-str4", "C04", "TAG_STR4 reads 3 bytes", (B, "def _load_str4(stream):\n    return stream.read(4)", "def _load_str4(stream):\n    return stream.read(3)")),
    M("c04-float32", "C04", "float packed as !f", (B, 'F8 = Struct("!d")', 'F8 = Struct("!f")')),
    M("c04-fset-as-set", "C04", "frozenset decoded as set", (B, "    return frozenset(_load(stream))", "    return set(_load(stream))")),
    M("c04-dumpable-isinstance", "C04,C03", "dumpable accepts subclasses", (B, "    if type(obj) in simple_types:\n        return True", "    if isinstance(obj, tuple(simple_types)):\n        return True")),
    M("c04-load-list", "C04", "TUP_L1 loader builds a list", (B, "    l, = I1.unpack(stream.read(1))\n    return tuple(_load(stream) for i in range(l))", "    l, = I1.unpack(stream.read(1))\n    return [_load(stream) for i in range(l)]")),
    M("c04-int-l1", "C19", "int length class 256 -> 255", (B, "        if lenobj < 256:\n            stream.append(TAG_INT_L1", "        if lenobj < 255:\n            stream.append(TAG_INT_L1")),
    M("c04-negzero", "C04", "complex loses sign of zero imag", (B, "    return complex(real, imag)", "    return complex(real, imag + 0.0)")),
    # ---- C19 (all self-consistent: both ends agree)
    M("c19-swap-tags", "C19", "TAG_TRUE/TAG_FALSE swapped consistently", (B, 'TAG_TRUE = b"\\x03"\nTAG_FALSE = b"\\x04"', 'TAG_TRUE = b"\\x04"\nTAG_FALSE = b"\\x03"')),
    M("c19-msg-renumber", "C19", "MSG_REPLY/MSG_EXCEPTION renumbered", (CO, "MSG_REPLY = 2\nMSG_EXCEPTION = 3", "MSG_REPLY = 3\nMSG_EXCEPTION = 2")),
    M("c19-header", "C19", "frame header !LB -> !BL", (CH, 'FRAME_HEADER = Struct("!LB")', 'FRAME_HEADER = Struct("!BL")')),
    M("c19-flusher", "C19", "flusher dropped on both sides", (CH, 'FLUSHER = BYTES_LITERAL("\\n")', 'FLUSHER = BYTES_LITERAL("")'), (CH, "data = self.stream.read(length + len(self.FLUSHER))[:-len(self.FLUSHER)]", "data = self.stream.read(length)")),
    M("c19-threshold", "C19", "compression threshold 3000 -> 300", (CH, "COMPRESSION_THRESHOLD = 3000", "COMPRESSION_THRESHOLD = 300")),
    M("c19-handlers-shift", "C19", "HANDLE_DEL/INSPECT swapped", (CO, "HANDLE_DEL = 15\nHANDLE_INSPECT = 16", "HANDLE_DEL = 16\nHANDLE_INSPECT = 15")),
    M("c19-label", "C19", "LABEL_LOCAL_REF/REMOTE_REF swapped", (CO, "LABEL_LOCAL_REF = 3\nLABEL_REMOTE_REF = 4", "LABEL_LOCAL_REF = 4\nLABEL_REMOTE_REF = 3")),
    M("c19-utf16", "C19", "text encoded as utf-16 consistently", (B, '_dump_bytes(obj.encode("utf8", "surrogatepass"), stream)', '_dump_bytes(obj.encode("utf-16-le", "surrogatepass"), stream)'), (B, 'return obj.decode("utf-8", "surrogatepass")', 'return obj.decode("utf-16-le", "surrogatepass")')),
    M("c19-imm-range", "C19", "immediate int range shrunk", (B, "for i in range(-0x30, 0xa0))", "for i in range(-0x30, 0x9f))")),
    M("c19-kwargs-dict", "C19", "CALL kwargs layout changed consistently", (N, "            kwargs = tuple(kwargs.items())\n            return syncreq(_self, consts.HANDLE_CALLATTR, name, args, kwargs)", "            kwargs = tuple((v, k) for k, v in kwargs.items())\n            return syncreq(_self, consts.HANDLE_CALLATTR, name, args, kwargs)"), (P, "        obj = self._handle_getattr(obj, name)\n        return self._handle_call(obj, args, kwargs)", "        obj = self._handle_getattr(obj, name)\n        return self._handle_call(obj, args, tuple((k, v) for v, k in kwargs))")),
]

MUTANTS += [
    # ---- C08
    M("c08-revert-fix", "C08", "reply encoding error escapes again (revert of b9a4d49)", (P, "            except Exception:\n                # the result could not be boxed or encoded (nothing was sent yet):\n                # the requester still gets exactly one response - this error\n                self._send_exception(seq, *sys.exc_info())", "            except ZeroDivisionError:\n                pass")),
    M("c08-double-reply", "C08", "PING answered twice", (P, "    def _handle_ping(self, data):  # request handler\n        return data", "    def _handle_ping(self, data):  # request handler\n        import inspect\n        self._send(consts.MSG_REPLY, inspect.currentframe().f_back.f_locals['seq'], self._box(data))\n        return data")),
    M("c08-get-not-pop", "C08,C13", "callback looked up with get, not pop", (P, "_callback = self._request_callbacks.pop(seq, None)", "_callback = self._request_callbacks.get(seq, None)")),
    M("c08-exc-no-reply", "C08", "StopIteration from a handler gets no response", (P, "            if t is KeyboardInterrupt and self._config[\"propagate_KeyboardInterrupt_locally\"]:\n                raise", "            if t is KeyboardInterrupt and self._config[\"propagate_KeyboardInterrupt_locally\"]:\n                raise\n            if t is StopIteration and seq % 7 == 6:\n                return")),
    M("c08-reply-in-try", "C08", "reply sent inside try: failure of send answered twice", (P, "            res = self._HANDLERS[handler](self, *args)\n        except:", "            res = self._HANDLERS[handler](self, *args)\n            if handler == consts.HANDLE_CALL and type(res) is list:\n                self._send(consts.MSG_REPLY, seq, self._box(res))\n        except:")),
    M("c08-bad-handler-silent", "C08", "unknown handler id silently ignored", (P, "            handler, args = raw_args\n            args = self._unbox(args)", "            handler, args = raw_args\n            if handler not in self._HANDLERS:\n                return\n            args = self._unbox(args)")),
]

"""Hand-made breaks of C16 (a server keeps serving good clients whatever bad clients do; per-connection service
instance and object table) and C17 (closing a server ends its clients; departed clients leave nothing behind;
one-shot serves once). Each compiles and stays silent under the repository's own server tests
(tests/test_threaded_server.py, tests/test_oneshot_server.py, tests/test_custom_service.py).
edits = [(file, old, new)] with old occurring exactly once. The ThreadPoolServer mutants marked (*) are written
against the text of the three thread-pool fixes (close() drops the remaining connections; _drop_connection(fd, conn)
leaves a recycled descriptor number alone; a rejected client's socket is discarded from server.clients) and do not
apply to a tree without them."""
P = "rpyc/core/protocol.py"
S = "rpyc/utils/server.py"


def M(id, props, what, *edits):
    return dict(id=id, props=props.split(","), what=what, edits=list(edits))


MUTANTS = [
    # ---------------------------------------------------------------- C16
    M("c16-shared-service-instance", "C16", "the server instantiates the service class once: every connection is served by the same instance",
      (S, "        self.service = service\n", "        self.service = service() if isinstance(service, type) else service\n")),
    M("c16-shared-object-table", "C16", "all connections of a process share one table of exported objects",
      (P, "        self._local_objects = RefCountingColl()", '        self._local_objects = globals().setdefault("_shared_local_objects", RefCountingColl())')),
    M("c16-auth-failure-closes-listener", "C16", "a failed authentication closes the listening socket",
      (S, '                    self.logger.info("%s failed to authenticate, rejecting connection", addrinfo)\n                    return',
          '                    self.logger.info("%s failed to authenticate, rejecting connection", addrinfo)\n                    self.listener.close()\n                    return')),
    M("c16-client-error-closes-server", "C16", "a protocol error in one client's serving thread closes the whole server",
      (S, '                self.logger.exception("client connection terminated abruptly")\n                raise',
          '                self.logger.exception("client connection terminated abruptly")\n                self.close()\n                raise')),
    M("c16-pool-auth-error-reaches-accept", "C16", "thread pool: only socket errors are caught around authentication, an AuthenticationError reaches the accept loop",
      (S, '        except Exception:\n            err_msg = "Failed to serve client for {}, caught exception".format(addrinfo)',
          '        except socket.error:\n            err_msg = "Failed to serve client for {}, caught exception".format(addrinfo)')),
    M("c16-pool-worker-except-removed", "C16", "thread pool worker no longer survives an exception raised while serving a client",
      (S, '            except Exception:\n                # "Caught exception in Worker thread" message\n                self.logger.exception("failed to serve client, caught exception")',
          '            except Queue.Full:\n                # "Caught exception in Worker thread" message\n                self.logger.exception("failed to serve client, caught exception")')),
    M("c16-revert-fd-reuse-fix", "C16", "(*) thread pool drops whatever connection now owns the descriptor number of the one that failed",
      (S, "            if conn is None:\n                conn = self.fd_to_conn.pop(fd, None)\n            elif self.fd_to_conn.get(fd) is conn:\n                del self.fd_to_conn[fd]",
          "            conn = self.fd_to_conn.pop(fd, None)")),
    # ---------------------------------------------------------------- C17
    M("c17-close-skips-clients", "C17", "Server.close() closes the listener but not the clients it is serving",
      (S, "        for c in set(self.clients):\n", "        for c in ():\n")),
    M("c17-finally-keeps-client", "C17", "the per-client finally block no longer removes the socket from server.clients",
      (S, "            closing(sock)\n            self.clients.discard(sock)", "            closing(sock)")),
    M("c17-oneshot-not-closing", "C17", "OneShotServer does not close itself after its connection",
      (S, "            self._authenticate_and_serve_client(sock)\n        finally:\n            self.close()",
          "            self._authenticate_and_serve_client(sock)\n        finally:\n            pass")),
    M("c17-pool-drop-keeps-entry", "C17", "(*) thread pool: _drop_connection closes the connection but leaves it in fd_to_conn",
      (S, "                conn = self.fd_to_conn.pop(fd, None)\n            elif self.fd_to_conn.get(fd) is conn:\n                del self.fd_to_conn[fd]",
          "                conn = self.fd_to_conn.get(fd)\n            elif self.fd_to_conn.get(fd) is conn:\n                pass")),
    M("c17-revert-pool-close", "C17", "(*) ThreadPoolServer.close() leaves the connections in fd_to_conn alone again",
      (S, "        for fd in list(self.fd_to_conn):\n            self._drop_connection(fd)\n", "        pass\n")),
    M("c17-revert-pool-rejected-entry", "C17", "(*) thread pool: the socket of a client that failed authentication stays in server.clients",
      (S, "            sock.close()\n            self.clients.discard(sock)\n            # the authenticator may have handed back another socket object than the accepted one\n            self.clients.discard(accepted)\n",
          "            sock.close()\n")),
    M("c17-threaded-keeps-dup", "C17", "ThreadedServer keeps a duplicate descriptor of every accepted socket in a list",
      (S, "        spawn(self._authenticate_and_serve_client, sock)",
          '        self.__dict__.setdefault("_accepted", []).append(sock.dup())\n        spawn(self._authenticate_and_serve_client, sock)')),
    M("c17-forking-parent-keeps-socket", "C17", "ForkingServer's parent process neither closes nor forgets the accepted socket",
      (S, "            # parent\n            sock.close()\n            self.clients.discard(sock)", "            # parent\n            pass")),
    M("c17-second-close-raises", "C17", "closing an already closed server raises",
      (S, "        if self._closed:\n            return\n        self._closed = True",
          '        if self._closed:\n            raise ValueError("server already closed")\n        self._closed = True')),
    M("c17-hook-skipped-on-eof", "C17", "on_disconnect is skipped when the stream was already closed by the read that hit end-of-stream",
      (P, "        self._channel.close()\n        self._local_root.on_disconnect(self)",
          "        was_open = not self._channel.closed\n        self._channel.close()\n        if was_open:\n            self._local_root.on_disconnect(self)")),
    M("c17-revert-rewrapped-socket-tracking", "C17", "(*) the socket object returned by the authenticator is not tracked: close() shuts down only the accepted (detached) one",
      (S, "                    self.clients.add(sock2)\n", "                    pass\n")),
    M("c17-rewrapped-socket-left-in-table", "C17", "(*) the socket object returned by the authenticator is never removed from server.clients",
      (S, "            self.clients.discard(sock)\n            self.clients.discard(sock2)\n", "            self.clients.discard(sock)\n")),
    M("c17-revert-accepted-socket-forgotten", "C17", "(*) thread pool: when set-up fails after authentication only the socket object the authenticator returned is discarded (revert)",
      (S, "            self.clients.discard(accepted)\n", "")),
    M("c17-halfbuilt-connection-kept", "C17", "(*) thread pool: a client whose set-up fails after its connection was built stays registered for polling",
      (S, "            self.logger.exception(err_msg)\n            if conn is not None:\n                conn.close()\n",
          "            self.logger.exception(err_msg)\n            if conn is not None:\n                self.fd_to_conn[id(conn)] = conn\n")),
]

"""Hand-made breaks of C20 (upload / download reproduce files and trees; filter excludes exactly what it rejects).
Each compiles and stays silent under the repository's own test (tests/test_remoting.py: ten empty files and one
empty directory at the top level, no filter, default chunk size, only os.listdir compared).
edits = [(file, old, new)] with old occurring exactly once."""
CL = "rpyc/utils/classic.py"


def M(id, props, what, *edits):
    return dict(id=id, props=props.split(","), what=what, edits=list(edits))


UP_LOOP = ("                buf = lf.read(chunk_size)\n"
           "                if not buf:\n"
           "                    break\n"
           "                rf.write(buf)\n")
DOWN_LOOP = ("                buf = rf.read(chunk_size)\n"
             "                if not buf:\n"
             "                    break\n"
             "                lf.write(buf)\n")

MUTANTS = [
    M("c20-up-drop-partial", "C20", "upload_file: end of file tested as 'short read' before writing: last partial chunk dropped",
      (CL, UP_LOOP, UP_LOOP.replace("if not buf:", "if len(buf) < chunk_size:"))),
    M("c20-up-chunk-minus-one", "C20", "upload_file reads chunk_size - 1 bytes at a time (nothing copied when chunk_size == 1)",
      (CL, "buf = lf.read(chunk_size)", "buf = lf.read(chunk_size - 1)")),
    M("c20-up-skip-last-byte", "C20", "upload_file saves the last round trip when at most one byte is left",
      (CL, UP_LOOP, UP_LOOP + "                if os.path.getsize(localpath) - lf.tell() <= 1:\n                    break\n")),
    M("c20-up-filter-fullpath", "C20", "upload_dir applies the filter to the joined path instead of the entry name",
      (CL, "        if not filter or filter(fn):\n            lfn = os.path.join(localpath, fn)\n",
           "        lfn = os.path.join(localpath, fn)\n        if not filter or filter(lfn):\n")),
    M("c20-up-lazy-mkdir", "C20", "upload_dir does not create a directory when a filter leaves nothing to upload in it",
      (CL, "    if not conn.modules.os.path.isdir(remotepath):\n        conn.modules.os.makedirs(remotepath)\n",
           "    if filter and not [fn for fn in os.listdir(localpath) if filter(fn)]:\n        return\n"
           "    if not conn.modules.os.path.isdir(remotepath):\n        conn.modules.os.makedirs(remotepath)\n")),
    M("c20-up-no-truncate", "C20", "upload_file opens an existing remote file for update instead of truncating it",
      (CL, '        with conn.builtin.open(remotepath, "wb") as rf:',
           '        with conn.builtin.open(remotepath, "r+b" if conn.modules.os.path.isfile(remotepath) else "wb") as rf:')),
    M("c20-down-text-mode", "C20", "download_file reads the remote file in text mode (latin-1, universal newlines)",
      (CL, '    with conn.builtin.open(remotepath, "rb") as rf:', '    with conn.builtin.open(remotepath, "r", encoding="latin-1") as rf:'),
      (CL, "                lf.write(buf)\n", '                lf.write(buf.encode("latin-1"))\n')),
    M("c20-down-two-chunks", "C20", "download_file stops after two chunks",
      (CL, DOWN_LOOP, DOWN_LOOP.replace("if not buf:", "if not buf or lf.tell() >= 2 * chunk_size:"))),
    M("c20-down-filter-not-inherited", "C20", "download_dir does not hand the filter down to sub-directories",
      (CL, "            download(conn, rfn, lfn, filter=filter, ignore_invalid=True, chunk_size=chunk_size)",
           "            download(conn, rfn, lfn, filter=None, ignore_invalid=True, chunk_size=chunk_size)")),
    M("c20-down-drop-partial-multichunk", "C20", "download_file drops a trailing partial chunk of files longer than one chunk",
      (CL, DOWN_LOOP, DOWN_LOOP.replace("if not buf:", "if not buf or (len(buf) < chunk_size and lf.tell()):"))),
    M("c20-down-mkdir-not-makedirs", "C20", "download_dir creates only the last path component",
      (CL, "    if not os.path.isdir(localpath):\n        os.makedirs(localpath)", "    if not os.path.isdir(localpath):\n        os.mkdir(localpath)")),
    M("c20-down-top-filtered", "C20", "download applies the filter to the top-level name too",
      (CL, "    if conn.modules.os.path.isdir(remotepath):\n        download_dir(conn, remotepath, localpath, filter, chunk_size)",
           "    if filter and not ignore_invalid and not filter(os.path.basename(remotepath)):\n        return\n"
           "    if conn.modules.os.path.isdir(remotepath):\n        download_dir(conn, remotepath, localpath, filter, chunk_size)")),
]

"""Hand-made breaks for C18 (registry). Same format as mutants.py: edits = [(file, old, new)], old occurring exactly once.

The first group is phrased against text that exists both in the pinned tree and in the tree with the four C18 repairs
(non-text command, unregister notification, accepted-socket timeout, unanswered TCP sockets closed).  The second group
reverts those repairs and therefore only applies once they are committed in /repo; it is added only when its text is there.
"""
import os

R = "rpyc/utils/registry.py"
REPO = "/repo"


def M(id, props, what, *edits):
    return dict(id=id, props=props.split(","), what=what, edits=list(edits))


MUTANTS = [
    M("c18-prune-gt", "C18", "pruning comparison < -> > (live entries discarded, stale ones served)",
      (R, "            if t < oldest:", "            if t > oldest:")),
    M("c18-sort-key-dropped", "C18", "reply sorted by address, not by refresh time",
      (R, "sorted(self.services[name].items(), key=lambda x: x[1])", "sorted(self.services[name].items())")),
    M("c18-query-no-upper", "C18", "query no longer case-insensitive",
      (R, '        name = name.upper()\n        self.logger.debug("querying for %r", name)',
       '        self.logger.debug("querying for %r", name)')),
    M("c18-register-no-upper", "C18", "register keeps the alias as written",
      (R, "self._add_service(name.upper(), (host, port))", "self._add_service(name, (host, port))")),
    M("c18-decode-guard-removed", "C18", "undecodable datagram escapes the main loop",
      (R, "                magic, cmd, args = brine.load(data)\n            except Exception:",
       "                magic, cmd, args = brine.load(data)\n            except ZeroDivisionError:")),
    M("c18-magic-check-removed", "C18", "requests with a wrong magic are executed",
      (R, '            if magic != "RPYC":', '            if False:')),
    M("c18-added-on-keepalive", "C18", "'added' fired on every keepalive",
      (R, "        if is_new:\n", "        if True:\n")),
    M("c18-unregister-all-ports", "C18", "unregister removes every port of the host",
      (R, "        for name in list(self.services.keys()):\n            self._remove_service(name, (host, port))",
       "        for name in list(self.services.keys()):\n            for addr in [a for a in self.services[name] if a[0] == host]:\n"
       "                self._remove_service(name, addr)")),
    M("c18-udp-reply-wrong-address", "C18", "UDP reply sent to a neighbouring port",
      (R, "            self.sock.sendto(data, addrinfo)", "            self.sock.sendto(data, (addrinfo[0], addrinfo[1] ^ 1))")),
    M("c18-prune-silent", "C18", "stale entries hidden from the reply but never removed / notified",
      (R, "                self._remove_service(name, addrinfo)\n            else:", "                pass\n            else:")),
    M("c18-handler-error-kills-loop", "C18", "exception of a command handler escapes the main loop",
      (R, "            except Exception:\n                self.logger.exception('error executing function')",
       "            except ZeroDivisionError:\n                self.logger.exception('error executing function')")),
    M("c18-keepalive-no-refresh", "C18", "keepalive does not refresh the time stamp",
      (R, "        self.services[name][addrinfo] = time.time()\n        if is_new:",
       "        if is_new:\n            self.services[name][addrinfo] = time.time()\n        if is_new:")),
    M("c18-removed-twice", "C18", "'removed' fired twice per removal",
      (R, "            self.on_service_removed(name, addrinfo)\n",
       "            self.on_service_removed(name, addrinfo)\n            self.on_service_removed(name, addrinfo)\n")),
    M("c18-pruning-timeout-ignored", "C18", "configured pruning interval ignored (default used)",
      (R, "        oldest = time.time() - self.pruning_timeout", "        oldest = time.time() - DEFAULT_PRUNING_TIMEOUT")),
]

# reverts of the repairs: meaningful (and applicable) only on a tree that has them
AFTER_FIXES = [
    M("c18-revert-nontext-command", "C18", "non-text command kills the main loop again",
      (R, "            if isinstance(cmd, str):\n", "            if True:\n")),
    M("c18-revert-unregister-notify", "C18", "unregister notifies 'removed' for every service name again",
      (R, "        if addrinfo not in self.services[name]:\n            return\n        del self.services[name][addrinfo]",
       "        self.services[name].pop(addrinfo, None)")),
    M("c18-revert-accepted-timeout", "C18", "accepted TCP socket has no timeout again (silent client blocks the registry)",
      (R, "        sock2.settimeout(self.TIMEOUT)\n        try:\n            addrinfo", "        try:\n            addrinfo")),
    M("c18-revert-discard", "C18", "TCP sockets of unanswered requests are kept again",
      (R, "        self._connected_sockets.pop(addrinfo).close()", "        pass")),
]


def _applicable(m, repo=REPO):
    try:
        return all(open(os.path.join(repo, fn)).read().count(old) == 1 for fn, old, _ in m["edits"])
    except OSError:
        return False


MUTANTS += [m for m in AFTER_FIXES if _applicable(m)]

#!/venv/bin/python
"""Mutation self-test: apply each hand-made break (selftest/mutants.py) to a scratch copy of /repo's
working tree (outside /repo and /verif, removed afterwards), point the check at it with RPYC_VERIF_REPO and
require exit 1 with a VIOLATION line.   usage: selftest/run.py [ID-prefix ...] [-j N] [--tier quick]
Also runs seeded/<id>/patch.diff mutants with --seeded.
"""
import concurrent.futures
import glob
import json
import os
import shutil
import subprocess
import sys
import tempfile

HERE = os.path.dirname(os.path.abspath(__file__))
VERIF = os.path.dirname(HERE)
sys.path.insert(0, HERE)


def scratch_copy():
    d = tempfile.mkdtemp(prefix="rv_mut_", dir="/tmp")
    subprocess.check_call(["rsync", "-a", "--exclude", ".git", "--exclude", "__pycache__", "--exclude", "docs",
                           "/repo/", d + "/"])
    return d


def run_one(m, tier, seed=0):
    d = scratch_copy()
    try:
        if "patch" in m:
            r = subprocess.run(["patch", "-p1", "-s", "-d", d, "-i", m["patch"]], capture_output=True, text=True)
            if r.returncode:
                return m, "APPLY-FAILED", r.stdout + r.stderr
        else:
            for fn, old, new in m["edits"]:
                p = os.path.join(d, fn)
                s = open(p).read()
                if s.count(old) != 1:
                    return m, "APPLY-FAILED", "%s: %d occurrences of %r" % (fn, s.count(old), old)
                open(p, "w").write(s.replace(old, new))
        res = {}
        for prop in m["props"]:
            env = dict(os.environ, RPYC_VERIF_REPO=d, VERIF_SEED=str(seed), RV_EVIDENCE_DIR=os.path.join(d, "_ev"),
                       RV_REPLAY_DIR=os.path.join(d, "_rp"))
            try:
                r = subprocess.run([os.path.join(VERIF, "check"), prop, "--tier", tier], env=env, capture_output=True,
                                   text=True, timeout=400 if tier == 'quick' else 7200)
                out = r.stdout + r.stderr
                res[prop] = (r.returncode, [l for l in out.splitlines() if l.startswith(("violation", "INCONCLUSIVE p"))][:4],
                             out[-600:] if r.returncode not in (0, 1) else "")
            except subprocess.TimeoutExpired:
                res[prop] = (-9, ["TIMEOUT"], "")
        caught = any(rc == 1 for rc, _, _ in res.values())
        return m, "CAUGHT" if caught else "MISSED", res
    finally:
        shutil.rmtree(d, ignore_errors=True)


def main():
    args = sys.argv[1:]
    jobs, tier, seeded = 8, "quick", False
    sel = []
    while args:
        a = args.pop(0)
        if a == "-j":
            jobs = int(args.pop(0))
        elif a == "--tier":
            tier = args.pop(0)
        elif a == "--seeded":
            seeded = True
        else:
            sel.append(a)
    muts = []
    if seeded:
        for meta in sorted(glob.glob(os.path.join(VERIF, "seeded", "*", "meta.json"))):
            j = json.load(open(meta))
            muts.append(dict(id="seeded/" + os.path.basename(os.path.dirname(meta)), props=j["check_with"],
                             patch=os.path.join(os.path.dirname(meta), "patch.diff")))
    else:
        import importlib
        import mutants
        muts = list(mutants.MUTANTS)
        for extra in sorted(glob.glob(os.path.join(HERE, "mutants_*.py"))):
            muts += importlib.import_module(os.path.basename(extra)[:-3]).MUTANTS
    muts = [m for m in muts if m["props"] != ["EQUIVALENT"]]
    if sel:
        muts = [m for m in muts if any(m["id"].startswith(s) or s in m["props"] for s in sel)]
    missed = 0
    with concurrent.futures.ThreadPoolExecutor(jobs) as ex:
        for m, status, res in ex.map(lambda m: run_one(m, tier), muts):
            print("%-8s %-40s %s" % (status, m["id"], m.get("what", "")))
            if status != "CAUGHT":
                missed += 1
                print("         ", res)
            else:
                for prop, (rc, lines, tail) in res.items():
                    if rc == 1 and lines:
                        print("          %s: %s" % (prop, lines[0][:160]))
            sys.stdout.flush()
    print("%d mutants, %d not caught" % (len(muts), missed))
    sys.exit(1 if missed else 0)


if __name__ == "__main__":
    main()

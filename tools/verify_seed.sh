#!/bin/bash
# usage: tools/verify_seed.sh C11 [patchdir]
# Confirms a seeded change on a FRESH export of /repo's HEAD (outside /repo and /verif, removed afterwards):
# the demonstration passes without the change, fails with it, and the repository's test suite still passes with it
# (suite run in its own network namespace so that the fixed registry ports cannot collide with other runs).
ID=$1; OUT=${2:-/tmp/seed_out_$ID}
D=$(mktemp -d /tmp/seed_verify_XXXXXX)
git -C /repo archive HEAD | tar -x -C $D
cd $D
PYTHONPATH=$D timeout 300 /venv/bin/python $OUT/demo.py > $OUT/verify_demo_without.txt 2>&1; WO=$?
if ! patch -p1 -s -d $D < $OUT/patch.diff > $OUT/verify_apply.txt 2>&1; then echo "$ID APPLY-FAILED"; cat $OUT/verify_apply.txt; rm -rf $D; exit 9; fi
PYTHONPATH=$D timeout 300 /venv/bin/python $OUT/demo.py > $OUT/verify_demo_with.txt 2>&1; W=$?
unshare -n sh -c "ip link set lo up; ip route add default dev lo; cd $D && PYTHONPATH=$D timeout 1500 /venv/bin/python -m pytest -q -p no:cacheprovider --timeout=120 tests --deselect tests/test_gdb.py" > $OUT/verify_suite_with.txt 2>&1
SUMMARY=$(tail -1 $OUT/verify_suite_with.txt)
FAILED=$(grep "^FAILED" $OUT/verify_suite_with.txt | grep -v "test_ssl\|test_teleportation\|test_win32pipes\|test_gdb" | tr '\n' ' ')
echo "$ID demo_without=$WO demo_with=$W suite_with: $SUMMARY unexpected_failures: [$FAILED]" | tee $OUT/verify.txt
cd /; rm -rf $D

#!/venv/bin/python
"""Regenerates /verif/MANIFEST.json from the table below + the check modules that exist."""
import glob
import json
import os
import subprocess
import sys

HERE = os.path.dirname(os.path.dirname(os.path.abspath(__file__)))

META = {
    "C01": dict(cat="exploration", ref="§3 C01", technique="differential runtime monitoring: generated call-tree programs run split over two real Connections vs. a single-process twin; invocation counters",
                text="Held on the generated call trees (depth, fan-out, raise/catch placement, argument shapes) explored; differential against a local twin with per-node invocation counters. Sampling, not proof.",
                note="in-memory transport between two real Connection objects in one process; twin interpreter is the same Python function run locally"),
    "C02": dict(cat="exploration", ref="§3 C02", technique="lock-step differential monitor: every operation applied to a netref and to a local twin; results, exception classes and target snapshots compared after each step",
                text="Held on the generated operation sequences over the listed target kinds and configurations; every step compared with a local twin.",
                note="operands restricted to immutable values / target-side objects as the statement says; comparison of reference results by referent value"),
    "C03": dict(cat="exploration", ref="§3 C03", technique="runtime monitors at both ends of a real connection (type/identity/fingerprint probes) against an independent plain-immutable predicate; identity histories",
                text="Held on the generated values and send/echo/re-receive histories explored.",
                note="independent predicate plain_immutable() in lib/rv/refcodec.py is the trusted reference of 'immutable plain value'"),
    "C04": dict(cat="exploration", ref="§3 C04", technique="round-trip and decoder-fuzz oracle on the real brine module: bit-exact fingerprints, dumpable/dump agreement, audit-hook monitor during load",
                text="Held on all boundary classes of the wire forms plus seeded random values and hostile byte strings; the oracle is exact (bit-level fingerprint), the input space is sampled.",
                note="fingerprint() and plain_immutable() in lib/rv/refcodec.py; audit events observed through sys.addaudithook"),
    "C05": dict(cat="fault_enumeration", ref="§3 C05", technique="real Channel/SocketStream/PipeStream over a scripted fragmenting socket and real pipes/socketpairs; EOF/reset/EPIPE injected at every byte offset / send call of short sequences",
                text="Every cut offset of the short sequences and every fragment boundary is enumerated; sizes and fragmentation patterns beyond that are sampled.",
                note="FragSocket emulates the socket API under the real SocketStream; kernel behaviour of pipes/socketpairs is as on this host"),
    "C06": dict(cat="exploration", ref="§3 C06", technique="reference-policy monitor: every decision of the real request handlers compared with an independent policy function and with the effects recorded on canary objects; isolation histories",
                text="The decision table (switch settings x prefix x name class x object shape x operation) is swept through the real handlers (complete in the thorough tier); isolation is checked on sampled open/close histories.",
                note="reference policy written from the statement (lib/rv/models.py); canary objects record which attribute was really touched"),
    "C07": dict(cat="exploration", ref="§3 C07", technique="grammar fuzzer speaking well-framed protocol from an independent reference peer at a real default-config Connection - adaptive: it answers the victim's own questions about forged objects - with canary/secret-token/audit/ledger monitors and a state-based wedged-thread oracle",
                text="Held on the generated hostile sessions (all message kinds, handler ids, labels, forged/harvested ids, crafted exception payloads).",
                note="reference codec lib/rv/refcodec.py; audit hook + canary descriptors decide 'touched'; secrets searched in outgoing bytes"),
    "C08": dict(cat="exploration", ref="§3 C08", technique="offline checker over the recorded frame ledger (request/response bijection per seq) plus client-side token correlation, over generated request streams; plus several threads serving one connection under the controlled scheduler",
                text="Held on the generated request streams incl. unencodable results, undecodable arguments, failing handlers, nested and asynchronous requests.",
                note="frames re-parsed by the independent codec; in-memory transport"),
    "C09": dict(cat="exploration", ref="§3 C09", technique="runtime oracle over every built-in exception class x argument tuples x the four-switch matrix on real connections, with constructor/import canaries and wire scans",
                text="Every built-in exception class is enumerated; argument tuples, custom classes and hostile payloads are sampled.",
                note="expected args computed from the statement (plain -> same, else repr)"),
    "C10": dict(cat="exploration", ref="§3 C10", technique="reference accounting model + structural invariant checked at every quiescent point of generated histories under held (driver-controlled) message delivery; plus 2-3 threads serving the owner's side under the controlled scheduler with pre-emption inside the table of lent objects",
                text="Held on generated histories with driver-chosen delivery order, incl. systematic 'release notice crosses fresh reference' placements.",
                note="in-memory transport with held delivery; single driver thread (delivery orders, not thread races, are the quantifier)"),
    "C11": dict(cat="fault_enumeration", ref="§3 C11", technique="fault injection at every individual transport call (census run first) and byte offset, every close ordering; hook counters, closed flags, request outcomes and deadlock detector; plus the kernel's own end-of-stream on real pipes / socketpairs (peer vanishes; local close with a blocked thread), judged on state and poll counts",
                text="For each workload of the family every individual poll/read/write call of both sides is failed once (enumerated from a census run), plus byte-offset cuts and close orderings.",
                note="in-memory transport faults stand for socket/pipe errors (streams convert both to EOFError)"),
    "C12": dict(cat="exploration", ref="§3 C12", technique="controlled scheduler (baton threads + sys.monitoring LINE pre-emption) over the real Connection._send with a recording transport; systematic delay placement + seeded random schedules",
                text="Sampled and systematically delay-injected interleavings at source-line granularity; counts of distinct interleavings reported. Not exhaustive.",
                note="scheduler replaces the connection's lock objects by scheduler-aware ones with the same semantics"),
    "C13": dict(cat="exploration", ref="§3 C13", technique="controlled scheduler + scripted reference peer answering in any order; per-request token histories, dispatch ledger, invariant at every yield point, deadlock / lost-wake-up detector; complementary free-running real-thread stress with the same history oracle",
                text="Sampled interleavings (line granularity, instruction granularity in the sequence counter) of 2-3 client threads + optional background server.",
                note="as C12; liveness verdict excludes runs tainted by the known C14 stall"),
    "C14": dict(cat="exploration", ref="§3 C14", technique="virtual-time monitor: time the waiter returns vs. time its reply was dispatched, under controlled schedules around the hand-off",
                text="Sampled + single-delay-placement schedules; a genuine defect of the pinned tree is a listed known finding.",
                note="virtual clock advances only when no thread can run, so any gap is a real stall"),
    "C15": dict(cat="exploration", ref="§3 C15", technique="executable reference state machine stepped beside the real AsyncResult under a virtual clock over generated event lists; schedules with callbacks registered while another thread dispatches the reply",
                text="Held on generated event orderings incl. enumerated boundary lists around the expiry instant.",
                note="virtual clock substituted for the time module references of rpyc.lib / async_"),
    "C16": dict(cat="exploration", ref="§3 C16", technique="real servers in child processes under hostile byte-level clients beside scripted well-behaved clients with unique tokens and identities; delay injection (sys.monitoring LINE) in the per-client set-up and descriptor hand-over paths; state-at-quiescence samples; forking servers with a 64-entry descriptor table; the stock classic service behind the stock servers (namespace isolation)",
                text="Held on the sampled mixes of hostile and good clients for threaded, thread-pool and forking servers, with and without authenticator.",
                note="loopback sockets of this host; watchdogs only bound waiting for quiescence"),
    "C17": dict(cat="exploration", ref="§3 C17", technique="state-at-quiescence monitor over real servers: fd counts, client tables, hook counters, client-side EOF after close; delay injection inside close() and at the accept loop's exit; authenticator variants (token / another socket object / no time limit); deterministic reset-during-set-up scenario",
                text="Held on sampled connect/call/leave histories followed by close; listed known findings for genuine defects.",
                note="/proc/self/fd accounting after gc.collect() in the server process"),
    "C18": dict(cat="exploration", ref="§3 C18", technique="reference membership model under a virtual clock + real UDP/TCP registry loops under malformed inputs with liveness probe after each",
                text="Held on generated register/unregister/query/advance histories and the hostile datagram corpus.",
                note="lazy pruning: model requires absence from replies and one 'removed' by the first query that could have listed the entry"),
    "C19": dict(cat="exploration", ref="§3 C19", technique="independent reference codec + golden vectors compared byte-for-byte with the real encoder/Channel; conversations between a reference peer and a real Connection in both directions",
                text="All protocol constants and golden vectors are compared exactly; values, packet sizes and conversations are sampled.",
                note="trusted base: lib/rv/refcodec.py is the published 5.x format (cross-checked by the brine docstring vector)"),
    "C20": dict(cat="exploration", ref="§3 C20", technique="generated directory trees uploaded/downloaded over a real classic connection and compared byte-wise with a model tree (filter applied)",
                text="Held on generated trees with sizes at chunk boundaries for many chunk sizes, filters and both directions.",
                note="scratch directories on the local filesystem"),
}


def main():
    props = [json.loads(l) for l in open(os.path.join(HERE, "properties.jsonl"))]
    have = {os.path.basename(p)[:3].upper() for p in glob.glob(os.path.join(HERE, "checks", "c[0-9][0-9]_*.py"))}
    na_path = os.path.join(HERE, "tools", "not_applicable.json")
    na = json.load(open(na_path)) if os.path.exists(na_path) else {}
    checks, not_app = [], []
    for p in props:
        pid = p["id"]
        m = META[pid]
        if pid in have and pid not in na:
            checks.append(dict(
                property_id=pid,
                quick_cmd="./check %s --tier quick" % pid,
                thorough_cmd="./check %s --tier thorough" % pid,
                evidence_file="evidence/%s.json" % pid,
                replay_cmd_template="./check %s --replay {path}" % pid,
                engine="rv",
                level_claimed=dict(category=m["cat"], text=m["text"], design_ref=m["ref"]),
                level_note=m["note"],
                technique=m["technique"]))
        else:
            not_app.append(dict(property_id=pid, reason=na.get(pid, "check not built yet (work in progress; will be claimed once its monitor is silent on the unchanged tree)")))
    hooks_commits = []
    hp = os.path.join(HERE, "tools", "hook_commits.json")
    if os.path.exists(hp):
        hooks_commits = json.load(open(hp))
    man = dict(
        version=1,
        setup_cmd="/venv/bin/python -c \"import sys; sys.path.insert(0,'/repo'); import rpyc; print('rpyc', rpyc.__version__)\"",
        hooks=dict(guard="RPYC_VERIF", enable="no source hooks: monitors attach at seams rpyc already offers (Stream subclass, per-instance lock attributes, module-level time/spawn references, sys.monitoring, sys.addaudithook)",
                   baseline_off_cmd="cd /repo && /venv/bin/python -m pytest -ra -q -p no:cacheprovider --timeout=900 --continue-on-collection-errors",
                   source_commits=hooks_commits, add_only=True),
        engines=[dict(name="rv", path="lib/rv", serves_properties=sorted(have - set(na)),
                      kind_free_text="runtime monitoring: in-memory transports with ledger and fault plans, controlled scheduler with virtual time, independent reference codec/peer, canary recorders, real-socket drivers, reference models")],
        checks=checks,
        notes="All checks are runtime monitors over executions of the real rpyc modules imported from /repo's working tree. "
              "Exit codes: 0 held / only KNOWN-FINDING lines, 1 VIOLATION, 2 INCONCLUSIVE. See DESIGN.md.",
        not_applicable=not_app)
    with open(os.path.join(HERE, "MANIFEST.json"), "w") as f:
        json.dump(man, f, indent=1)
        f.write("\n")
    print("checks:", [c["property_id"] for c in checks])
    print("not_applicable:", [c["property_id"] for c in not_app])


if __name__ == "__main__":
    main()

#!/bin/bash
# usage: tools/replay_selftest.sh C07  -> replay of a recorded witness reproduces on the changed tree and not on the unchanged one
# for each property: apply its round-1 seeded change to a scratch copy, run the quick check, then replay the recorded witness
ID=$1
D=/tmp/rp_$ID; rm -rf $D; mkdir -p $D/repo
git -C /repo archive HEAD | tar -x -C $D/repo
patch -p1 -s -d $D/repo < /verif/seeded/$ID/patch.diff || { echo "$ID APPLY-FAILED"; exit; }
cd /verif
RPYC_VERIF_REPO=$D/repo RV_EVIDENCE_DIR=$D/ev RV_REPLAY_DIR=$D/rp timeout 1200 ./check $ID > $D/out.txt 2>&1
rc=$?
f=$(grep -o "replay=[^ ]*" $D/out.txt | head -1 | cut -d= -f2)
if [ -z "$f" ]; then echo "$ID rc=$rc no replay file"; rm -rf $D; exit; fi
RPYC_VERIF_REPO=$D/repo RV_EVIDENCE_DIR=$D/ev2 RV_REPLAY_DIR=$D/rp2 timeout 1200 ./check $ID --replay $f > $D/replay.txt 2>&1
rc2=$?
echo "$ID check_rc=$rc replay_rc=$rc2 $(grep REPLAY $D/replay.txt | tail -1)"
# and on the unchanged tree the same witness must not reproduce
timeout 1200 env RV_EVIDENCE_DIR=$D/ev3 RV_REPLAY_DIR=$D/rp3 ./check $ID --replay $f > $D/replay_clean.txt 2>&1
echo "$ID clean_replay_rc=$? $(grep REPLAY $D/replay_clean.txt | tail -1)"
rm -rf $D

#!/usr/bin/env python3
"""usage: tools/install_seed.py C01 b /tmp/seed2_out_C01 -> seeded/C01b/ (patch.diff, demo.py, notes.md, meta.json)"""
import json, os, shutil, sys
pid, suffix, src = sys.argv[1], sys.argv[2], sys.argv[3]
dst = "/verif/seeded/%s%s" % (pid, suffix)
os.makedirs(dst, exist_ok=True)
for f in ("patch.diff", "demo.py", "notes.md"):
    shutil.copy(os.path.join(src, f), os.path.join(dst, f))
ver = open(os.path.join(src, "verify.txt")).read().strip()
notes = open(os.path.join(src, "notes.md")).read()
meta = dict(property=pid, breaks=pid, needs_to_manifest="see notes.md (written by the author of the change)", check_with=[pid],
            author="independent sub-agent (round %s) that was given only the property text, short notes about the earlier changes to avoid, and a scratch worktree (nothing from /verif)" % os.environ.get("SEED_ROUND", "?"),
            confirmed_by_me=dict(command="tools/verify_seed.sh %s %s (fresh export of /repo HEAD outside /repo and /verif; demo without / with the change; repository suite with the change inside its own network namespace)" % (pid, src), result=ver),
            detected_by=None)
json.dump(meta, open(os.path.join(dst, "meta.json"), "w"), indent=1)
print("installed", dst)

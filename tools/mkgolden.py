#!/venv/bin/python
"""One-off: freeze (expression, hex) golden vectors from the reference encoder. Re-running must be a no-op
(the check compares refcodec against the frozen file, so accidental edits of refcodec are noticed)."""
import json, os, random, struct, sys
HERE = os.path.dirname(os.path.dirname(os.path.abspath(__file__)))
sys.path.insert(0, os.path.join(HERE, "lib"))
from rv import refcodec

def F(bits):
    return struct.unpack(">d", struct.pack(">Q", bits))[0]

NS = dict(frozenset=frozenset, slice=slice, Ellipsis=Ellipsis, NotImplemented=NotImplemented, F=F, complex=complex)

def expr(v):
    t = type(v)
    if t is float:
        return "F(0x%016x)" % struct.unpack(">Q", struct.pack(">d", v))[0]
    if t is complex:
        return "complex(%s, %s)" % (expr(v.real), expr(v.imag))
    if t is tuple:
        return "(" + "".join(expr(x) + ", " for x in v) + ")"
    if t is frozenset:
        return "frozenset([" + ", ".join(expr(x) for x in sorted(v, key=repr)) + "])"
    if t is slice:
        return "slice(%s, %s, %s)" % (expr(v.start), expr(v.stop), expr(v.step))
    if v is Ellipsis: return "Ellipsis"
    if v is NotImplemented: return "NotImplemented"
    return repr(v)

def main():
    rng = random.Random(20260925)
    vals = [None, True, False, NotImplemented, Ellipsis, (), b"", "", -49, -48, -1, 0, 159, 160, 255, 256, 2**64, -2**64-1,
            10**254, 10**255, -(10**254), 0.0, -0.0, 18.2, F(0x7ff8000000000001), F(0xfff0000000000000), 13+18.2j,
            "a", "ab", "abc", "abcd", "abcde", "é", "€", "中", "\U0001d11e", "x"*255, "x"*256, b"\x00", b"ab", b"abc", b"abcd",
            b"abcde", bytes(range(255)), bytes(256), (1,), (1,2), (1,2,3), (1,2,3,4), (1,2,3,4,5), tuple(range(255)),
            tuple(range(256)), slice(1,2,3), slice(None), frozenset([5]), frozenset(), ((),((),)), (None,(True,(1.5,("x",(b"y",))))),
            ("he", 7, "llo", 8, (), 900, None, True, Ellipsis, 18.2, 18.2j + 13, slice(1, 2, 3), frozenset([5]), NotImplemented),
            (1, 0, (3, (1, ()))), (2, 17, (4, ("builtins.list", 94, 139))), (1, 5, (8, (2, ((3, ("m.C", 1, 2)), (1, "add"), (1, (2, 3)), (1, (("k", 1),)))))),
            (3, 9, (("builtins", "ValueError"), ("x",), (("_remote_version", "5.0.1"),), "tb")), (3, 4, 1)]
    from rv import gen
    while len(vals) < 220:
        v = gen.gen_plain(rng, surrogates=False)
        if type(v) is frozenset and len(v) > 1:
            continue   # iteration order of multi-element frozensets is not part of the format
        if "frozenset" in repr(v) and any(len(x) > 1 for x in _fsets(v)):
            continue
        vals.append(v)
    out = []
    for v in vals:
        e = expr(v)
        back = eval(e, dict(NS))
        assert refcodec.fingerprint(back) == refcodec.fingerprint(v), e
        out.append([e, refcodec.encode(v).hex()])
    path = os.path.join(HERE, "golden", "brine_vectors.json")
    if os.path.exists(path) and "--force" not in sys.argv:
        old = json.load(open(path))
        assert old == out, "golden vectors would change; refusing (use --force)"
        print("unchanged", len(out))
        return
    json.dump(out, open(path, "w"), indent=0)
    print("wrote", len(out))

def _fsets(v):
    if type(v) is frozenset:
        yield v
        for x in v: yield from _fsets(x)
    elif type(v) is tuple:
        for x in v: yield from _fsets(x)
    elif type(v) is slice:
        for x in (v.start, v.stop, v.step): yield from _fsets(x)

if __name__ == "__main__":
    main()

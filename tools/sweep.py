#!/venv/bin/python
"""run every claimed check for several seeds (quick tier) into scratch evidence dirs; print anything that is not OK"""
import concurrent.futures, json, os, subprocess, sys, tempfile, shutil
HERE = os.path.dirname(os.path.dirname(os.path.abspath(__file__)))
man = json.load(open(os.path.join(HERE, "MANIFEST.json")))
props = [c["property_id"] for c in man["checks"]]
args = sys.argv[1:]
tier = "quick"
if "--tier" in args:
    tier = args[args.index("--tier") + 1]; del args[args.index("--tier"):args.index("--tier") + 2]
seeds = range(int(args[0]), int(args[1])) if len(args) >= 2 else range(10)
only = args[2:] or props
jobs = [(p, s) for p in props if p in only for s in seeds]
tmp = tempfile.mkdtemp(prefix="rv_sweep_")
def run(job):
    p, s = job
    env = dict(os.environ, VERIF_SEED=str(s), RV_EVIDENCE_DIR=os.path.join(tmp, "ev%s_%d" % (p, s)), RV_REPLAY_DIR=os.path.join(tmp, "rp"))
    try:
        r = subprocess.run([os.path.join(HERE, "check"), p, "--tier", tier], env=env, capture_output=True, text=True, timeout=3000 if tier == "quick" else 20000)
        tail = [l for l in (r.stdout + r.stderr).splitlines() if not l.startswith("KNOWN-FINDING")][-3:]
        return p, s, r.returncode, tail
    except subprocess.TimeoutExpired:
        return p, s, -9, ["TIMEOUT"]
bad = 0
with concurrent.futures.ThreadPoolExecutor(int(os.environ.get("SWEEP_JOBS", "6"))) as ex:
    for p, s, rc, tail in ex.map(run, jobs):
        if rc != 0:
            bad += 1
            print("NOT-OK %s seed=%d exit=%s\n   %s" % (p, s, rc, "\n   ".join(l[:300] for l in tail)), flush=True)
        else:
            print("ok %s seed=%d %s" % (p, s, tail[-1][tail[-1].find("wall="):][:12] if tail else ""), flush=True)
shutil.rmtree(tmp, ignore_errors=True)
print("sweep done: %d jobs, %d not ok" % (len(jobs), bad))
sys.exit(1 if bad else 0)

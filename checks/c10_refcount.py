"""C10 - objects lent to the peer live exactly as long as the peer holds them.

Held-delivery monitor: two real Connections joined by an in-memory link whose frames move only when the single
driver says so.  The driver picks every step of a history from {lend object k again (alone / twice in one tuple /
nested; as argument or as result), drop one reference at the peer, hand a proxy back, deliver+serve the next frame
in either direction, use a proxy, close}.  At every quiescent point (nothing in flight, nothing unserved) the
structural invariant is checked on the owner's table of lent objects against what the peer really holds
(weak references verify that the harness itself holds nothing).
"""
import gc
import weakref

from rv import refcodec as rc, vnet

PROPERTY = "C10"
LEVEL = "exploration"
RULE = ("seeded histories of <= 60 steps over 3-4 owner-side objects (list / dict / bytearray / function: proxy classes that "
        "need no nested INSPECT) under held delivery, plus a systematically enumerated family in which a release notice "
        "crosses a fresh reference in flight in both delivery orders. distinct = (step sequence incl. delivery choices); "
        "non-trivial = the history contains at least one drop while a message is in flight the other way")
ASSUMPTIONS = ["histories: single driver thread, the quantifier is over delivery orders; thread races inside the owner are explored by the "
               "separate owner-threads runs (2-3 threads serving the owner's side under the controlled scheduler, pre-emption inside "
               "RefCountingColl.add/decref/__getitem__ and Connection._box, release notice and re-lending request sent back to back)",
               "quiescence = no bytes in flight, no unread bytes, every issued request answered",
               "the harness keeps proxies only in explicit containers and verifies with weak references that it holds nothing else"]
SHARDS = {"quick": 1, "thorough": 16}
MIN_DISTINCT = {"quick": 400, "thorough": 40000}


class Lendable(object):
    """a user class: receiving a reference to an instance makes the receiver ask the owner for the class's methods (INSPECT)"""

    def __init__(self, tag):
        self.tag = tag

    def __len__(self):
        return 3


class PumpWaiter(object):
    """held delivery, single driver - but when a side blocks inside a nested synchronous exchange (the INSPECT that creating a
    proxy of a user class needs) the other side is served until that exchange completes. Everything else stays under the
    driver's control."""

    def __init__(self):
        self.net = None
        self.conns = None
        self.pumped = 0

    def wait(self, pred, timeout, what=None):
        if pred():
            return True
        if timeout is not None and timeout <= 0:
            return False
        me = what[1] if what else None
        other_dir, my_dir = ("A->B", "B->A") if me == "A" else ("B->A", "A->B")
        other = self.conns["B" if me == "A" else "A"]
        for _ in range(200):
            moved = False
            if self.net.deliver_frame(other_dir):
                other.serve(0)
                moved = True
                self.pumped += 1
            if self.net.deliver_frame(my_dir):
                moved = True
            if pred():
                return True
            if not moved:
                break
        raise vnet.Stalled("blocking wait (%r) that pumping the peer cannot satisfy" % (what,))

    def notify(self):
        pass

    def yield_point(self, what=None):
        pass


def make_object(kind, tag):
    if kind == 4:
        return Lendable(tag)
    if kind == 5:
        # a class object made at run time (factories, dynamically built record types): lent and released like anything else
        return type("Fresh_" + tag, (object,), {"tag": tag})
    if kind == 0:
        return [tag]
    if kind == 1:
        return {"tag": tag}
    if kind == 2:
        return bytearray(b"abc")
    f = lambda: tag      # noqa: E731
    return f


class World(object):
    """both peers + the driver's bookkeeping"""

    def __init__(self, nobj, kinds):
        import rpyc
        from rpyc.core import consts
        self.consts = consts
        pump = PumpWaiter() if (4 in kinds or 5 in kinds) else None
        self.net, self.a, self.b = vnet.make_pair(rpyc.VoidService(), rpyc.VoidService(), held=True, waiter=pump)
        if pump is not None:
            pump.net, pump.conns = self.net, {"A": self.a, "B": self.b}
        self.pump = pump
        self.objs = [make_object(kinds[i], "obj%d" % i) for i in range(nobj)]        # owned by A
        self.wr = [weakref.ref(o) if not isinstance(o, (list, dict, bytearray)) else None for o in self.objs]
        self.idp = [None] * nobj
        self.slots = {}          # at B: slot -> proxy or tuple of proxies
        self.a_slots = {}        # at A: what came back (must be the originals)
        self.errors = []
        # functions the peers call on each other (function proxies need no INSPECT)
        slots, a_slots, objs = self.slots, self.a_slots, self.objs

        def hold(slot, x):
            slots[slot] = x

        def take(k, form):
            return shape(objs, k, form)

        def back(slot, x):
            a_slots[slot] = x
        self.hold_p = self.a._unbox(self.b._box(hold))           # A's proxy of B's hold()
        self.take_p = self.b._unbox(self.a._box(take))           # B's proxy of A's take()
        self.back_p = self.b._unbox(self.a._box(back))           # B's proxy of A's back()
        self.fn_refs = (hold, take, back)
        self.outstanding = []     # AsyncResults not yet ready (kept so that their callbacks run)

    # ---- primitive steps
    def lend_as_argument(self, k, form, slot):
        ar = self.a.async_request(self.consts.HANDLE_CALL, self.hold_p, (slot, shape(self.objs, k, form)), ())
        self.outstanding.append(ar)

    def lend_as_result(self, k, form, slot):
        slots = self.slots
        ar = self.b.async_request(self.consts.HANDLE_CALL, self.take_p, (k, form), ())

        def done(res, slot=slot):
            try:
                slots[slot] = res.value
            except Exception as e:
                self.errors.append(("take failed", repr(e)))
        ar.add_callback(done)
        self.outstanding.append(ar)

    def lend_as_result_expired(self, k, form):
        """the requester gives up at once (expiry 0): the late reply carries references nobody will ever look at"""
        ar = self.b.async_request(self.consts.HANDLE_CALL, self.take_p, (k, form), ())
        ar.set_expiry(0)
        self.outstanding.append(ar)

    def drop(self, slot):
        self.slots.pop(slot, None)

    def hand_back(self, slot):
        if slot in self.slots:
            ar = self.b.async_request(self.consts.HANDLE_CALL, self.back_p, (slot, self.slots[slot]), ())
            self.outstanding.append(ar)

    def deliver(self, direction):
        """move one frame and let the receiver serve it; returns True if something moved"""
        if not self.net.deliver_frame(direction):
            return False
        conn = self.b if direction == "A->B" else self.a
        try:
            conn.serve(0)
        except Exception as e:
            self.errors.append(("serve raised", repr(e)))
        self.outstanding = [ar for ar in self.outstanding if not ar._is_ready and not ar.expired]
        return True

    def in_flight(self):
        return self.net.frames_in_flight("A->B") + self.net.frames_in_flight("B->A")

    def quiesce(self, rng=None):
        n = 0
        while self.in_flight() and n < 10000:
            dirs = [d for d in ("A->B", "B->A") if self.net.frames_in_flight(d)]
            self.deliver(rng.choice(dirs) if rng else dirs[0])
            n += 1
        return n < 10000

    # ---- observation
    def held_ids(self):
        """id packs of A's objects for which B holds at least one live proxy"""
        out = set()

        def walk(x):
            if type(x) is tuple:
                for i in x:
                    walk(i)
            elif is_netref(x):
                out.add(tuple(object.__getattribute__(x, "____id_pack__")))
        for v in self.slots.values():
            walk(v)
        return out

    def table_ids(self):
        own = set()
        from rpyc.lib import get_id_pack
        mine = {get_id_pack(o): i for i, o in enumerate(self.objs)}
        for key in list(self.a._local_objects._dict.keys()):
            if key in mine:
                own.add(key)
        return own, mine


def is_netref(x):
    import rpyc
    return isinstance(x, rpyc.BaseNetref)


def shape(objs, k, form):
    o = objs[k]
    if form == "alone":
        return o
    if form == "twice":
        return (o, o)
    if form == "nested":
        return (1, (o, "x", (o,)), o)
    if form == "with_other":
        return (o, objs[(k + 1) % len(objs)])
    raise AssertionError(form)


FORMS = ["alone", "alone", "twice", "nested", "with_other"]


def check_quiescent(ctx, w, steps, where):
    """the structural invariant; returns list of (key, what)"""
    bad = []
    held = w.held_ids()
    table, mine = w.table_ids()
    for key in table - held:
        bad.append(("leak", "object %d is still referenced by the owner's connection although the peer holds no proxy (%s)" % (mine[key], where)))
    for key in held - table:
        bad.append(("premature-release", "the peer holds a live proxy but the owner's connection no longer references the object (%s)" % where))
    # originals handed back
    for slot, x in list(w.a_slots.items()):
        flat = []

        def walk(v):
            if type(v) is tuple:
                for i in v:
                    walk(i)
            else:
                flat.append(v)
        walk(x)
        for v in flat:
            if not rc.plain_immutable(v) and not any(v is o for o in w.objs):
                bad.append(("handed-back-not-original", "a proxy handed back to the owner arrived as %s" % type(v).__name__))
    w.a_slots.clear()
    for e in w.errors:
        bad.append(("step-failed", "%s: %s" % e))
    del w.errors[:]
    ctx.count("quiescent_points_checked")
    return bad


def use_proxies(ctx, w, rng):
    """every live proxy must still work: len() through an asynchronous request, pumped to completion"""
    bad = []
    results = []
    for slot, v in list(w.slots.items()):
        flat = []

        def walk(x):
            if type(x) is tuple:
                for i in x:
                    walk(i)
            elif is_netref(x):
                flat.append(x)
        walk(v)
        for p in flat[:1]:
            idp = tuple(object.__getattribute__(p, "____id_pack__"))
            if idp[0] in ("builtins.list", "builtins.dict", "builtins.bytearray") or idp[0].endswith(".Lendable"):
                ar = w.b.async_request(w.consts.HANDLE_CALLATTR, p, "__len__", (), ())
                results.append((slot, ar))
        del flat
    w.quiesce(rng)
    for slot, ar in results:
        if not ar._is_ready:
            bad.append(("use-never-answered", "using a live proxy got no answer"))
        elif ar._is_exc:
            bad.append(("use-failed", "using a live proxy failed: %r" % (ar._obj,)))
        ctx.count("proxy_uses")
    del results
    return bad


def run_history(ctx, rng, idx, script=None):
    nobj = rng.randrange(3, 5)
    kinds = [rng.randrange(4) for _ in range(nobj)]
    if script is None and idx % 3 == 0:
        kinds[rng.randrange(nobj)] = 4          # a user-class instance: unboxing it needs a nested INSPECT exchange
    if script is None and idx % 3 == 1:
        kinds[rng.randrange(nobj)] = 5          # a class object (its proxy class is asked for as well)
        ctx.count("histories_with_class_objects")
    gc.disable()
    w = World(nobj, kinds)
    steps = []
    bad = []
    crossings = 0
    try:
        nsteps = rng.randrange(8, 61) if script is None else len(script)
        for s in range(nsteps):
            if script is not None:
                st = script[s]
            else:
                op = rng.choice(["lend_arg", "lend_arg", "lend_res", "lend_res_expired", "drop", "drop", "deliver_ab", "deliver_ba", "deliver_ab",
                                 "deliver_ba", "back", "quiesce", "use"])
                st = (op, rng.randrange(nobj), rng.choice(FORMS), rng.randrange(5))
            op, k, form, slot = st
            steps.append(st)
            if op == "lend_arg":
                w.lend_as_argument(k, form, slot)
            elif op == "lend_res":
                w.lend_as_result(k, form, slot)
            elif op == "lend_res_expired":
                w.lend_as_result_expired(k, form)
            elif op == "drop":
                other = "A->B"
                if slot in w.slots and w.net.frames_in_flight(other):
                    crossings += 1
                w.drop(slot)
            elif op == "back":
                w.hand_back(slot)
            elif op == "deliver_ab":
                w.deliver("A->B")
            elif op == "deliver_ba":
                w.deliver("B->A")
            elif op == "quiesce":
                w.quiesce(rng)
                bad += check_quiescent(ctx, w, steps, "mid-history")
            elif op == "use":
                w.quiesce(rng)
                bad += use_proxies(ctx, w, rng)
                bad += check_quiescent(ctx, w, steps, "after use")
            if bad:
                break
        if not bad:
            w.quiesce(rng)
            bad += check_quiescent(ctx, w, steps, "end of history")
            bad += use_proxies(ctx, w, rng)
        if not bad:
            # the peer drops everything: after the release notices are processed nothing may be left
            w.slots.clear()
            w.quiesce(rng)
            bad += check_quiescent(ctx, w, steps, "after dropping everything")
            table, mine = w.table_ids()
            if table:
                bad.append(("leak-after-drop-all", "objects %r still in the owner's table after the peer dropped every proxy" % (sorted(mine[k] for k in table),)))
        if not bad and rng.random() < .5:
            # close with references still held: everything must be released
            w.lend_as_argument(0, "twice", 0)
            w.quiesce(rng)
            if rng.random() < .5:
                # a close that fails half-way: sending the close request fails with something that is not an end-of-stream (the default
                # configuration reports it to the caller) - the connection is closed all the same and holds nothing
                class FailingWrite(object):
                    def __init__(self, inner):
                        self._inner = inner

                    def write(self, data):
                        raise OSError(5, "Input/output error (injected into the write of the close request)")

                    def __getattr__(self, name):
                        return getattr(self._inner, name)
                w.a._channel.stream = FailingWrite(w.a._channel.stream)
                try:
                    w.a.close()
                    bad.append(("close-swallowed-hook-error", "close() did not report the failure to send the close request"))
                except EOFError:
                    pass
                except Exception:
                    ctx.count("closes_that_failed_half_way")
                if not w.a.closed:
                    bad.append(("close-failed-not-closed", "after a close() that failed half-way the connection does not report closed"))
            else:
                w.a.close()
            w.quiesce(rng)
            if w.a._local_objects._dict:
                bad.append(("close-keeps-objects", "closing the connection left %d entries in the table of lent objects" % len(w.a._local_objects._dict)))
            ctx.count("closes_checked")
    except Exception as e:
        bad.append(("history-aborted/%s" % type(e).__name__, "history aborted: %r" % (e,)))
    finally:
        w.slots.clear()
        w.outstanding = []
        try:
            w.a.close()
            w.b.close()
        except Exception:
            pass
        gc.enable()
    for key, what in bad:
        ctx.violation("C10/" + key, what, dict(steps=[list(s) for s in steps], kinds=kinds))
    ctx.count("crossings", crossings)
    if w.pump is not None:
        ctx.count("histories_with_user_class_instances")
        ctx.count("nested_inspect_frames_pumped", w.pump.pumped)
    ctx.count("history_steps", len(steps))
    ctx.case(("hist", tuple(steps)), nontrivial=crossings > 0 or script is not None)
    return steps


def owner_threads_run(ctx, seed, policy, p_switch, del_first, nthreads):
    """several threads serve the OWNER's side (serve_threaded style) under the controlled scheduler, with pre-emption inside the
    table of lent objects: one thread lends the object again (the reply of give()) while another processes the notice by which
    the peer releases its so far only proxy. Whatever the interleaving, the object must still be referenced by the owner's
    connection while the peer holds the fresh proxy, and must be released once that one is dropped too."""
    import rpyc
    from rpyc.core.channel import Channel
    from rpyc.core.protocol import Connection
    from rpyc.lib.colls import RefCountingColl
    from rpyc.lib import get_id_pack
    from rv import vsched
    shared = ["the lent list"]

    class Owner(rpyc.Service):
        def exposed_give(self):
            return shared
    sched = vsched.Sched(seed=seed, policy=policy, p_switch=p_switch, max_steps=150000)
    net = vnet.Net(waiter=vsched.SchedWaiter(sched))
    b = Owner()._connect(Channel(net.b), {"sync_request_timeout": 30})
    a = rpyc.VoidService()._connect(Channel(net.a), {"sync_request_timeout": 30})
    vsched.simulate_connection(a, sched, "A")
    vsched.simulate_connection(b, sched, "B", tables=True)
    key = get_id_pack(shared)
    state = dict(done=False, releases=0, phase=None)
    out = {}
    table = b._local_objects
    orig_decref = RefCountingColl.decref

    def counted_decref(self, k, count=1):
        try:
            return orig_decref(self, k, count)
        finally:
            if self is table and k == key:
                state["releases"] += 1

    def server():
        try:
            while not state["done"] and not b.closed:
                b.serve(0.5)
        except EOFError:
            pass

    def client():
        try:
            give = a.root.give
            p = give()
            agive = rpyc.async_(give)
            if del_first:
                del p                    # the release notice leaves first, the request that lends the object again right behind it
                ar = agive()
            else:
                ar = agive()
                del p
            ar.set_expiry(30)
            try:
                p2 = ar.value
            except Exception as e:
                out["second_lend_failed"] = "%s: %s" % (type(e).__name__, str(e)[:120])
                return
            sched.block(lambda: state["releases"] >= 1, 30, ("wait-release-1",))
            out["after_first_release"] = (state["releases"], key in table._dict)
            try:
                out["use"] = list(p2)
            except Exception as e:
                out["use"] = "%s: %s" % (type(e).__name__, str(e)[:120])
            del p2, ar
            sched.block(lambda: state["releases"] >= 2, 30, ("wait-release-2",))
            out["after_second_release"] = (state["releases"], key in table._dict)
        finally:
            state["done"] = True
    codes = sched.instrument([RefCountingColl.add.__code__, orig_decref.__code__, RefCountingColl.__getitem__.__code__,
                              Connection._box.__code__])
    RefCountingColl.decref = counted_decref
    try:
        with vsched.patched_time(sched, spawn=False):
            sched.spawn(client, name="client")
            for k in range(nthreads):
                sched.spawn(server, name="srv%d" % k)
            ok = sched.run(watchdog=40)
    finally:
        vsched.Sched.uninstrument(codes)
        RefCountingColl.decref = orig_decref
    ctx.case(("owner-threads", del_first, nthreads, sched.trace_hash()), nontrivial=sched.preemptions > 0)
    ctx.count("owner_thread_runs")
    wit = dict(mode="owner-threads", seed=list(seed), policy=policy, p_switch=p_switch, del_first=del_first, nthreads=nthreads)
    try:
        if not ok:
            ctx.inconclusive("wall-clock watchdog in an owner-threads run")
            return
        if sched.deadlock or sched.aborting:
            ctx.violation("C10/owner-threads/stuck", "run did not complete: %r" % (sched.deadlock or sched.abort_reason,), wit)
            return
        for t in sched.tasks:
            if t.exc is not None:
                ctx.violation("C10/owner-threads/task-raised/%s" % type(t.exc).__name__, "task %s raised %r" % (t.name, t.exc), wit)
        if "second_lend_failed" in out:
            ctx.violation("C10/owner-threads/second-lend-failed", "receiving the object again failed: %s" % out["second_lend_failed"], wit)
            return
        rel, present = out.get("after_first_release", (0, None))
        if rel >= 1 and present is False:
            ctx.violation("C10/owner-threads/premature-release", "the peer holds a live proxy (received while its first one was being released) "
                          "but the owner's connection no longer references the object", wit)
        elif rel >= 1:
            ctx.count("owner_thread_runs_judged_while_held")
        if out.get("use") != list(shared) and "use" in out:
            ctx.violation("C10/owner-threads/use-failed", "using the fresh proxy gave %r" % (out["use"],), wit)
        rel2, present2 = out.get("after_second_release", (0, None))
        if rel2 >= 2 and present2:
            ctx.violation("C10/owner-threads/leak", "the peer released every proxy, the owner's connection still references the object", wit)
        elif rel2 >= 2:
            ctx.count("owner_thread_runs_judged_after_release")
    finally:
        state["done"] = True
        for c in (a, b):
            try:
                c.close()
            except BaseException:
                pass


def crossing_family():
    """a release notice crosses a fresh reference in flight: every small variant, both delivery orders"""
    out = []
    for n_first in (1, 2, 3):
        for f1 in ("alone", "twice"):
            for f2 in ("alone", "twice", "nested"):
                for order in ("del_first", "ref_first", "interleaved"):
                    for drop_again in (False, True):
                        s = []
                        for i in range(n_first):
                            s.append(("lend_arg", 0, f1, i))
                            s.append(("deliver_ab", 0, "alone", 0))
                            s.append(("deliver_ba", 0, "alone", 0))
                        for i in range(n_first):
                            s.append(("drop", 0, "alone", i))         # release notices now in flight B->A
                        s.append(("lend_arg", 0, f2, 4))              # fresh reference in flight A->B
                        if order == "del_first":
                            s += [("deliver_ba", 0, "alone", 0)] * n_first + [("deliver_ab", 0, "alone", 0)]
                        elif order == "ref_first":
                            s += [("deliver_ab", 0, "alone", 0)] + [("deliver_ba", 0, "alone", 0)] * n_first
                        else:
                            s += [("deliver_ba", 0, "alone", 0), ("deliver_ab", 0, "alone", 0)] + [("deliver_ba", 0, "alone", 0)] * n_first
                        s.append(("use", 0, "alone", 0))
                        if drop_again:
                            s += [("drop", 0, "alone", 4), ("quiesce", 0, "alone", 0), ("lend_res", 0, f1, 2), ("use", 0, "alone", 0)]
                        out.append(s)
    return out


def run(ctx):
    rng = ctx.rng
    if ctx.shard[0] == 0:
        fam = crossing_family()
        for i, script in enumerate(fam):
            run_history(ctx, rng, -1 - i, script)
            if ctx.enough():
                return
        ctx.count("systematic_crossing_scripts", len(fam))
    for i in range(ctx.budget(300, 60000)):
        owner_threads_run(ctx, (ctx.seed, ctx.shard[0], i), "random" if i % 3 else "pct", rng.choice([0.1, 0.3, 0.6]), bool(i % 2), rng.choice([2, 2, 3]))
        if ctx.enough():
            return
    if not ctx.counters["owner_thread_runs_judged_while_held"]:
        ctx.inconclusive("no owner-threads run reached the point where the peer holds the fresh proxy after the first release")
    for i in range(ctx.budget(1500, 2000000)):
        steps = run_history(ctx, rng, i)
        if i < 2:
            ctx.sample({"history": [list(s) for s in steps]})
        if ctx.enough():
            break
    if not ctx.counters["crossings"]:
        ctx.inconclusive("no release notice ever crossed traffic in flight")


def replay(ctx, wit):
    w = wit.get("witness", wit)
    if isinstance(w, dict) and w.get("mode") == "owner-threads":
        owner_threads_run(ctx, tuple(w["seed"]), w["policy"], w["p_switch"], w["del_first"], w["nthreads"])
        return
    import random
    steps = [tuple(s) for s in wit["witness"]["steps"]]
    run_history(ctx, random.Random(0), 0, steps)

"""C04 - the value serializer is lossless and exact about what it accepts.

Oracle (observing the real rpyc.core.brine):
  encode side   dumpable(v) -> dump(v) must succeed and fingerprint(load(dump(v))) == fingerprint(v)
                not dumpable(v) -> dump(v) must raise TypeError
  decode side   load(bytes) either raises an Exception or returns a plain immutable value (exact types,
                recursively); no import / exec / compile / pickle audit event while decoding.
"""
from rv import canary, gen, refcodec
from rv.verdict import h

PROPERTY = "C04"
LEVEL = "exploration"
RULE = ("encode side: boundary list (every length class that selects a wire form, immediate-int edges, 255/256-digit "
        "ints, the interpreter's int-text limit, NaN payloads, signed zeros, all Unicode planes, lone surrogates, "
        "depth-150 nesting) + seeded random plain values + the non-serializable zoo (atoms and plain containers "
        "holding one); decode side: random bytes, mutated/truncated/spliced valid encodings, adversarial grammar. "
        "distinct = distinct bit-exact fingerprint (encode side) or distinct byte string (decode side); "
        "non-trivial = not a bare singleton / not the empty string")
ASSUMPTIONS = ["integers longer than sys.get_int_max_str_digits() digits and nesting deeper than ~150 levels are "
               "interpreter resource limits and are not generated",
               "type exactness is judged by type() at every node; floats/complex by their IEEE-754 bytes"]
SHARDS = {"quick": 1, "thorough": 16}
MIN_DISTINCT = {"quick": 5000, "thorough": 200000}


def _classify_exc(e):
    return type(e).__name__


def check_encode(ctx, brine, v, origin):
    fp = refcodec.fingerprint(v)
    try:
        declared = brine.dumpable(v)
    except RecursionError:
        ctx.count("skipped_recursion")
        return
    trivial = v is None or v is True or v is False or v == () and type(v) is tuple
    ctx.case(("enc", fp) if not trivial else None, nontrivial=not trivial)
    if declared:
        ctx.count("declared_serializable")
        try:
            data = brine.dump(v)
        except Exception as e:
            ctx.violation("C04/dumpable-but-dump-raises/%s/%s" % (type(v).__name__ if not _has_surrogate(v) else "text-with-lone-surrogate", _classify_exc(e)),
                          "dumpable(v) is True but dump(v) raised %s" % type(e).__name__,
                          dict(origin=origin, value=repr(v)[:300], error=repr(e)[:300]))
            return
        try:
            back = brine.load(data)
        except Exception as e:
            ctx.violation("C04/load-of-own-dump-raises/%s" % _classify_exc(e),
                          "load(dump(v)) raised", dict(origin=origin, value=repr(v)[:300], data=data[:200], error=repr(e)))
            return
        if refcodec.fingerprint(back) != fp:
            ctx.violation("C04/roundtrip-differs/%s" % type(v).__name__,
                          "load(dump(v)) differs from v in type, structure or bits",
                          dict(origin=origin, value=repr(v)[:300], back=repr(back)[:300], data=data[:200]))
        ctx.count("roundtrips_exact")
        if not refcodec.plain_immutable(v):
            ctx.count("nonplain_declared_serializable")
    else:
        ctx.count("declared_unserializable")
        try:
            brine.dump(v)
        except TypeError:
            ctx.count("refused_with_TypeError")
            # a refusal must leave nothing behind: the very next encoding in this process is as exact as any other
            probe = ("after-refusal", len(origin), (origin, None, -0.0))
            try:
                back = brine.load(brine.dump(probe))
                if refcodec.fingerprint(back) != refcodec.fingerprint(probe):
                    ctx.violation("C04/encoding-after-a-refusal-differs", "after dump() refused a value, the next dump() of a plain value decodes to something else",
                                  dict(origin=origin, refused=repr(v)[:200], probe=repr(probe), back=repr(back)[:300]))
                ctx.count("encodings_right_after_a_refusal")
            except Exception as e:
                ctx.violation("C04/encoding-after-a-refusal-raises/%s" % type(e).__name__, "after dump() refused a value, the next dump()/load() of a plain value raised",
                              dict(origin=origin, refused=repr(v)[:200], error=repr(e)[:200]))
        except RecursionError:
            ctx.count("skipped_recursion")
        except Exception as e:
            ctx.violation("C04/unserializable-wrong-exception/%s" % _classify_exc(e),
                          "dumpable(v) is False but dump(v) raised %s, not TypeError" % type(e).__name__,
                          dict(origin=origin, value=repr(v)[:300]))
        else:
            ctx.violation("C04/unserializable-but-dump-succeeds/%s" % type(v).__name__,
                          "dumpable(v) is False but dump(v) succeeded", dict(origin=origin, value=repr(v)[:300]))


def _has_surrogate(v):
    if type(v) is str:
        return any(0xd800 <= ord(c) <= 0xdfff for c in v)
    if type(v) in (tuple, frozenset):
        return any(_has_surrogate(x) for x in v)
    if type(v) is slice:
        return _has_surrogate((v.start, v.stop, v.step))
    return False


def check_decode(ctx, brine, data, origin):
    ctx.case(("dec", data), nontrivial=len(data) > 0)
    with canary.watch() as sc:
        try:
            v = brine.load(data)
            raised = None
        except Exception as e:
            raised = e
    bad = sc.of_kind("import", "exec", "compile", "pickle.find_class", "os.system", "subprocess.Popen", "marshal.loads")
    if bad:
        ctx.violation("C04/decode-side-effect/%s" % bad[0][0], "decoding bytes caused an %s event" % bad[0][0],
                      dict(origin=origin, data=data[:300], events=bad[:5]))
    if raised is not None:
        ctx.count("decode_raised")
        ctx.count("decode_raised_" + type(raised).__name__)
        return
    ctx.count("decode_returned")
    if not refcodec.plain_immutable(v):
        ctx.violation("C04/decode-yields-non-plain/%s" % _first_nonplain(v),
                      "load(bytes) returned something that is not a plain immutable value",
                      dict(origin=origin, data=data[:300], value=repr(v)[:300]))


def _first_nonplain(v):
    if type(v) in (tuple, frozenset):
        for x in v:
            if not refcodec.plain_immutable(x):
                return _first_nonplain(x)
    if type(v) is slice:
        for x in (v.start, v.stop, v.step):
            if not refcodec.plain_immutable(x):
                return _first_nonplain(x)
    return type(v).__name__


def run(ctx):
    from rv import suiterun
    suiterun.for_check(ctx, PROPERTY, ['dump_calls', 'load_calls'])
    from rpyc.core import brine
    rng = ctx.rng
    first = ctx.shard[0] == 0
    pool = []
    if first:
        for i, v in enumerate(gen.boundary_values()):
            check_encode(ctx, brine, v, "boundary[%d]" % i)
            ctx.count("boundary_values")
        for i, v in enumerate(gen.nonplain_atoms()):
            check_encode(ctx, brine, v, "zoo[%d]" % i)
    n_enc = ctx.budget(14000, 12000000)
    for i in range(n_enc):
        v = gen.gen_plain(rng)
        check_encode(ctx, brine, v, "plain#%d" % i)
        if i < 400:
            try:
                pool.append(refcodec.encode(v))
            except Exception:
                pass
        if i < 3:
            ctx.sample({"encode": repr(v)[:200]})
    # equal values of different exact types, encoded one after the other in this process
    for i in range(n_enc // 10):
        for j, v in enumerate(gen.gen_twin_family(rng)):
            check_encode(ctx, brine, v, "twin#%d.%d" % (i, j))
            ctx.count("equal_values_of_different_types_in_sequence")
    for i in range(n_enc // 5):
        v = gen.gen_nonplain(rng)
        check_encode(ctx, brine, v, "nonplain#%d" % i)
        if i < 2:
            ctx.sample({"nonplain": repr(v)[:200]})
    pool += [refcodec.encode(v) for v in gen.boundary_values(surrogates=False)[:120] if True]
    pool = [p for p in pool if len(p) < 5000] or [b"\x00"]
    n_dec = ctx.budget(20000, 12000000)
    for i in range(n_dec):
        data = gen.gen_hostile_bytes(rng, pool)
        check_decode(ctx, brine, data, "hostile#%d" % i)
        if i < 3:
            ctx.sample({"decode": data[:60]})
    if ctx.counters["decode_raised"] == 0 or ctx.counters["decode_returned"] == 0:
        ctx.inconclusive("decode fuzz never reached both outcomes")
    if ctx.counters["refused_with_TypeError"] == 0 and not ctx.violations:
        ctx.inconclusive("no unserializable value was refused")

"""C17 - closing a server ends all its clients; departed clients leave nothing behind; a one-shot server serves once.

Real servers in child processes (rv.realnet): ThreadedServer, ThreadPoolServer(4), OneShotServer, ForkingServer, each
over TCP and over a unix socket. A history = clients connecting / calling / leaving gracefully or abruptly (phase 1,
everybody gone -> the server must be back at its baseline), then a second group of which some stay connected, idle or
in the middle of a call (phase 2), then close(), then close() again. Everything is decided on server state sampled over
the control pipe at quiescence and on what the clients' sockets show; watchdogs only bound the waiting.
"""
import threading
import time

from rv import realnet as rn

PROPERTY = "C17"
LEVEL = "exploration"
RULE = ("seeded histories per server kind (threaded, threadpool, oneshot, forking) x transport (tcp, unix): phase 1 = "
        "1-6 clients (rpyc clients and raw scripted peers; every fifth history against a token authenticator, with clients "
        "that fail it) doing connect / call / graceful close (CLOSE message) / abrupt "
        "close (socket closed without CLOSE) / RST (SO_LINGER 0) until all are gone, then the server state is compared with "
        "its baseline (descriptors after gc.collect(), clients, fd_to_conn, hook counters, child processes); phase 2 = 1-6 "
        "clients of which some leave and the others stay idle or inside exposed_sleep, then close, EOF observation on "
        "every remaining client, hook counters, table sizes, close again, connect attempt. One-shot histories: first client "
        "(+ optionally a second one waiting in the backlog), calls, leave or close. Long connect/leave churn for descriptor "
        "accounting. distinct = (kind, transport, phase-1 operation sequence, phase-2 client states); non-trivial = at least "
        "one client still connected at close, or at least one abrupt departure")
ASSUMPTIONS = ["state is sampled inside the server process after gc.collect() (server.py's closing(sock) closes nothing; the "
               "descriptor is released by Connection.close or by reference counting), only at quiescence",
               "'observes end-of-stream' = the client's socket reads b'' / is reset, or the rpyc client's pending or next "
               "request raises EOFError; a client without EOF is a violation only with positive evidence (a request answered "
               "after close() returned, or the connection still listed in the server's tables / held by a live child process "
               "while no server thread is left to end it); otherwise the run is inconclusive",
               "ForkingServer.close() is executed in the server process's main thread (signal.signal requires it); hook "
               "counters of the forking server are read from an append-only file written by the hooks in the children"]
SHARDS = {"quick": 1, "thorough": 8}
MIN_DISTINCT = {"quick": 30, "thorough": 1000}
WATCHDOG = {"quick": 600, "thorough": 3 * 3600}
STUCK_LIMIT = 240

KINDS = ["threaded", "threadpool", "oneshot", "forking"]
QUIESCE = 12          # watchdog (s) on waiting for the server state to settle
EOF_GRACE = 2.0       # after this long without EOF the client is probed for positive evidence
EOF_WATCHDOG = 12
SYNC = 6              # request timeout of the rpyc clients (only bounds the waiting)


class Client(object):
    """one scripted client: an rpyc connection ('good'), a raw scripted peer ('raw'), or - against an authenticating
    server - an 'intruder' that presents a wrong or short token and is never let in"""

    def __init__(self, sp, mode, idx):
        self.sp, self.mode, self.idx = sp, mode, idx
        self.conn = self.root = self.sock = self.sess = self.rootid = None
        self.connected = False
        self.state = "new"
        self.midcall = None       # dict(thread, result) for good / dict(seq) for raw
        self.errors = []

    def connect(self):
        if self.mode == "good":
            self.conn = self.sp.good(sync_timeout=SYNC)
            self.sock = self.conn._channel.stream.sock
            self.root = self.conn.root
        elif self.mode == "mute":
            self.sock = self.sp.raw(timeout=15, token=None)        # connected, never says a word: sits in the authenticator
        elif self.mode == "intruder":
            tokens = [b"wrongTOK", b"rvTOKEN?", b"rvT", b"\x00"]
            if getattr(self.sp, "auth_kind", None) == "patient":
                # an authenticator without time limit in a single accept thread would wait for the rest of a short token for as
                # long as the intruder stays: that is the configuration's doing, not the subject here - only full-length tokens
                tokens = [b"wrongTOK", b"rvTOKEN?"]
            self.sock = self.sp.raw(timeout=15, token=tokens[self.idx % len(tokens)])
        else:
            self.sock = self.sp.raw(timeout=15, token=True if self.sp.auth else None)
            self.sess = rn.RawSession(self.sock)
        self.connected = True
        self.state = "idle"

    def call(self, rng):
        from rpyc.core import consts
        x = "c%d-%d" % (self.idx, rng.randrange(10 ** 6))
        if self.mode in ("intruder", "mute"):
            return
        if self.mode == "good":
            got = self.conn.sync_request(consts.HANDLE_CALLATTR, self.root, "echo", (x,), ())
            if got != x:
                self.errors.append("echo returned %r for %r" % (got, x))
        else:
            if self.rootid is None:
                r = self.sess.getroot(watchdog=SYNC)
                if type(r) is tuple and len(r) == 3 and type(r[0]) is str:
                    self.rootid = r
                else:
                    self.errors.append("getroot: %r" % (r,))
            else:
                m = self.sess.callattr(self.rootid, "echo", (x,), watchdog=SYNC)
                if not (isinstance(m, dict) and m["kind"] == 2 and m["args"] == (1, x)):
                    self.errors.append("raw echo: %r" % (m,))

    def start_midcall(self, t):
        """leave a request for exposed_sleep(t) outstanding"""
        from rpyc.core import consts
        if self.mode == "good":
            box = {}

            def run():
                try:
                    box["value"] = self.conn.sync_request(consts.HANDLE_CALLATTR, self.root, "sleep", (t,), ())
                except BaseException as e:
                    box["exc"] = e
                box["t"] = time.time()
            th = threading.Thread(target=run, daemon=True)
            th.start()
            self.midcall = dict(thread=th, box=box)
        else:
            if self.rootid is None:
                r = self.sess.getroot(watchdog=SYNC)
                if not (type(r) is tuple and len(r) == 3):
                    self.errors.append("getroot: %r" % (r,))
                    return
                self.rootid = r
            self.sock.sendall(self.sess.callattr_bytes(self.rootid, "sleep", (t,)))
            self.midcall = dict(seq=self.sess.seq)
        self.state = "midcall"

    def leave(self, how):
        """how: graceful (CLOSE message first) | abrupt (socket closed, no CLOSE) | rst (SO_LINGER 0)"""
        if not self.connected:
            return
        try:
            if self.mode in ("intruder", "mute"):
                if how == "rst":
                    rn.rst_close(self.sock)
                else:
                    self.sock.close()
            elif how == "graceful":
                if self.mode == "good":
                    self.root = None
                    self.conn.close()
                else:
                    try:
                        self.sess.send_request(self.sess.rc.HANDLERS["CLOSE"], self.sess.rc.box_value(()))
                    except OSError:
                        pass
                    self.sock.close()
            else:
                if how == "rst":
                    rn.rst_close(self.sock)
                else:
                    self.sock.close()
                if self.mode == "good":
                    self.root = None
                    try:
                        self.conn.close()       # the socket object is closed: nothing reaches the wire any more
                    except Exception:
                        pass
        finally:
            self.connected = False
            self.state = "left-" + how

    def discard(self):
        try:
            if self.sock is not None:
                self.sock.close()
        except Exception:
            pass
        if self.conn is not None:
            try:
                self.root = None
                self.conn.close()
            except Exception:
                pass

    # ---- after close(): what does this client see?
    def eof_step(self, slice_s=0.05):
        """look (never write) for end-of-stream for at most slice_s. -> 'eof' | None"""
        if self.mode in ("raw", "mute"):
            r = rn.wait_eof(self.sock, slice_s)
            return "eof" if r[0] == "eof" else None
        if self.midcall and self.midcall["thread"].is_alive():
            self.midcall["thread"].join(slice_s)
            if self.midcall["thread"].is_alive():
                return None
        if self.midcall:
            box = self.midcall["box"]
            if isinstance(box.get("exc"), EOFError) or isinstance(box.get("exc"), (ConnectionError, OSError)) and not isinstance(box.get("exc"), TimeoutError):
                return "eof"
        if self.conn.closed:
            return "eof"
        try:
            self.conn.serve(slice_s)         # handles the server's CLOSE request / notices EOF
        except EOFError:
            return "eof"
        except (ConnectionError, OSError) as e:
            if isinstance(e, TimeoutError):
                return None
            return "eof"
        return "eof" if self.conn.closed else None

    def probe_after_close(self):
        """positive evidence that the server still serves this client: -> 'answered' | 'eof' | 'silent'"""
        from rpyc.core import consts
        if self.mode == "mute":
            return "silent"
        if self.mode == "good":
            try:
                self.conn._config["sync_request_timeout"] = 3
                got = self.conn.sync_request(consts.HANDLE_PING, "after-close")
                return "answered" if got == "after-close" else "silent"
            except TimeoutError:
                return "silent"
            except (EOFError, ConnectionError, OSError):
                return "eof"
            except Exception:
                return "silent"
        try:
            seq = self.sess.send_request(self.sess.rc.HANDLERS["PING"], self.sess.rc.box_value(("after-close",)))
        except OSError:
            return "eof"
        m = self.sess.read_reply(seq, 3)
        if m == "eof":
            return "eof"
        if isinstance(m, dict) and m["kind"] == 2:
            return "answered"
        return "silent"


def leftovers(st, base, after_close=False):
    """compare a state sample with the baseline: -> list of (key suffix, text)"""
    out = []
    # a server that has closed itself (its accept loop ended on an error it does not survive) is judged as closed
    after_close = after_close or bool(st.get("closed"))
    allowed = base["fds"] - (1 if after_close and st.get("listener_fd", -1) < 0 else 0)
    if st["fds"] > allowed:
        out.append(("fd-leak", "%d descriptors open (%d sockets), baseline %d%s" % (
            st["fds"], st["socket_fds"], base["fds"], " minus the closed listener" if after_close else "")))
    if st["clients"] > 0:
        out.append(("table-entry-left", "server.clients still holds %d sockets" % st["clients"]))
    if (st.get("fd_to_conn") or 0) > 0:
        out.append(("table-entry-left", "fd_to_conn still holds %d connections" % st["fd_to_conn"]))
    if st["on_disconnect"] < st["on_connect"]:
        out.append(("disconnect-hook-missing", "on_connect ran %d times, on_disconnect %d times" % (st["on_connect"], st["on_disconnect"])))
    # (after close() the forking server has handed SIGCHLD back to the previous handler: zombies are no longer its business)
    if st.get("children") or (st.get("zombies") and not after_close):
        out.append(("child-process-left", "child processes %r, %d zombies" % (st.get("children"), st.get("zombies", 0))))
    return out


def settle(sp, base, after_close=False, watchdog=QUIESCE):
    held, st, n = sp.poll_state(lambda s: not leftovers(s, base, after_close), watchdog)
    return held, st, n


def report_leftovers(sc, kind, st, base, wit, when, after_close=False):
    for suffix, text in leftovers(st, base, after_close):
        sc.violation("C17/%s/%s" % (kind, suffix), "%s: %s (state unchanged for %d s)" % (when, text, QUIESCE),
                     dict(wit, state=st, baseline={k: base[k] for k in ("fds", "socket_fds", "threads")}))


def gen_phase1(rng, nclients):
    """operation sequence that ends with everybody gone"""
    ops = []
    connected = set()
    todo = list(range(nclients))
    for _ in range(rng.randrange(nclients, 4 * nclients + 2)):
        choices = []
        if todo:
            choices += ["connect"] * 3
        if connected:
            choices += ["call", "call", "graceful", "abrupt", "rst"]
        if not choices:
            break
        op = rng.choice(choices)
        if op == "connect":
            i = todo.pop(0)
            connected.add(i)
        else:
            i = rng.choice(sorted(connected))
            if op != "call":
                connected.discard(i)
        ops.append((op, i))
    for i in sorted(connected):
        ops.append((rng.choice(["graceful", "abrupt", "rst"]), i))
    return ops


def run_history(sc, kind, unix, rng, hidx):
    transport = "unix" if unix else "tcp"
    slow = kind == "threadpool"
    # every fifth history: token authenticator, some phase-1 clients fail it and leave; every tenth: the authenticator hands
    # back another socket object than the one accepted (as the SSL authenticator does)
    # every fifth history authenticates: plain token check / an authenticator that hands back ANOTHER socket object (as ssl
    # wrapping does) / one that waits for the token without a time limit (a client may sit inside it when close() is called)
    auth = False
    if hidx % 5 >= 3:
        ring = [True, "rewrap", "patient"]
        first = {("threaded", False): ("patient", "rewrap"), ("threaded", True): ("rewrap", "patient"),
                 ("threadpool", False): ("patient", True), ("threadpool", True): ("rewrap", "patient"),
                 ("forking", False): (True, "rewrap"), ("forking", True): ("rewrap", True)}.get((kind, unix), (True, "rewrap"))[hidx % 5 - 3]
        auth = ring[(ring.index(first) + hidx // 5) % 3]
    # every fifth history: a client connects at the very moment close() is called (the thread that takes it off the listener is
    # held up for a moment, see RV_ACCEPT_PAUSE): whatever close() and the accept loop make of it, a closed server serves nobody
    late_connect = hidx % 5 == 2 and kind in ("threaded", "threadpool") and not auth
    # forking servers, every fifth history: the fork for the second client fails (EAGAIN). Whether the server survives that is not
    # the subject here; what it still holds of that client afterwards is
    fork_fail = kind == "forking" and hidx % 5 == 1 and not auth
    try:
        sp = rn.ServerProc(kind, unix=unix, auth=auth, accept_pause=late_connect, fork_fail="2" if fork_fail else None)
    except rn.ChildError as e:
        sc.inconclusive("could not start %s/%s: %s" % (kind, transport, str(e)[:300]))
        return
    clients = []
    try:
        base = sp.state()
        # ---------------------------------------------------------------- phase 1: come and go
        n1 = rng.randrange(1, 4 if slow else 7)
        modes1 = [rng.choice(["good", "good", "raw"]) for _ in range(n1)]
        if auth:
            n1 += 1
            modes1.insert(rng.randrange(n1), "intruder")
            for i in range(n1):
                if modes1[i] != "intruder" and rng.random() < 0.3:
                    modes1[i] = "intruder"
        ops = gen_phase1(rng, n1)
        c1 = [Client(sp, modes1[i], i) for i in range(n1)]
        clients += c1
        for op, i in ops:
            if fork_fail and op != "connect" and not c1[i].connected:
                continue
            try:
                if op == "connect":
                    c1[i].connect()
                elif op == "call":
                    c1[i].call(rng)
                else:
                    c1[i].leave(op)
            except Exception:
                if not fork_fail:
                    raise
                c1[i].connected = c1[i].connected and c1[i].sock is not None
                c1[i].errors[:] = []          # the client whose fork failed (or, if the server went down with it, everyone after)
        if fork_fail:
            for c in c1:
                c.errors[:] = []
                if c.connected:
                    c.leave("abrupt")
            sc.count("histories_with_a_failed_fork")
        sc.beat()
        desc1 = tuple((op, modes1[i]) for op, i in ops)
        wit = dict(kind=kind, transport=transport, auth=auth, phase1=[(op, i, modes1[i]) for op, i in ops])
        held, st, n = settle(sp, base)
        sc.count("fd_samples", n)
        sc.count("departures_checked", n1)
        sc.maximum("fds_above_baseline_at_quiescence", max(0, st["fds"] - base["fds"]))
        if not held:
            report_leftovers(sc, kind, st, base, wit, "after all %d clients of phase 1 had left" % n1)
        for c in c1:
            for e in c.errors:
                sc.inconclusive("%s/%s history %d: client call failed before close: %s" % (kind, transport, hidx, e[:200]))
        if fork_fail:
            sc.case((kind, transport, "fork-failure", desc1), nontrivial=True)
            return
        # ---------------------------------------------------------------- phase 2: some stay
        n2 = rng.randrange(1, 4 if slow else 7)
        c2 = [Client(sp, rng.choice(["good", "good", "raw"]), 100 + i) for i in range(n2)]
        clients += c2
        plan2 = []
        for c in c2:
            c.connect()
            fate = rng.choice(["idle", "idle-called", "midcall", "midcall", "left-graceful", "left-abrupt", "left-rst"])
            plan2.append((c.mode, fate))
        for c, (mode, fate) in zip(c2, plan2):
            if fate != "idle":
                if fate == "midcall":
                    c.start_midcall(rng.choice([0.8, 1.0, 1.3]))
                else:
                    c.call(rng)
                    if fate.startswith("left-"):
                        c.leave(fate[5:])
        if any(f == "midcall" for _, f in plan2):
            time.sleep(0.3)                  # let the sleep requests reach their handlers (0.1 s poll on the thread pool)
        if auth == "patient" and kind != "forking":
            # last to connect (a thread pool authenticates in its accept thread): a client that is still inside the
            # authenticator when close() is called
            m = Client(sp, "mute", 100 + n2)
            m.connect()
            c2.append(m)
            clients.append(m)
            plan2.append(("mute", "idle"))
            sc.count("closes_with_a_client_inside_the_authenticator")
            time.sleep(0.3)
        stayers = [c for c in c2 if c.connected]
        wit["phase2"] = plan2
        for c in c2:
            for e in c.errors:
                sc.inconclusive("%s/%s history %d: client call failed before close: %s" % (kind, transport, hidx, e[:200]))
        before = sp.state()
        for _ in range(20):                  # let every accepted client reach its on_connect before the reference sample
            time.sleep(0.25)
            again = sp.state()
            if again["on_connect"] == before["on_connect"]:
                break
            before = again
        # ---------------------------------------------------------------- close
        if late_connect:
            lc = Client(sp, "raw", 900)
            try:
                lc.connect()             # returns when the kernel has completed the handshake; the server has yet to accept it
                clients.append(lc)
                stayers.append(lc)
                plan2.append(("raw", "connects as close() is called"))
                sc.count("closes_with_a_client_arriving_at_that_moment")
            except OSError:
                pass
        rep = sp.close_server()
        t_closed = time.time()
        sc.count("server_closes")
        if rep.get("blocked"):
            sc.inconclusive("%s/%s: %s" % (kind, transport, rep["blocked"]))
            return
        if rep.get("exc"):
            sc.violation("C17/%s/close-raises" % kind, "server.close() raised %s" % rep["exc"], wit)
        sc.maximum("close_elapsed_ms", int((rep.get("elapsed") or 0) * 1000))
        survivors = judge_eof(sc, sp, kind, stayers, t_closed, wit)
        if stayers:
            sc.count("closes_with_live_clients")
        # ---------------------------------------------------------------- state at quiescence after close
        if not survivors:
            held, st, n = settle(sp, base, after_close=True)
            sc.count("fd_samples", n)
            if not held:
                report_leftovers(sc, kind, st, base, wit, "after close() with %d clients connected (all of them saw EOF)" % len(stayers),
                                 after_close=True)
            if not st.get("start_returned") and kind != "oneshot":
                # close() has returned, every client is gone, the state has settled - and the thread that ran start() is still
                # inside its accept loop (on a listener that no longer exists): a leftover of the closed server
                st2 = sp.poll_state(lambda x: x.get("start_returned"), 6)[1]
                if not st2.get("start_returned"):
                    sc.violation("C17/%s/accept-loop-survives-close" % kind, "%d s after close() returned and everything had settled, start() has still not returned: "
                                 "the accept loop of the closed server is still waiting (%s listener)" % (QUIESCE, transport), dict(wit, state=st2))
                else:
                    sc.count("start_returned_after_close")
            else:
                sc.count("start_returned_after_close")
            if st["on_connect"] != before["on_connect"]:
                sc.inconclusive("hook counter moved without a new client")
            else:
                sc.count("hook_balance_checked")
        # ---------------------------------------------------------------- close again, listener
        rep2 = sp.close2()
        sc.count("second_closes")
        if rep2.get("exc"):
            sc.violation("C17/%s/second-close-raises" % kind, "the second close() raised %s" % rep2["exc"], wit)
        check_listener_closed(sc, sp, kind, wit)
        if auth:
            sc.count("rejected_clients_accounted", sum(1 for m in modes1 if m == "intruder"))
        sc.case((kind, transport, auth, desc1, tuple(plan2)),
                nontrivial=bool(stayers) or any(op in ("abrupt", "rst") for op, _ in ops))
        if hidx == 0:
            sc.sample(dict(wit, stayers=len(stayers), survivors=len(survivors), close=rep, state_after=dict(
                (k, st[k]) for k in ("fds", "clients", "fd_to_conn", "on_connect", "on_disconnect", "threads", "children") if k in st)))
    except rn.ChildError as e:
        sc.inconclusive("%s/%s history %d: %s" % (kind, transport, hidx, str(e)[:300]))
    except (OSError, EOFError) as e:
        # a client could not connect / call BEFORE close: this check does not judge that (C16 does)
        sc.inconclusive("%s/%s history %d: client failed before close: %s: %s" % (kind, transport, hidx, type(e).__name__, str(e)[:200]))
    finally:
        for c in clients:
            c.discard()
        sp.kill()


def judge_eof(sc, sp, kind, stayers, t_closed, wit):
    """every client still connected at close() must observe end-of-stream. -> list of clients that did not"""
    pending = list(stayers)
    t0 = time.time()
    probed = {}
    survivors = []
    while pending:
        for c in list(pending):
            if c.eof_step(0.02) == "eof":
                pending.remove(c)
                sc.count("eof_observations")
                sc.maximum("eof_latency_ms", int((time.time() - t_closed) * 1000))
                if c.mode == "good" and c.midcall and "value" in c.midcall["box"] and c.midcall["box"]["t"] > t_closed + 0.25:
                    # the pending call was answered after close() had returned
                    survivors.append(c)
                    sc.violation("C17/%s/clients-survive-close" % kind, "a request that was being served when close() was called was "
                                 "answered %.2f s after close() had returned" % (c.midcall["box"]["t"] - t_closed),
                                 dict(wit, client=(c.mode, c.state)))
        waited = time.time() - t0
        if pending and waited > EOF_GRACE:
            for c in list(pending):
                if c in probed:
                    continue
                if c.mode == "good" and c.midcall and c.midcall["thread"].is_alive():
                    continue             # its request is still outstanding; the thread will tell
                probed[c] = c.probe_after_close()
                st = sp.state()
                tables = st["clients"] + (st.get("fd_to_conn") or 0)
                busy = [t for t in st["threads"] if not t.startswith("rv-") and t != "MainThread"]
                if probed[c] == "eof":
                    pending.remove(c)
                    sc.count("eof_observations")
                    continue
                evidence = None
                if probed[c] == "answered":
                    evidence = "a new request on that connection was answered after close() had returned"
                elif c.mode == "mute" and st.get("socket_fds", 0) > 0 and st.get("listener_fd", -1) == -1:
                    evidence = ("it was inside the authenticator when close() was called; close() has returned, the listener is gone, "
                                "the server's tables hold %d entries, yet the server process still has %d socket descriptor(s) open "
                                "(threads: %s)" % (tables, st["socket_fds"], [t for t in st["threads"] if not t.startswith("rv-")]))
                elif tables and not busy:
                    evidence = ("its connection is still in the server's tables (clients=%d, fd_to_conn=%s) and no server thread is "
                                "left to end it" % (st["clients"], st.get("fd_to_conn")))
                elif st.get("children") and probed[c] == "silent" and c.state == "midcall":
                    evidence = None      # a child still inside the handler: wait for it
                if evidence:
                    pending.remove(c)
                    survivors.append(c)
                    sc.count("clients_without_eof")
                    sc.violation("C17/%s/clients-survive-close" % kind, "%.1f s after close() returned a client that was connected (%s) "
                                 "had not seen end-of-stream: %s" % (time.time() - t_closed, c.state, evidence),
                                 dict(wit, client=(c.mode, c.state), state=st))
        if pending and waited > EOF_WATCHDOG:
            for c in pending:
                if probed.get(c) is None and c.mode == "good" and c.midcall and not c.midcall["thread"].is_alive() and "value" in c.midcall["box"]:
                    probed[c] = c.probe_after_close()
                    if probed[c] == "answered":
                        sc.violation("C17/%s/clients-survive-close" % kind, "request answered after close() returned", wit)
                        survivors.append(c)
                        continue
                sc.inconclusive("%s: a client (%s, %s) saw no end-of-stream within %d s after close() and no positive evidence of "
                                "a live server side was found" % (kind, c.mode, c.state, EOF_WATCHDOG))
                survivors.append(c)
            break
        if pending:
            time.sleep(0.02)
    return survivors


def check_listener_closed(sc, sp, kind, wit, key="still-listening"):
    """after close() a connect attempt must be refused"""
    try:
        s = sp.raw(timeout=5)
    except (ConnectionRefusedError, FileNotFoundError, ConnectionResetError):
        sc.count("connects_refused_after_close")
        return True
    except OSError as e:
        sc.inconclusive("connect after close: %s: %s" % (type(e).__name__, e))
        return None
    try:
        sess = rn.RawSession(s)
        r = sess.getroot(watchdog=3)
    except OSError:
        r = "eof"
    finally:
        s.close()
    served = type(r) is tuple and len(r) == 3 and type(r[0]) is str
    sc.violation("C17/%s/%s" % (kind, key), "after close() the listener still accepted a connection%s"
                 % (" and the server answered its first request" if served else ""), dict(wit, reply=r))
    return False


def run_oneshot(sc, unix, rng, hidx):
    kind, transport = "oneshot", "unix" if unix else "tcp"
    try:
        sp = rn.ServerProc(kind, unix=unix)
    except rn.ChildError as e:
        sc.inconclusive("could not start oneshot/%s: %s" % (transport, str(e)[:300]))
        return
    a = b = None
    try:
        base = sp.state()
        a = Client(sp, rng.choice(["good", "raw"]), 0)
        a.connect()
        ncalls = rng.randrange(0, 4)
        for _ in range(ncalls):
            a.call(rng)
        second = rng.choice(["backlog", "later", "later"])
        if ncalls == 0:
            # make sure the server has accepted A before anything else happens
            a.call(rng)
            ncalls = 1
        if second == "backlog":
            # B connects while A is being served: it waits in the listen queue and must never be served
            b = Client(sp, "raw", 1)
            b.connect()
            b.sock.sendall(b.sess.request_bytes(b.sess.rc.HANDLERS["GETROOT"], b.sess.rc.box_value(())))
        end = rng.choice(["graceful", "abrupt", "rst", "close", "midcall-close"])
        wit = dict(kind=kind, transport=transport, first=a.mode, calls=ncalls, second=second, end=end)
        t_closed = None
        if end in ("close", "midcall-close"):
            if end == "midcall-close":
                a.start_midcall(rng.choice([0.5, 0.8]))
                time.sleep(0.2)
            rep = sp.close_server()
            t_closed = time.time()
            sc.count("server_closes")
            if rep.get("exc"):
                sc.violation("C17/oneshot/close-raises", "server.close() raised %s" % rep["exc"], wit)
            surv = judge_eof(sc, sp, kind, [a], t_closed, wit)
            sc.count("closes_with_live_clients")
        else:
            a.leave(end)
            surv = []
        # the server must shut itself down: start() returned, listener closed, hooks balanced, descriptors released
        held, st, n = sp.poll_state(lambda s: s["start_returned"] and s["closed"] and s["listener_fd"] < 0 and not leftovers(s, base, True),
                                    QUIESCE)
        sc.count("fd_samples", n)
        sc.count("oneshot_histories")
        if not surv:
            if not (st["closed"] and st["listener_fd"] < 0):
                sc.violation("C17/oneshot/still-listening", "the one-shot server served its connection (it ended: %s) but %d s later its "
                             "listener is still open (closed=%s, start() returned=%s)" % (end, QUIESCE, st["closed"], st["start_returned"]),
                             dict(wit, state=st))
            elif not st["start_returned"]:
                sc.violation("C17/oneshot/still-running", "listener closed but Server.start() has not returned %d s after the only "
                             "connection ended" % QUIESCE, dict(wit, state=st))
            if st["on_connect"] > 1:
                sc.violation("C17/oneshot/second-connection-served", "on_connect ran %d times on a one-shot server" % st["on_connect"],
                             dict(wit, state=st))
            report_leftovers(sc, kind, st, base, wit, "after the one-shot server's only connection ended (%s)" % end, after_close=True)
        # nobody else is served
        if b is not None:
            m = b.sess.read_reply(b.sess.seq, 5)
            if isinstance(m, dict):
                sc.violation("C17/oneshot/second-connection-served", "a second client that connected while the first was being served "
                             "got its request answered after the first had left", dict(wit, reply=m))
            elif m == "timeout":
                # still in the listen queue of a closed listener? decide by state
                if st["listener_fd"] >= 0:
                    pass            # already reported as still-listening
                else:
                    sc.inconclusive("oneshot: queued second client saw neither reply nor EOF within 5 s")
            else:
                sc.count("oneshot_second_client_turned_away")
        ok = check_listener_closed(sc, sp, kind, wit, key="still-listening")
        if ok:
            sc.count("oneshot_second_client_turned_away")
        rep2 = sp.close_server()
        if rep2.get("exc"):
            sc.violation("C17/oneshot/second-close-raises", "close() after the server had shut itself down raised %s" % rep2["exc"], wit)
        rep3 = sp.close2()
        sc.count("second_closes")
        if rep3.get("exc"):
            sc.violation("C17/oneshot/second-close-raises", "a further close() raised %s" % rep3["exc"], wit)
        for c in (a, b):
            if c is not None:
                for e in c.errors:
                    sc.inconclusive("oneshot/%s: client call failed: %s" % (transport, e[:200]))
        sc.case((kind, transport, a.mode, ncalls, second, end), nontrivial=True)
        if hidx == 0:
            sc.sample(dict(wit, state_after={k: st[k] for k in ("fds", "clients", "on_connect", "on_disconnect", "threads", "start_returned",
                                                              "listener_fd")}))
    except rn.ChildError as e:
        sc.inconclusive("oneshot/%s history %d: %s" % (transport, hidx, str(e)[:300]))
    except (OSError, EOFError) as e:
        sc.inconclusive("oneshot/%s history %d: client failed before the end: %s: %s" % (transport, hidx, type(e).__name__, str(e)[:200]))
    finally:
        for c in (a, b):
            if c is not None:
                c.discard()
        sp.kill()


def run_churn(sc, kind, unix, cycles, nthreads, rng_tag):
    """long connect / (call) / leave churn, then descriptor and table accounting against the baseline"""
    transport = "unix" if unix else "tcp"
    try:
        sp = rn.ServerProc(kind, unix=unix)
    except rn.ChildError as e:
        sc.inconclusive("could not start %s/%s: %s" % (kind, transport, str(e)[:300]))
        return
    try:
        base = sp.state()
        per = max(1, cycles // nthreads)
        tally = []
        failures = []

        def worker(k):
            rng = sc.subrng("churn", rng_tag, kind, transport, k)
            for i in range(per):
                how = rng.choice(["graceful", "graceful", "abrupt", "rst", "abrupt-midrequest"])
                # (leaving in the middle of a request is done by raw peers: no harness thread is left polling a closed socket)
                c = Client(sp, "raw" if how == "abrupt-midrequest" else rng.choice(["good", "good", "raw"]), k * 100000 + i)
                try:
                    c.connect()
                    for _ in range(rng.choice([0, 1, 1, 2])):
                        c.call(rng)
                    if how == "abrupt-midrequest":
                        c.start_midcall(0.05)
                        c.leave(rng.choice(["abrupt", "rst"]))
                    else:
                        c.leave(how)
                    tally.append(how)
                    failures.extend(c.errors)
                except (OSError, EOFError) as e:
                    failures.append("%s: %s" % (type(e).__name__, e))
                finally:
                    c.discard()
                if i % 10 == 0:
                    sc.beat()
        ths = [threading.Thread(target=worker, args=(k,), daemon=True) for k in range(nthreads)]
        for t in ths:
            t.start()
        for t in ths:
            t.join(600)
            if t.is_alive():
                sc.inconclusive("churn %s/%s: harness thread stuck" % (kind, transport))
                return
        wit = dict(kind=kind, transport=transport, churn=len(tally), threads=nthreads,
                   departures={h: tally.count(h) for h in sorted(set(tally))})
        held, st, n = settle(sp, base, watchdog=QUIESCE + 8)
        sc.count("fd_samples", n)
        sc.count("churn_cycles", len(tally))
        sc.count("departures_checked", len(tally))
        sc.maximum("fds_above_baseline_at_quiescence", max(0, st["fds"] - base["fds"]))
        if not held:
            report_leftovers(sc, kind, st, base, wit, "after %d clients had come and gone" % len(tally))
        # (a connection reset before the server got to it never reaches on_connect: counted, not judged)
        sc.count("churn_connections_that_reached_on_connect", st["on_connect"])
        if failures:
            sc.count("churn_client_failures", len(failures))
            if len(failures) > max(2, len(tally) // 20):
                sc.inconclusive("churn %s/%s: %d client-side failures before leaving, e.g. %s" % (kind, transport, len(failures), failures[0][:200]))
        rep = sp.close_server()
        if rep.get("exc"):
            sc.violation("C17/%s/close-raises" % kind, "server.close() raised %s" % rep["exc"], wit)
        sc.case((kind, transport, "churn", len(tally), nthreads), nontrivial=True)
        if not unix and kind != "threadpool":
            sc.sample(dict(wit, baseline_fds=base["fds"], fds=st["fds"], on_connect=st["on_connect"], on_disconnect=st["on_disconnect"]))
    except rn.ChildError as e:
        sc.inconclusive("churn %s/%s: %s" % (kind, transport, str(e)[:300]))
    finally:
        sp.kill()


CHURN_QUICK = [("threaded", False, 40, 4), ("threaded", True, 30, 4), ("forking", False, 25, 3), ("forking", True, 15, 3),
               ("threadpool", False, 20, 4), ("threadpool", True, 20, 4)]          # 150 connect / leave cycles


def reset_during_setup(ctx):
    """a client that resets its connection while the server is still setting it up (inside the service's on_connect): once the
    set-up has run its course the server must hold nothing of it - no entry in its tables, the hooks balanced. In process,
    deterministic: on_connect waits for the reset; stock servers x {no authenticator, one that returns the accepted socket, one
    that returns another socket object as ssl wrapping does}."""
    import gc
    import logging
    import socket
    import struct
    import threading
    import rpyc
    from rpyc.utils.server import ThreadedServer, ThreadPoolServer
    quiet = logging.getLogger("rv-c17-setup")
    quiet.propagate = False
    quiet.setLevel(logging.CRITICAL + 1)

    def same(sock):
        return sock, "same"

    def rewrap(sock):
        return socket.socket(fileno=sock.detach()), "other-object"
    saved_hook = threading.excepthook
    threading.excepthook = lambda args: ctx.count("setup_thread_exceptions_%s" % getattr(args.exc_type, "__name__", "?"))
    try:
        for kind, cls in (("threaded", ThreadedServer), ("threadpool", ThreadPoolServer)):
            for aname, auth in (("none", None), ("same-socket", same), ("other-socket-object", rewrap)):
                stats = dict(c=0, d=0)
                gate, done = threading.Event(), threading.Event()

                class Svc(rpyc.Service):
                    def on_connect(self, conn, stats=stats, gate=gate, done=done):
                        stats["c"] += 1
                        gate.set()
                        done.wait(10)

                    def on_disconnect(self, conn, stats=stats):
                        stats["d"] += 1
                srv = cls(Svc, hostname="127.0.0.1", port=0, auto_register=False, logger=quiet, authenticator=auth)
                srv._listen()
                t = threading.Thread(target=srv.start, daemon=True, name="rv-setup-" + kind)
                t.start()
                wit = dict(family="reset-during-setup", kind=kind, authenticator=aname)
                try:
                    s = socket.create_connection(("127.0.0.1", srv.port))
                    if not gate.wait(10):
                        ctx.inconclusive("reset-during-setup: on_connect was not reached (%s/%s)" % (kind, aname))
                        continue
                    s.setsockopt(socket.SOL_SOCKET, socket.SO_LINGER, struct.pack("ii", 1, 0))
                    s.close()
                    time.sleep(0.2)
                    done.set()
                    t0 = time.time()
                    while time.time() - t0 < 6 and (len(srv.clients) or len(getattr(srv, "fd_to_conn", ())) or stats["d"] != stats["c"]):
                        time.sleep(0.05)
                    ctx.case(("reset-during-setup", kind, aname), nontrivial=True)
                    ctx.count("resets_during_setup")
                    if len(srv.clients) or len(getattr(srv, "fd_to_conn", ())):
                        ctx.violation("C17/%s/table-entry-left" % kind, "a client reset its connection while on_connect was running (authenticator: %s); "
                                      "afterwards server.clients holds %d sockets, fd_to_conn %d entries - for as long as the server lives" % (
                                          aname, len(srv.clients), len(getattr(srv, "fd_to_conn", ()))), wit)
                    if stats["d"] != stats["c"]:
                        gc.collect()
                        ctx.violation("C17/%s/disconnect-hook-missing" % kind, "a client reset its connection while on_connect was running: on_connect ran %d times, "
                                      "on_disconnect %d times (%d after a garbage collection)" % (stats["c"], stats["d"] if False else stats["d"], stats["d"]), wit)
                finally:
                    done.set()
                    srv.close()
                    t.join(10)
    finally:
        threading.excepthook = saved_hook


def run(ctx):
    sc = rn.SharedCtx(ctx)
    if ctx.shard[0] == 0:
        reset_during_setup(ctx)
    jobs = []
    per_config = ctx.budget(5, 2000 // 8)
    shard = ctx.shard[0]
    for kind in KINDS:
        for unix in (False, True):
            for h in range(per_config):
                r = ctx.subrng("hist", kind, unix, h)
                if kind == "oneshot":
                    jobs.append((2, lambda u=unix, r=r, h=h: run_oneshot(sc, u, r, h)))
                else:
                    jobs.append((3 if kind == "threadpool" else 1, lambda k=kind, u=unix, r=r, h=h: run_history(sc, k, u, r, h)))
    total_churn = ctx.budget(150, 2000)
    for kind, unix, n, nth in CHURN_QUICK:
        jobs.append((4, lambda k=kind, u=unix, n=n, nth=nth: run_churn(sc, k, u, max(nth, n * total_churn // 150), nth, shard)))
    jobs.sort(key=lambda j: -j[0])        # long jobs first
    errors = rn.run_parallel(sc, [j for _, j in jobs], 6 if ctx.quick else 3, "c17")
    for i, e in errors:
        ctx.inconclusive("harness error in job %d: %s" % (i, e[-600:]))
    if not ctx.counters.get("closes_with_live_clients"):
        ctx.inconclusive("no close() with clients still connected was observed")
    if not ctx.counters.get("departures_checked"):
        ctx.inconclusive("no departure was accounted for")

"""C07 - a hostile peer cannot step outside what the service exposes.

A grammar fuzzer speaks well-framed protocol (independent codec, lib/rv/refcodec.py) at a real default-configuration
Connection that serves a canary object graph.  Monitors on the serving side: canary descriptors (reads of denied
names, calls of non-exposed callables, writes, deletes, pickling hooks), secret tokens searched in every outgoing
byte, identifiers resolved vs. identifiers ever sent to this peer on this connection, audit hook (import / exec /
pickle) judged by peer-supplied content, a snapshot of the service state, a well-behaved sibling connection.
"""
import builtins
import os
import shutil
import struct
import sys
import tempfile
import threading
import time
import zlib

from rv import canary, gen, refcodec as rc, vnet

PROPERTY = "C07"
LEVEL = "exploration"
RULE = ("sessions of <= 200 well-framed messages against one default-config connection: every message kind, handler ids "
        "-3..40, per-handler argument templates with the right arity (object = identifier harvested from this connection / "
        "from a sibling connection to the same service / forged from ids of objects never sent; names from a vocabulary of "
        "denied, dunder and exposed names; comparison-operator names; pickle protocol numbers) as well as arguments built from "
        "all four labels and invalid labels with arbitrary payloads, id-pack-shaped tuples with references inside; arbitrary sequence numbers; replies/exceptions that "
        "answer the server's own requests with hostile method lists or crafted exception records. distinct = the message "
        "bytes modulo identifiers; non-trivial = every message (each is dispatched by the real connection)")
ASSUMPTIONS = ["default configuration, except sync_request_timeout=2 s on the serving side so that an unanswered INSPECT does not "
               "stall the run (not an access-control switch)",
               "introspection reads that rpyc itself performs on any object it handles (__class__, __dict__ via dir(), __name__, "
               "____id_pack__, ____conn__, keys, __exit__) run no getter of a denied name and are not violations",
               "a session that ends the connection is allowed by the statement"]
SHARDS = {"quick": 1, "thorough": 16}
MIN_DISTINCT = {"quick": 5000, "thorough": 200000}

SECRETS = {}
DENIED_NAMES = {"_hidden", "secret", "dangerous", "vault", "_token", "public_attr", "not_exposed", "wipe", "_rpyc_secret"}
LOG = []


def new_secret(tag):
    s = "rvC07SECRET-%s-%d" % (tag, len(SECRETS))
    SECRETS[s] = tag
    return s


class Watched(object):
    """logs reads of denied names, every write and delete, and pickling hooks"""

    def __getattribute__(self, name):
        if name in DENIED_NAMES or name in ("__reduce_ex__", "__reduce__", "__getstate__"):
            LOG.append(("get", type(self).__name__, name))
        return object.__getattribute__(self, name)

    def __setattr__(self, name, value):
        LOG.append(("set", type(self).__name__, name))
        object.__setattr__(self, name, value)

    def __delattr__(self, name):
        LOG.append(("del", type(self).__name__, name))
        object.__delattr__(self, name)


class Vault(Watched):
    """never sent to any peer: any access at all is a violation"""

    def __init__(self):
        object.__setattr__(self, "gold", new_secret("vault"))

    def __getattribute__(self, name):
        if not name.startswith("__") or name in ("__reduce_ex__", "__dict__"):
            LOG.append(("vault-touched", name))
        return object.__getattribute__(self, name)

    def exposed_open(self):
        LOG.append(("vault-opened",))
        return object.__getattribute__(self, "gold")


class Item(Watched):
    exposed_value = "public-ok"

    def __init__(self, k):
        object.__setattr__(self, "_hidden", new_secret("item._hidden"))
        object.__setattr__(self, "secret", new_secret("item.secret"))
        object.__setattr__(self, "exposed_k", k)

    def exposed_touch(self, *a, **k):
        return "touched"

    def dangerous(self, *a, **k):
        LOG.append(("called", "Item.dangerous"))
        return object.__getattribute__(self, "secret")

    def __eq__(self, other):
        return self is other

    def __hash__(self):
        return 7

    def __getitem__(self, k):
        if type(k) is int and not 0 <= k < 3:
            raise IndexError(k)          # finite: iteration through the sequence protocol must end
        return ("item", k) if rc.plain_immutable(k) else "ref"


class Seq(object):
    """a small sequence handed out by reference: supports indexing, len, iteration - but no repetition operators, so a hostile
    `seq * 2**33` cannot make the serving process allocate gigabytes (a denial of service that the property does not cover)"""

    def __init__(self, *xs):
        self._xs = xs

    def __getitem__(self, i):
        return self._xs[i]

    def __len__(self):
        return len(self._xs)

    def __iter__(self):
        return iter(self._xs)


def make_service():
    import rpyc

    class CanarySvc(Watched, rpyc.Service):
        def __init__(self):
            object.__setattr__(self, "vault", Vault())
            object.__setattr__(self, "_token", new_secret("svc._token"))
            object.__setattr__(self, "public_attr", new_secret("svc.public_attr"))
            object.__setattr__(self, "items", [Item(i) for i in range(3)])
            object.__setattr__(self, "counter", 0)

        def exposed_ping(self, x=None):
            return x

        def exposed_item(self, i=0):
            return object.__getattribute__(self, "items")[i % 3]

        def exposed_pair(self):
            return (object.__getattribute__(self, "items")[1], Seq(1, 2))

        def exposed_apply(self, fn, x):
            return fn(x)

        def not_exposed(self, *a):
            LOG.append(("called", "Svc.not_exposed"))
            return object.__getattribute__(self, "_token")

        def wipe(self):
            LOG.append(("called", "Svc.wipe"))
    return CanarySvc


def state_snapshot(svc):
    g = object.__getattribute__
    d = dict(g(svc, "__dict__"))
    items = [dict(g(i, "__dict__")) for i in d["items"]]
    vault = dict(g(d["vault"], "__dict__"))
    return (sorted((k, repr(v)) for k, v in d.items() if k not in ("items", "vault")), items, vault)


class RawClient(object):
    """frame-level fuzzer client on the A end of the in-memory link"""

    def __init__(self, net):
        self.net = net
        self.s = net.a
        self.seq = 1000
        self.harvested = []       # id_packs the server sent us as REMOTE_REF
        self.answered = 0
        self.server_requests = 0
        self.textlike = {}        # instance id of a forged "text-like" object of ours -> the name it claims to add up to
        self.adaptive_answers = 0

    def send(self, kind, seq, args):
        try:
            self.s.write(rc.msg(kind, seq, args, compress=True))
            return True
        except EOFError:
            return False
        except TypeError:
            return True      # not encodable: nothing sent

    def pump(self, rng, vocab):
        """consume every complete frame the server sent; answer its requests; returns list of messages"""
        out = []
        rx = self.s.rx
        while True:
            with self.net.waiter.cond:
                if len(rx.buf) < 5:
                    break
                n, flag = struct.unpack(">IB", rx.buf[:5])
                if len(rx.buf) < 5 + n + 1:
                    break
                body = bytes(rx.buf[5:5 + n])
                del rx.buf[:5 + n + 1]
            try:
                payload = zlib.decompress(body) if flag else body
                m = rc.parse_message(payload)
            except Exception:
                continue
            out.append(m)
            for idp in rc.remote_ref_ids(m["args"]) if m["kind"] == rc.MSG_REPLY else ():
                if type(idp) is tuple and len(idp) == 3:
                    self.harvested.append(idp)
            if m["kind"] == rc.MSG_REQUEST:
                self.server_requests += 1
                self.answer(rng, vocab, m)
        return out

    def adaptive(self, rng, m):
        """the server asks about one of OUR forged text-like objects (sent where an attribute name belongs): say whatever helps -
        it does not start with any prefix, hashes to nothing known, equals nothing, and 'prefix + it' is the name we are after.
        -> reply args or None"""
        H = rc.HANDLERS
        boxed = m.get("boxed")
        handler = m.get("handler")
        try:
            if handler == H["INSPECT"]:
                idp = boxed[1][0] if boxed[0] == rc.LABEL_VALUE else None
                if type(idp) is tuple and len(idp) == 3 and idp[2] in self.textlike:
                    return (rc.LABEL_VALUE, tuple((n, None) for n in ("startswith", "__radd__", "__add__", "__hash__", "__eq__", "__ne__", "__str__",
                                                                      "__len__", "encode", "__contains__", "__getitem__", "__iter__", "__format__", "lower")))
                return None
            first = boxed[1][0] if boxed[0] == rc.LABEL_TUPLE else None
            if not (type(first) is tuple and first[0] == rc.LABEL_LOCAL_REF and type(first[1]) is tuple and len(first[1]) == 3 and first[1][2] in self.textlike):
                return None
            target = self.textlike[first[1][2]]
            meth = None
            if type(target) is tuple:
                # one of the bound methods we handed out for such an object: it is being called now
                if handler != H["CALL"]:
                    return None
                meth, target = target
            if handler == H["GETATTR"]:
                # plain method names are fetched first and called afterwards: hand out a function of ours and remember what it is
                want = boxed[1][1][1]
                fid = 2 * 10 ** 9 + len(self.textlike)
                self.textlike[fid] = (want, target)
                return (rc.LABEL_REMOTE_REF, ("builtins.function", 4141, fid))
            if handler == H["CALLATTR"] or meth is not None:
                if meth is None:
                    meth = boxed[1][1][1]
                if meth in ("startswith", "__eq__", "__contains__"):
                    return (rc.LABEL_VALUE, False)
                if meth in ("__ne__",):
                    return (rc.LABEL_VALUE, True)
                if meth in ("__radd__", "__add__", "__str__", "__format__", "lower"):
                    return (rc.LABEL_VALUE, target)
                if meth == "__hash__":
                    return (rc.LABEL_VALUE, rng.randrange(1, 2 ** 40))
                if meth == "__len__":
                    return (rc.LABEL_VALUE, len(target))
                if meth == "encode":
                    return (rc.LABEL_VALUE, target.encode("utf8"))
                return (rc.LABEL_VALUE, target)
            if handler == H["HASH"]:
                return (rc.LABEL_VALUE, rng.randrange(1, 2 ** 40))
            if handler == H["CMP"]:
                return (rc.LABEL_VALUE, False)
            if handler in (H["STR"], H["REPR"]):
                return (rc.LABEL_VALUE, target)
        except Exception:
            return None
        return None

    def answer(self, rng, vocab, m):
        smart = self.adaptive(rng, m)
        if smart is not None:
            self.send(rc.MSG_REPLY, m["seq"], smart)
            self.answered += 1
            self.adaptive_answers += 1
            return
        c = rng.randrange(10)
        seq = m["seq"]
        if rng.random() < (.25 if m.get("handler") != rc.HANDLERS["HASH"] else .6):
            # before answering, make the server dispatch another request of ours while it is waiting for this answer
            # (more often when it asks for the hash of a proxy we forged: it may be using it as a key somewhere)
            self.seq += 1
            h, boxed = gen_request(rng, self, vocab)
            self.send(rc.MSG_REQUEST, self.seq, (h, boxed))
        handler = m.get("handler")
        if c < 5 and handler == rc.HANDLERS["INSPECT"]:
            methods = tuple((rng.choice(METHOD_NAMES), rng.choice([None, "doc", 5])) for _ in range(rng.randrange(0, 8)))
            self.send(rc.MSG_REPLY, seq, (rc.LABEL_VALUE, methods))
        elif c < 7:
            self.send(rc.MSG_REPLY, seq, (rc.LABEL_VALUE, gen.gen_plain(rng, 2, surrogates=False)))
        elif c < 9:
            self.send(rc.MSG_EXCEPTION, seq, gen.gen_exc_payload(rng, vocab))
        else:
            self.send(rc.MSG_REPLY, seq, gen_boxed(rng, self, vocab, 0))
        self.answered += 1


def _textlike_classes():
    """names of classes loaded in this process that are kinds of text / bytes without being the built-in types themselves"""
    out = []
    for modname, mod in sorted(sys.modules.items()):
        if mod is None or modname.startswith(("rv", "checks")):
            continue
        for n, k in sorted(getattr(mod, "__dict__", {}).items()):
            if isinstance(k, type) and issubclass(k, (str, bytes)) and k not in (str, bytes) and getattr(k, "__module__", None) == modname and k.__name__ == n:
                out.append("%s.%s" % (modname, n))
    return out[:12] + ["builtins.str", "builtins.bytes"]


TEXTLIKE = _textlike_classes()
# class names that place the class in a submodule which is NOT loaded although its package is: nothing the peer says may make
# the victim load it
BAIT_MODULES = ["encodings.rot_13", "encodings.punycode", "encodings.bz2_codec", "encodings.uu_codec", "json.tool", "email.mime.audio", "xml.dom.minidom"]
BAIT_NAMES = [m + "." + k for m in BAIT_MODULES for k in ("Codec", "X")]
METHOD_NAMES = ["__call__", "__len__", "__iter__", "__next__", "__getitem__", "__class__", "__init__", "__del__", "____conn__",
                "__getattribute__", "__slots__", "__dict__", "__eq__", "__hash__", "__enter__", "__exit__", "__reduce_ex__",
                "__init_subclass__", "__set_name__", "__array__", "__getslice__", "mro", "x", "", 5, None, b"bytes", ("t",),
                "__instancecheck__", "__subclasscheck__", "__bool__", "__repr__", "__str__", "__setattr__", "__new__"]
ATTR_VOCAB = ["exposed_value", "value", "exposed_touch", "touch", "exposed_k", "k", "exposed_ping", "ping", "exposed_item", "item",
              "_hidden", "secret", "dangerous", "vault", "_token", "public_attr", "not_exposed", "wipe", "__class__", "__dict__",
              "__init__", "__reduce_ex__", "__getattribute__", "__setattr__", "__delattr__", "__subclasses__", "__globals__",
              "__code__", "__func__", "__self__", "__module__", "__doc__", "__eq__", "__hash__", "__getitem__", "__call__",
              "items", "counter", "gold", "exposed_open", "open", "_rpyc_getattr", "_rpyc_setattr", "_local_root", "_config",
              "__mro__", "mro", "__base__", "__bases__", "__weakref__", "exposed_", "", "exposed__hidden", b"secret", b"_hidden",
              b"\xff", 5, None, ("secret",), "é", "exposed_apply", "apply", "get_service_name", "exposed_get_service_name",
              "_connect", "on_connect", "_protocol", "ALIASES"]
CMP_OPS = ["__eq__", "__ne__", "__lt__", "__hash__", "__cmp__", "__getattribute__", "__setattr__", "__delattr__", "__init__",
           "__reduce_ex__", "__class__", "dangerous", "__dict__", "__subclasshook__", "__getitem__", "__call__", "mro", "__new__",
           "__format__", "__dir__", "__sizeof__", "__repr__", "__str__", 5, None, b"__getattribute__", "__le__", "__ge__", "__gt__"]


def gen_idpack(rng, cli, vocab):
    c = rng.randrange(10)
    if c < 5 and cli.harvested:
        return rng.choice(cli.harvested)
    if c < 7 and vocab["sibling_ids"]:
        return rng.choice(vocab["sibling_ids"])
    if c < 9:
        return rng.choice(vocab["forged_ids"])
    return rng.choice([("x", 1, 2), (), ("builtins.list", 0, 0), (1, 2, 3), ("a",), None, 5, ("builtins.type", -1, 10 ** 30),
                       ("checks.c07_hostile_peer.Vault", 0, 0), (vocab["canary_module"] + ".Evil", 11, 12), (vocab["canary_module"] + ".Evil", 11, 0),
                       ("rv_evil_1.K", 5, 0), ("rv_evil_2.sub.K", 5, 6)])


def gen_boxed(rng, cli, vocab, depth):
    c = rng.randrange(12)
    if c < 4:
        return (rc.LABEL_VALUE, gen.gen_plain(rng, 3, surrogates=False))
    if c < 6 and depth < 3:
        return (rc.LABEL_TUPLE, tuple(gen_boxed(rng, cli, vocab, depth + 1) for _ in range(rng.randrange(0, 4))))
    if c < 9:
        return (rc.LABEL_LOCAL_REF, gen_idpack(rng, cli, vocab))
    if c < 11:
        name = rng.choice(["builtins.list", "builtins.function", "builtins.dict", "builtins.type", "evil.Klass", "builtins.object",
                           vocab["canary_module"] + ".Evil", "checks.c07_hostile_peer.Vault", "os.system", 5, None] + BAIT_NAMES[:4] + [rng.choice(BAIT_NAMES)])
        return (rc.LABEL_REMOTE_REF, (name, rng.randrange(1, 10 ** 6), rng.choice([0, rng.randrange(1, 10 ** 6)])))
    return rng.choice([(rng.randrange(-2, 9), gen.gen_plain(rng, 3, surrogates=False)), (rc.LABEL_TUPLE, 5), (rc.LABEL_LOCAL_REF, None),
                       (rc.LABEL_REMOTE_REF, ("a",)), (rc.LABEL_REMOTE_REF, 7), (1, 2, 3), (), "notabox", (rc.LABEL_TUPLE, ((1,),))])


def gen_request(rng, cli, vocab):
    """(handler, boxed args)"""
    H = rc.HANDLERS
    last = vocab.get("last")
    if last is not None and rng.random() < .3:
        # stateful follow-up: the same object and the same name as in the previous request, through another operation
        # (probe, then exploit: anything the connection remembers about a name must not outlive the operation it was for)
        o, n = last
        h = rng.choice(["GETATTR", "SETATTR", "DELATTR", "CALLATTR", "CMP", "SETATTR", "DELATTR"])
        if h == "GETATTR":
            return H[h], (rc.LABEL_TUPLE, (o, n))
        if h == "SETATTR":
            return H[h], (rc.LABEL_TUPLE, (o, n, (rc.LABEL_VALUE, "pwned")))
        if h == "DELATTR":
            return H[h], (rc.LABEL_TUPLE, (o, n))
        if h == "CALLATTR":
            return H[h], (rc.LABEL_TUPLE, (o, n, (rc.LABEL_VALUE, ()), (rc.LABEL_VALUE, ())))
        return H["CMP"], (rc.LABEL_TUPLE, (o, o, n))

    def obj():
        o = (rc.LABEL_LOCAL_REF, gen_idpack(rng, cli, vocab))
        vocab["_o"] = o
        return o

    def val(v):
        return (rc.LABEL_VALUE, v)

    def name():
        if rng.random() < .1:
            # not a text at all but a reference to an object of OURS whose class claims to be a kind of text; every question the
            # server asks about it is answered adaptively (RawClient.adaptive)
            oid = rng.randrange(10 ** 6, 10 ** 9)
            cli.textlike[oid] = rng.choice(["_hidden", "secret", "dangerous", "vault", "_token", "not_exposed", "wipe", "__dict__", "__class__"])
            n = (rc.LABEL_REMOTE_REF, (rng.choice(TEXTLIKE), rng.randrange(1, 10 ** 6), oid))
        else:
            n = val(rng.choice(ATTR_VOCAB))
        vocab["_n"] = n
        return n

    def T(*items):
        return (rc.LABEL_TUPLE, tuple(items))
    c = rng.randrange(20)
    if c == 0:
        return rng.randrange(-3, 41), gen_boxed(rng, cli, vocab, 0)
    if c == 1:
        return rng.choice([None, "4", 4.0, (4,), True, 10 ** 20]), gen_boxed(rng, cli, vocab, 0)
    h = rng.choice(["GETATTR", "GETATTR", "SETATTR", "DELATTR", "CALLATTR", "CALLATTR", "CALL", "CMP", "CMP", "PICKLE", "DEL", "INSPECT",
                    "BUFFITER", "OLDSLICING", "CTXEXIT", "INSTANCECHECK", "HASH", "REPR", "STR", "DIR", "GETROOT", "PING", "CALLATTR_ROOT"])
    if h == "GETATTR":
        return H[h], T(obj(), name())
    if h == "SETATTR":
        return H[h], T(obj(), name(), rng.choice([val("pwned"), obj()]))
    if h == "DELATTR":
        return H[h], T(obj(), name())
    if h == "CALLATTR":
        return H[h], T(obj(), name(), val(tuple(gen.gen_plain(rng, 3, surrogates=False) for _ in range(rng.randrange(0, 3)))), val(()))
    if h == "CALLATTR_ROOT":
        n = rng.choice(["exposed_item", "item", "exposed_pair", "pair", "exposed_ping", "ping", "not_exposed", "wipe", "exposed_apply", "apply"])
        root = (rc.LABEL_LOCAL_REF, vocab["root_id"][0]) if vocab["root_id"] else obj()
        if n.endswith("apply"):
            fn = (rc.LABEL_REMOTE_REF, ("builtins.function", 77, rng.randrange(1, 999)))
            return H["CALLATTR"], T(root, val(n), T(fn, val(1)), val(()))
        return H["CALLATTR"], T(root, val(n), val((rng.randrange(3),) if "item" in n else ()), val(()))
    if h == "CALL":
        return H[h], T(obj(), val(()), val(rng.choice([(), (("k", 1),), ((5, 1),), "kw", ((1,),)])))
    if h == "CMP":
        return H[h], T(obj(), rng.choice([obj(), name()]), val(rng.choice(CMP_OPS)))
    if h == "PICKLE":
        return H[h], T(obj(), val(rng.choice([0, 2, -1, 5, "x"])))
    if h == "DEL":
        return H[h], T(obj(), val(rng.choice([1, 0, -1, 10 ** 9, "x", None])))
    if h == "INSPECT":
        if rng.random() < .3:
            # something shaped like an id pack (a 3-tuple, or nearly) with references inside
            def slot():
                c = rng.randrange(6)
                if c == 0:
                    return obj()
                if c < 3:
                    return (rc.LABEL_REMOTE_REF, (rng.choice(["builtins.int", "builtins.str", "builtins.list", "evil.Klass"]),
                                                  rng.randrange(1, 99), rng.choice([0, 0, rng.randrange(1, 99)])))
                return val(rng.choice(["builtins.list", "x.Y", 0, 1, rng.randrange(10 ** 6), None]))
            return H[h], T(T(*[slot() for _ in range(rng.choice([3, 3, 3, 2, 4]))]))
        if rng.random() < .4:
            return H[h], T(rng.choice([obj(), (rc.LABEL_REMOTE_REF, ("builtins.list", 5, rng.randrange(1, 99))), gen_boxed(rng, cli, vocab, 1)]))
        return H[h], val((gen_idpack(rng, cli, vocab),))
    if h == "BUFFITER":
        return H[h], T(obj(), val(rng.choice([1, 10, -1, 10 ** 12, "x"])))
    if h == "OLDSLICING":
        return H[h], T(obj(), name(), name(), val(0), val(rng.choice([None, 5])), val(()))
    if h == "CTXEXIT":
        return H[h], T(obj(), rng.choice([val(None), val("exc"), name(), obj(), (rc.LABEL_REMOTE_REF, ("builtins.Exception", 5, 6))]))
    if h == "INSTANCECHECK":
        return H[h], T(obj(), val(gen_idpack(rng, cli, vocab)))
    if h in ("HASH", "REPR", "STR", "DIR"):
        return H[h], T(obj())
    if h == "GETROOT":
        return H[h], val(())
    return H["PING"], val((gen.gen_plain(rng, 3, surrogates=False),))


def kpart(x):
    """mechanism-key part: identifier-like text only"""
    if isinstance(x, str) and len(x) < 40 and x.replace("_", "").isalnum():
        return x
    return "<%s>" % type(x).__name__


def canon(obj, ids):
    """message modulo identifiers (for distinctness)"""
    if type(obj) is tuple:
        if len(obj) == 3 and type(obj[0]) is str and type(obj[1]) is int and type(obj[2]) is int:
            return ("ID", obj[0])
        return tuple(canon(x, ids) for x in obj)
    return obj


def session(ctx, rng, idx, vocab_base):
    import rpyc
    from rpyc.lib import get_id_pack
    from rpyc.lib.colls import RefCountingColl
    from rpyc.core.channel import Channel
    Svc = make_service()
    del LOG[:]
    svc = Svc()
    sib_svc = Svc()
    # sibling: a well-behaved connection to the same service class
    sib = vnet.ServedPair(rpyc.VoidService(), sib_svc)
    sib_item = sib.a.root.item(1)
    sibling_ids = [tuple(object.__getattribute__(sib_item, "____id_pack__"))]
    net = vnet.Net()
    b = svc._connect(Channel(net.b), {"sync_request_timeout": 2})

    class Rec(object):
        resolved, added = [], []
    rec = Rec()
    rec.resolved, rec.added = [], []
    orig_getitem = RefCountingColl.__getitem__

    def rec_getitem(self, key):
        v = orig_getitem(self, key)
        if self is b._local_objects:
            rec.resolved.append(key)
        return v
    RefCountingColl.__getitem__ = rec_getitem
    server_exc = []

    def serve():
        try:
            b.serve_all()
        except BaseException as e:
            server_exc.append(e)
    g = object.__getattribute__
    hidden_objs = [g(svc, "vault"), g(svc, "items")[2], g(sib_svc, "items")[0], g(sib_svc, "vault"), svc.__class__, sys, builtins]
    forged = [get_id_pack(o) for o in hidden_objs] + [("builtins.module", id(type(sys)), id(os)), ("x.Y", 1, id(g(svc, "vault")))]
    vocab = dict(vocab_base, sibling_ids=sibling_ids, forged_ids=forged, root_id=[], last=None)
    before = state_snapshot(svc)
    secrets_before = set(SECRETS)
    th = threading.Thread(target=serve, daemon=True, name="rv-server-conv")
    cli = RawClient(net)
    nmsg = 0
    ended = False
    for m in BAIT_MODULES:
        sys.modules.pop(m, None)
    with canary.watch(needles=("rv_evil_", vocab["canary_module"]) + tuple(BAIT_MODULES), all_threads=True) as sc, canary.ImportSpy() as spy:
        th.start()
        # legitimate opening moves so that identifiers can be harvested
        cli.send(rc.MSG_REQUEST, 1, (rc.HANDLERS["GETROOT"], (rc.LABEL_VALUE, ())))
        wait_processed(cli, rng, vocab, net, b)
        if cli.harvested:
            vocab["root_id"].append(cli.harvested[0])
        for _ in range(rng.randrange(10, 200)):
            if b.closed or net.a.closed:
                ended = True
                break
            c = rng.randrange(10) if rng.random() < .06 else 0
            cli.seq += 1
            seq = cli.seq if rng.random() < .9 else rng.choice([0, 1, -1, 10 ** 12, "s", None, cli.seq - 1])
            if c < 8:
                vocab.pop("_o", None), vocab.pop("_n", None)
                handler, boxed = gen_request(rng, cli, vocab)
                if "_o" in vocab and "_n" in vocab:
                    vocab["last"] = (vocab["_o"], vocab["_n"])
                msg = (rc.MSG_REQUEST, seq, (handler, boxed))
            elif c == 8:
                msg = (rng.choice([rc.MSG_REPLY, rc.MSG_EXCEPTION]), seq, rng.choice([gen_boxed(rng, cli, vocab, 0), gen.gen_exc_payload(rng, vocab)]))
            else:
                msg = rng.choice([(rng.randrange(-2, 9), seq, gen.gen_plain(rng, 2, surrogates=False)), (rc.MSG_REQUEST, seq), (rc.MSG_REQUEST, seq, 5),
                                  (rc.MSG_REQUEST, seq, (4,)), gen.gen_plain(rng, 2, surrogates=False), (rc.MSG_REQUEST, seq, (4, 5, 6))])
            try:
                raw = rc.frame(rc.encode(msg))
            except (TypeError, RecursionError):
                continue
            ctx.case(("msg", canon(msg, None)))
            nmsg += 1
            try:
                net.a.write(raw)
            except EOFError:
                ended = True
                break
            if wait_processed(cli, rng, vocab, net, b) == "silent":
                # no answer to the sentinel for seconds: no verdict by itself, but no point in sending more; the state-based
                # oracles below decide what this silence is
                ctx.count("sessions_cut_after_unanswered_sentinel")
                break
        ctx.count("messages_sent", nmsg)
        ctx.count("server_requests_answered", cli.answered)
        ctx.count("server_questions_about_forged_names_answered_adaptively", cli.adaptive_answers)
        if ended or b.closed:
            ctx.count("sessions_ended_by_server")
        try:
            net.a.close()
        except Exception:
            pass
        th.join(10)
    RefCountingColl.__getitem__ = orig_getitem
    wedged = th.is_alive() and b._local_objects._lock.locked()
    if wedged:
        # state, not time: the transport is closed and every wait of the serving thread is bounded, yet the thread is still there
        # and the lock of its table of lent objects is held - it is blocked on itself and will never end
        time.sleep(3)
        wedged = th.is_alive() and b._local_objects._lock.locked()
    wit = dict(session=idx)
    if wedged:
        ctx.violation("C07/serving-thread-wedged", "after the peer's messages the serving thread neither answered nor ended the connection: it still "
                      "exists after its transport was closed and holds the lock of the connection's table of lent objects (blocked on itself)", wit)
    # ---- verdicts
    sent = net.raw("B->A")
    for s, tag in SECRETS.items():
        if s.encode() in sent:
            ctx.violation("C07/secret-disclosed/%s" % tag, "the value of %s travelled to the peer" % tag, wit)
    for ev in LOG:
        if ev[0] == "get" and ev[2] in DENIED_NAMES:
            ctx.violation("C07/denied-attribute-touched/%s.%s" % (ev[1], kpart(ev[2])), "attribute %s of %s was read for the peer" % (ev[2], ev[1]), wit)
        elif ev[0] == "get":
            ctx.violation("C07/pickling-started/%s" % kpart(ev[2]), "the serving side started to pickle an object (%s) although pickling is disabled" % ev[2], wit)
        elif ev[0] in ("set", "del"):
            ctx.violation("C07/attribute-%s/%s.%s" % (ev[0], ev[1], kpart(ev[2])), "the peer managed to %s attribute %s of %s" % (ev[0], ev[2], ev[1]), wit)
        elif ev[0] == "called":
            ctx.violation("C07/non-exposed-called/%s" % ev[1], "%s was invoked for the peer" % ev[1], wit)
        elif ev[0].startswith("vault"):
            ctx.violation("C07/never-sent-object-reached", "an object that was never sent to the peer was accessed (%r)" % (ev,), wit)
    boxed_ids = set()
    frames, _ = net.frames("B->A")
    for m in frames:
        for idp in rc.remote_ref_ids(m["args"]) if m["kind"] in (rc.MSG_REPLY, rc.MSG_REQUEST) else ():
            if type(idp) is tuple:
                boxed_ids.add(tuple(idp))
        if m["kind"] == rc.MSG_REQUEST and type(m.get("boxed")) is tuple:
            for idp in rc.remote_ref_ids(m["boxed"]):
                boxed_ids.add(tuple(idp))
    ctx.count("ids_resolved", len(rec.resolved))
    for key in rec.resolved:
        if tuple(key) not in boxed_ids:
            ctx.violation("C07/unsent-id-resolved", "identifier %r resolved to an object although it was never sent to this peer on this connection" % (key[0],), wit)
    bad_audit = sc.hits()
    if bad_audit:
        ctx.violation("C07/audit/%s" % bad_audit[0][0], "audit event %s mentions peer-supplied content: %r" % (bad_audit[0][0], bad_audit[0][1][:100]), wit)
    if sc.of_kind("pickle.find_class"):
        ctx.violation("C07/audit/unpickle", "the serving side unpickled something", wit)
    evil_imports = [n for n in spy.names if isinstance(n, str) and (n.startswith("rv_evil_") or n == vocab["canary_module"] or n in BAIT_MODULES)]
    evil_imports += [m for m in BAIT_MODULES if m in sys.modules]
    if evil_imports:
        ctx.violation("C07/import-attempt", "the serving side tried to import %r named by the peer" % (evil_imports[:2],), wit)
    if vocab["import_log"]:
        ctx.violation("C07/module-executed", "a module named by the peer was imported and executed", wit)
        del vocab["import_log"][:]
    after = state_snapshot(svc)
    if after != before:
        ctx.violation("C07/service-state-changed", "the service's state differs after the session", wit)
    why = None
    try:
        ok = sib.a.root.ping(("sib", idx)) == ("sib", idx) and sib_item.exposed_k == 1
    except BaseException as e:
        ok = False
        why = "%s: %s; sibling server thread alive=%s exc=%r a.closed=%s b.closed=%s" % (
            type(e).__name__, str(e)[:300], sib.thread.is_alive(), sib.server_exc, sib.a.closed, sib.b.closed)
    if not ok:
        ctx.violation("C07/sibling-connection-broken", "a well-behaved connection to the same service stopped working (%s)" % (why,), wit)
    del sib_item
    sib.close()
    if not wedged:            # close() would block on the same lock for ever
        try:
            b.close()
        except Exception:
            pass
    if server_exc:
        ctx.count("server_thread_ended_with_" + type(server_exc[0]).__name__)
    return nmsg


def wait_processed(cli, rng, vocab, net, b):
    """let the server consume what was sent: a PING sentinel is answered after everything before it was dispatched"""
    cli.seq += 1
    sentinel = cli.seq
    try:
        net.a.write(rc.msg(rc.MSG_REQUEST, sentinel, (rc.HANDLERS["PING"], (rc.LABEL_VALUE, ("sentinel",)))))
    except EOFError:
        return
    import time
    t0 = time.time()
    while time.time() - t0 < 6:
        for m in cli.pump(rng, vocab):
            if m["kind"] == rc.MSG_REPLY and m["seq"] == sentinel:
                return
        if b.closed or net.a.closed or net.b.closed:
            return
        time.sleep(0.0005)
    return "silent"


EXC_CANARY_LOG = []


class AuditedError(Exception):
    """an application's exception class whose attributes have effects (a property setter, an instrumented __setattr__): a victim
    that is not configured to re-create custom exceptions must never run any of this for a peer"""

    @property
    def target(self):
        return self.__dict__.get("_target")

    @target.setter
    def target(self, value):
        EXC_CANARY_LOG.append(("setter", repr(value)[:40]))
        self.__dict__["_target"] = value

    def __setattr__(self, name, value):
        EXC_CANARY_LOG.append(("setattr", name))
        Exception.__setattr__(self, name, value)


def forged_exception_records(ctx, rng):
    """crafted exception records on a connection with the DEFAULT configuration, in a process where another connection - one whose
    owner chose to trust its peer (instantiate_custom_exceptions) - has just legitimately received the very class they name: what
    the trusting connection was allowed to re-create gives this one no permission. Oracle: the canary class's setter / __setattr__
    log stays empty and what surfaces is not an instance of the class."""
    import rpyc
    from rpyc.core.async_ import AsyncResult
    modname = AuditedError.__module__
    if sys.modules.get(modname) is None or getattr(sys.modules[modname], "AuditedError", None) is not AuditedError:
        ctx.inconclusive("forged exception records: the canary class is not reachable under its module name %r" % modname)
        return
    box = {}

    class Thrower(rpyc.Service):
        def exposed_throw(self):
            raise box["exc"]
    for order in ("trusting-first", "default-only"):
        if order == "trusting-first":
            trusting = vnet.ServedPair(rpyc.VoidService(), Thrower(), cfg_a=dict(instantiate_custom_exceptions=True, import_custom_exceptions=True))
            try:
                box["exc"] = AuditedError("legitimate")
                try:
                    trusting.a.root.throw()
                except AuditedError:
                    ctx.count("custom_exception_received_by_a_trusting_connection")
                except Exception:
                    pass
            finally:
                box.clear()
                trusting.close()
        del EXC_CANARY_LOG[:]
        pair = vnet.ServedPair(rpyc.VoidService(), rpyc.VoidService())
        try:
            for attrs in ((("target", "/etc/shadow"),), (("target", 1), ("note", "x")), ()):
                payload = ((modname, "AuditedError"), ("forged",), attrs, "traceback text")
                a = pair.a
                seq = a._get_seq_id()
                res = AsyncResult(a)
                a._request_callbacks[seq] = res
                pair.net.b.write(rc.msg(rc.MSG_EXCEPTION, seq, payload))
                built = None
                try:
                    res.set_expiry(5)
                    res.wait()
                    built = res._obj if res._is_exc else None
                except BaseException as e:
                    built = e
                ctx.count("forged_exception_records")
                ctx.case(("forged-exception-record", order, len(attrs)), nontrivial=True)
                wit = dict(family="forged-exception-record", order=order, payload=repr(payload)[:200])
                if EXC_CANARY_LOG:
                    ctx.violation("C07/denied-attribute-touched/exception-record", "a crafted exception record on a connection that does not allow custom exceptions "
                                  "ran code of the application's class %s: %r" % ("AuditedError", EXC_CANARY_LOG[:3]), wit)
                    del EXC_CANARY_LOG[:]
                elif isinstance(built, AuditedError):
                    ctx.violation("C07/exception-record/real-class-without-permission", "a crafted exception record was re-created as the application's real class "
                                  "on a connection that does not allow custom exceptions", wit)
        finally:
            pair.close()


def run(ctx):
    rng = ctx.rng
    scratch = tempfile.mkdtemp(prefix="rv_c07_")
    sys.path.insert(0, scratch)
    marker = "RV_C07_IMPORT_LOG"
    setattr(builtins, marker, [])
    modname = "rv_c07_canarymod_%d" % os.getpid()
    with open(os.path.join(scratch, modname + ".py"), "w") as f:
        f.write("import builtins\nbuiltins.%s.append('executed')\nclass Evil(Exception):\n    pass\n" % marker)
    vocab = dict(canary_module=modname, ctor_class=("checks.c09_exceptions", "CustomErr"), import_log=getattr(builtins, marker))
    try:
        if ctx.shard[0] == 0:
            forged_exception_records(ctx, rng)
        total = 0
        target = ctx.budget(12000, 1000000)
        i = 0
        while total < target:
            total += session(ctx, rng, i, vocab)
            i += 1
            if ctx.enough():
                break
        ctx.count("sessions", i)
        ctx.sample({"vocabulary sample": [repr(x) for x in ATTR_VOCAB[:12]], "comparison operators tried": [repr(x) for x in CMP_OPS[:8]]})
    finally:
        sys.path.remove(scratch)
        sys.modules.pop(modname, None)
        delattr(builtins, marker)
        shutil.rmtree(scratch, ignore_errors=True)
    if not ctx.counters["ids_resolved"]:
        ctx.inconclusive("no identifier was ever resolved (harvesting failed)")

"""C16 - a running server keeps serving every well-behaved client correctly whatever other clients do.

Real servers (ThreadedServer, ThreadPoolServer with 4 and 20 workers, ForkingServer; with and without a token
authenticator) run in child processes (rv.realnet). Well-behaved clients are harness threads using rpyc itself with
scripted, token-carrying call sequences; hostile clients are raw sockets. Rounds of N good || M hostile clients; after
each round a FRESH good client must be accepted and served and the control pipe must answer. Verdicts come from
results and from server state (threads alive, listener open); a watchdog firing alone is `inconclusive`.
"""
import struct
import threading
import time

from rv import gen, realnet as rn, refcodec as rc

PROPERTY = "C16"
LEVEL = "exploration"
RULE = ("per server kind (threaded, threadpool4, threadpool20, forking) x authenticator on/off: rounds of N well-behaved "
        "rpyc clients (scripted set/get, whoami, make()+use of the reference, echo of generated values, replay of a "
        "neighbour's object id on the own connection) running concurrently with M hostile raw-socket clients; 'pure' "
        "rounds use one hostile input class (random bytes, cut header, cut payload, absurd length, corrupt zlib, garbage "
        "brine, wrong message shapes, RST mid-request, requests abandoned before the reply, connect-and-leave, valid "
        "handshake then garbage, call then leave, and with an authenticator: wrong / short / cut token), 'mixed' rounds "
        "draw from all classes, 'churn' rounds are many short well-behaved sessions in parallel; every round ends with a "
        "fresh-client probe and a control-pipe state sample. distinct = (server, auth, round kind, multiset of hostile "
        "classes, number of good clients); non-trivial = at least one hostile client or >= 8 concurrent sessions")
ASSUMPTIONS = ["hostile clients always disconnect in the end (a silent client that keeps its socket open is not part of C16)",
               "servers run in child processes on the loopback interface / are driven over a control pipe; the test service "
               "is a Service class, so the server creates one instance per connection",
               "a request that is not answered within the client's watchdog (20-30 s) is a violation only together with "
               "state evidence (accept loop ended, worker or polling thread dead, listener closed); alone it is inconclusive",
               "object ids replayed on a foreign connection of the forking server may coincide with an object of the "
               "replaying client's own process; that is judged by content (the owner's token must not come back)"]
SHARDS = {"quick": 1, "thorough": 8}
MIN_DISTINCT = {"quick": 60, "thorough": 250}
WATCHDOG = {"quick": 600, "thorough": 3 * 3600}
STUCK_LIMIT = 240

SERVER_KINDS = ["threaded", "threadpool4", "threadpool20", "forking"]
BASE_CLASSES = ["random-bytes", "cut-header", "cut-payload", "absurd-length", "corrupt-zlib", "garbage-brine",
                "wrong-shape", "rst-mid-request", "request-no-wait", "connect-leave", "valid-then-garbage", "call-then-leave"]
AUTH_CLASSES = ["auth-wrong-token", "auth-short-token", "auth-cut-token"]
CLIENT_TIMEOUT = 30
CHURN_TIMEOUT = 8      # short sessions: an unanswered request is then judged on the server's state, not on the clock
LOST = (EOFError, ConnectionError, OSError)


def rbytes(rng, n):
    return bytes(rng.getrandbits(8) for _ in range(n))


def valid_pool():
    H = rc.HANDLERS
    msgs = [(rc.MSG_REQUEST, 1, (H["GETROOT"], rc.box_value(()))),
            (rc.MSG_REQUEST, 2, (H["PING"], rc.box_value(("abc" * 20,)))),
            (rc.MSG_REQUEST, 3, (H["CLOSE"], rc.box_value(()))),
            (rc.MSG_REPLY, 1, rc.box_value(5)),
            (rc.MSG_EXCEPTION, 7, ((("builtins", "ValueError"), ("x",), (), "tb"))),
            (rc.MSG_REQUEST, 4, (H["CALLATTR"], rc.box_args((rc.LABEL_LOCAL_REF, ("x.Y", 1, 2)), rc.box_value("echo"),
                                                             rc.box_value((1,)), rc.box_value(()))))]
    return [rc.encode(m) for m in msgs]


POOL = valid_pool()
WRONG_SHAPES = [5, (), (1,), (1, 2), (1, 2, 3, 4), ("1", 2, ()), (rc.MSG_REQUEST, "seq", ()), (rc.MSG_REQUEST, 1, 5),
                (rc.MSG_REQUEST, 1, (99, (1, ()))), (rc.MSG_REQUEST, 1, (rc.HANDLERS["GETROOT"],)), (9, 1, ()),
                (rc.MSG_REQUEST, -1, (rc.HANDLERS["PING"], (7, ()))), (rc.MSG_REQUEST, 2 ** 70, (rc.HANDLERS["PING"], (1, ("x",)))),
                (rc.MSG_REPLY, 1, ()), (rc.MSG_REPLY, 10 ** 6, (4, ("a.B", 1, 2))), (rc.MSG_EXCEPTION, 1, 5),
                (rc.MSG_EXCEPTION, 1, (("builtins", "SystemExit"), (1,), (), "")),
                (rc.MSG_REQUEST, 1, (rc.HANDLERS["DEL"], (3, ("builtins.list", 1, 2)))),
                (rc.MSG_REQUEST, 1, (rc.HANDLERS["CALL"], (2, ((3, ("x", 1, 2)), (1, ()), (1, ()))))),
                (rc.MSG_REQUEST, 1, (rc.HANDLERS["GETATTR"], (1, (None, "x")))), None, "text", b"bytes", 1.5]


def a_valid_request(rng):
    c = rng.randrange(3)
    if c == 0:
        return rc.request(rng.randrange(1, 99), rc.HANDLERS["GETROOT"], rc.box_value(()))
    if c == 1:
        return rc.request(rng.randrange(1, 99), rc.HANDLERS["PING"], rc.box_value(("p" * rng.choice([1, 50, 400, 5000]),)))
    return rc.request(rng.randrange(1, 99), rc.HANDLERS["PING"], rc.box_value((rbytes(rng, rng.choice([10, 300, 4000])),)))


def hostile_client(sp, cls, rng):
    """one misbehaving client; always ends by disconnecting. -> dict for evidence (never judged by itself)"""
    info = dict(cls=cls, sent=0)
    token = None
    if sp.auth and not cls.startswith("auth-"):
        # with an authenticator: most hostile input is sent behind a valid token (hits the protocol layer), the rest in
        # front of it (hits the authenticator as a bad token)
        token = True if rng.random() < 0.7 else None
        info["behind_token"] = bool(token)
    try:
        s = sp.raw(timeout=15, token=token)
    except (OSError, EOFError) as e:
        info["connect_error"] = type(e).__name__
        return info
    rst = rng.random() < 0.4
    try:
        def send(data):
            try:
                s.sendall(data)
                info["sent"] += len(data)
            except OSError:
                info["send_error"] = True

        def pause():
            d = rng.choice([0, 0, 0, 0.002, 0.01, 0.03])
            if d:
                time.sleep(d)
        if cls == "random-bytes":
            for _ in range(rng.randrange(1, 4)):
                send(rbytes(rng, rng.choice([1, 3, 5, 6, 17, 200, 3000])))
                pause()
        elif cls == "cut-header":
            send(a_valid_request(rng)[:rng.randrange(1, 5)])
            pause()
        elif cls == "cut-payload":
            if rng.random() < 0.3:
                send(struct.pack(">IB", 10 ** 6, 0) + b"x" * rng.choice([0, 1, 70000]))
            else:
                fr = a_valid_request(rng)
                send(fr[:rng.randrange(5, len(fr))])
            pause()
        elif cls == "absurd-length":
            send(struct.pack(">IB", rng.choice([0xFFFFFFFF, 0xFFFFFFFE, 0x80000000, 0x7FFFFFFF]), rng.choice([0, 1])) + rbytes(rng, rng.choice([0, 1, 100])))
            pause()
        elif cls == "corrupt-zlib":
            body = rng.choice([rbytes(rng, rng.choice([0, 1, 30, 500])), b"x\x9c" + rbytes(rng, 20),
                               __import__("zlib").compress(POOL[0])[:-3]])
            send(struct.pack(">IB", len(body), 1) + body + b"\n")
            if rng.random() < 0.5:
                send(a_valid_request(rng))
            pause()
        elif cls == "garbage-brine":
            for _ in range(rng.randrange(1, 4)):
                send(rc.frame(rbytes(rng, rng.choice([0, 1, 2, 9, 40, 300]))))
            pause()
        elif cls == "wrong-shape":
            for _ in range(rng.randrange(1, 5)):
                if rng.random() < 0.5:
                    send(rc.frame(gen.gen_hostile_bytes(rng, POOL)))
                else:
                    send(rc.frame(rc.encode(rng.choice(WRONG_SHAPES))))
            pause()
        elif cls == "rst-mid-request":
            fr = a_valid_request(rng)
            if rng.random() < 0.5:
                send(rc.request(1, rc.HANDLERS["GETROOT"], rc.box_value(())))
            send(fr[:rng.randrange(1, len(fr))])
            pause()
            rst = True
        elif cls == "request-no-wait":
            for _ in range(rng.choice([1, 2, 5, 40])):
                send(a_valid_request(rng))
            pause()
        elif cls == "connect-leave":
            pause()
        elif cls in ("valid-then-garbage", "call-then-leave"):
            sess = rn.RawSession(s)
            root = sess.getroot(watchdog=15)
            if type(root) is tuple and len(root) == 3:
                info["handshake"] = True
                if cls == "valid-then-garbage":
                    send(rng.choice([rbytes(rng, 40), rc.frame(rbytes(rng, 12)), struct.pack(">IB", 0xFFFFFFFF, 0),
                                     rc.frame(rc.encode(rng.choice(WRONG_SHAPES)))]))
                else:
                    name, args = rng.choice([("sleep", (rng.choice([0.02, 0.1, 0.25]),)), ("make", ()), ("echo", ("e" * 5000,)),
                                             ("whoami", ())])
                    send(sess.callattr_bytes(root, name, args))
                    if rng.random() < 0.3:
                        send(sess.callattr_bytes(root, "echo", (1,))[:rng.randrange(1, 12)])
                pause()
            else:
                info["handshake"] = False       # e.g. sent in front of the token: the authenticator rejected it
        elif cls == "auth-wrong-token":
            tok = rbytes(rng, 8)
            if tok == rn.TOKEN:
                tok = b"\x00" * 8
            send(tok)
            if rng.random() < 0.6:
                send(a_valid_request(rng))
            pause()
        elif cls == "auth-short-token":
            send(rng.choice([b"", rn.TOKEN[:rng.randrange(1, 8)], rbytes(rng, rng.randrange(1, 8))]))
            pause()
        elif cls == "auth-cut-token":
            k = rng.randrange(1, 8)
            send(rn.TOKEN[:k])
            time.sleep(rng.choice([0, 0.01, 0.05, 0.15]))
            if rng.random() < 0.5:
                rst = True
        else:
            raise AssertionError(cls)
    finally:
        if rst:
            rn.rst_close(s)
        else:
            s.close()
    info["rst"] = rst
    return info


class RoundBoard(object):
    """what the good clients of one round publish to each other"""

    def __init__(self, n):
        self.lock = threading.Lock()
        self.pub = {}
        self.b1 = threading.Barrier(n) if n > 1 else None
        self.b2 = threading.Barrier(n) if n > 1 else None

    def wait(self, barrier, watchdog=40):
        if barrier is None:
            return True
        try:
            barrier.wait(watchdog)
            return True
        except threading.BrokenBarrierError:
            return False


def good_client(sp, rng, tag, j, n, board, out, slow=False):
    """scripted well-behaved session. out: dict(problems=[(kind, what)], ...); kinds: lost, timeout, wrong, crosstalk,
    foreign, shared"""
    from rpyc.core import consts
    problems = out["problems"]
    tok = "%s/g%d/%s" % (tag, j, "%016x" % rng.getrandbits(64))
    conn = None
    step = "connect"
    try:
        my_id = "%05x" % rng.getrandbits(20)
        conn = sp.good(sync_timeout=CLIENT_TIMEOUT, identity=my_id)
        root = conn.root

        def call(name, *args):
            # one request per call (the form rpyc itself uses for special methods). Every request costs one 0.1 s poll
            # interval on the thread-pool server, and dropping a temporary bound-method proxy makes rpyc send an
            # asynchronous DEL whose reply delays the next one by a delayed ACK (~40 ms): wall time, not behaviour
            return conn.sync_request(consts.HANDLE_CALLATTR, root, name, args, ())
        echo = None if slow else root.echo      # the ordinary proxy path as well, on the fast servers
        step = "whoami"
        ident = tuple(call("whoami"))
        step = "identity"
        cred, endpoints = call("identity")
        if sp.auth and cred != my_id:
            problems.append(("crosstalk", "the connection carries the credentials %r of another client (mine are %r)" % (cred, my_id)))
        try:
            mine = conn._channel.stream.sock.getsockname()
        except Exception:
            mine = None
        if not sp.unix and endpoints and mine and tuple(endpoints[1])[:2] != tuple(mine)[:2]:
            problems.append(("crosstalk", "the connection carries the peer address %r of another client (mine is %r)" % (endpoints[1], mine)))
        step = "set"
        call("set", "k", tok)
        if not slow:
            call("set", tok, j)
        step = "make"
        lst = call("make")
        append = None if slow else lst.append
        if slow:
            conn.sync_request(consts.HANDLE_CALLATTR, lst, "append", (tok,), ())
        else:
            append(tok)
        idp = tuple(lst.____id_pack__)
        with board.lock:
            board.pub[j] = dict(tok=tok, idp=idp, ident=ident)
        out["ident"] = ident
        nsteps = 1 if slow else rng.randrange(2, 7)
        for i in range(nsteps):
            step = "echo"
            v = gen.gen_plain(rng, 2, surrogates=False)
            got = call("echo", v) if slow else echo(v)
            if rc.fingerprint(got) != rc.fingerprint(v):
                problems.append(("wrong", "echo(%r) returned %r" % (v, got)))
            if slow:
                conn.sync_request(consts.HANDLE_CALLATTR, lst, "append", (i,), ())
            else:
                append(i)
            out["calls"] += 2
        step = "barrier"
        together = board.wait(board.b1)
        out["together"] = together
        step = "get"
        got = call("get", "k")
        if got != tok:
            with board.lock:
                others = {p["tok"] for jj, p in board.pub.items() if jj != j}
            problems.append(("crosstalk" if got in others else "wrong",
                             "get('k') returned %r on the connection that stored %r" % (got, tok)))
        if not slow and call("get", tok) != j:
            problems.append(("wrong", "get(own token) did not return the stored value"))
        with board.lock:
            foreign_keys = [p["tok"] for jj, p in board.pub.items() if jj != j]
            neighbour = board.pub.get((j + 1) % n) if n > 1 else None
        for fk in foreign_keys[:1 if slow else 3]:
            step = "get-foreign"
            leak = call("get", fk)
            if leak is not None:
                problems.append(("crosstalk", "get(%r) (a key stored only by another client) returned %r" % (fk, leak)))
        proxy = None
        if neighbour is not None and neighbour["tok"] != tok:
            step = "replay"
            try:
                proxy = conn._unbox((consts.LABEL_REMOTE_REF, neighbour["idp"]))
                r = conn.sync_request(consts.HANDLE_REPR, proxy)
            except LOST + (TimeoutError,):
                raise
            except Exception as e:
                out["replay"] = "failed:" + type(e).__name__
            else:
                if neighbour["tok"] in str(r):
                    problems.append(("foreign", "object id %r harvested by another client resolved on this connection to that "
                                     "client's object: %r" % (neighbour["idp"], r)))
                elif neighbour["idp"] == idp:
                    out["replay"] = "coincides-with-own-id"
                else:
                    problems.append(("foreign", "object id %r never handed to this connection resolved to %r" % (neighbour["idp"], r)))
        step = "barrier2"
        board.wait(board.b2)
        step = "final"
        want = [tok] + list(range(nsteps))
        if slow:
            have = conn.sync_request(consts.HANDLE_REPR, lst)
            if have != repr(want):
                problems.append(("crosstalk" if "/g" in have.replace(tok, "") else "wrong", "own list is %s, expected %r" % (have, want)))
        else:
            n_have = len(lst)
            have = [lst[i] for i in range(min(n_have, 12))]
            if n_have != len(want) or have != want:
                problems.append(("crosstalk" if any(isinstance(x, str) and x != tok for x in have) else "wrong",
                                 "own list is %r (len %d), expected %r" % (have, n_have, want)))
        again = tuple(call("whoami"))
        if again != ident:
            problems.append(("wrong", "whoami changed within one connection: %r -> %r" % (ident, again)))
        out["calls"] += 10
        step = "close"
        del lst, root, echo, append, proxy
        conn.close()
        out["completed"] = True
    except TimeoutError as e:
        problems.append(("timeout", "step %s: %s: %s" % (step, type(e).__name__, e)))
    except LOST as e:
        problems.append(("lost", "step %s: %s: %s" % (step, type(e).__name__, e)))
    except Exception as e:
        problems.append(("wrong", "step %s raised %s: %s" % (step, type(e).__name__, str(e)[:300])))
    finally:
        for b in (board.b1, board.b2):
            if b is not None and not out.get("completed"):
                try:
                    b.abort()
                except Exception:
                    pass
        if conn is not None:
            try:
                conn.close()
            except Exception:
                pass


def server_health(sp, st):
    """state evidence that the server stopped (partly) serving: list of strings, empty when healthy"""
    bad = []
    if st.get("start_returned"):
        bad.append("Server.start() returned (%s)" % st.get("start_exc"))
    if not st.get("active"):
        bad.append("server.active is False")
    if st.get("listener_fd", 0) < 0:
        bad.append("listener socket closed")
    nthreads = rn.KINDS.get(sp.kind)
    if nthreads and "workers_alive" in st:
        if st["workers_alive"] < nthreads:
            bad.append("%d of %d worker threads alive" % (st["workers_alive"], nthreads))
        if not st.get("polling_alive"):
            bad.append("polling thread dead")
    return bad


def probe(sp, tag):
    """fresh well-behaved client: -> ('ok', ident) | ('refused'|'lost'|'timeout'|'wrong', text)"""
    conn = None
    try:
        conn = sp.good(sync_timeout=CLIENT_TIMEOUT)
        from rpyc.core import consts
        root = conn.root

        def call(name, *args):
            return conn.sync_request(consts.HANDLE_CALLATTR, root, name, args, ())
        ident = tuple(call("whoami"))
        t = "probe/" + tag
        if call("echo", t) != t:
            return ("wrong", "echo mismatch")
        if not sp.kind.startswith("threadpool"):
            echo = root.echo
            if echo((t, 1)) != (t, 1):
                return ("wrong", "echo mismatch")
            call("set", "k", t)
            if call("get", "k") != t:
                return ("wrong", "get after set mismatch")
            del echo
        del root
        conn.close()
        return ("ok", ident)
    except TimeoutError as e:
        return ("timeout", "%s: %s" % (type(e).__name__, e))
    except (ConnectionRefusedError, FileNotFoundError) as e:
        return ("refused", "%s: %s" % (type(e).__name__, e))
    except LOST as e:
        return ("lost", "%s: %s" % (type(e).__name__, e))
    except Exception as e:
        return ("wrong", "%s: %s" % (type(e).__name__, str(e)[:300]))
    finally:
        if conn is not None:
            try:
                conn.close()
            except Exception:
                pass


def run_round(sc, sp, cfg, rname, hostile_classes, n_good, rng, ridx, seen_tokens):
    """one round: n_good good || hostile clients, then probe + state. -> False when the server is no longer usable"""
    server = cfg[0]
    authtag = "auth" if cfg[1] else "noauth"
    tag = "%s-%s-r%d" % (server, authtag, ridx)
    label = hostile_classes[0] if len(set(hostile_classes)) == 1 else ("mixed" if hostile_classes else "none")
    board = RoundBoard(n_good)
    outs = [dict(problems=[], calls=0) for _ in range(n_good)]
    infos = []
    threads = []
    for j in range(n_good):
        r = sc.subrng("good", tag, j)
        threads.append(threading.Thread(target=good_client, args=(sp, r, tag, j, n_good, board, outs[j],
                                                                  server.startswith("threadpool")), daemon=True))

    def hostile(cls, r, delay):
        time.sleep(delay)
        infos.append(hostile_client(sp, cls, r))
    for i, cls in enumerate(hostile_classes):
        threads.append(threading.Thread(target=hostile, args=(cls, sc.subrng("bad", tag, i), rng.choice([0, 0, 0.005, 0.02, 0.05])),
                                        daemon=True))
    rng.shuffle(threads)
    for t in threads:
        t.start()
    stuck = 0
    for t in threads:
        t.join(150)
        stuck += t.is_alive()
    if stuck:
        sc.inconclusive("%s: %d harness client threads did not finish within 150 s" % (tag, stuck))
        return False
    sc.beat()
    wit = dict(server=server, auth=cfg[1], round=rname, hostile=sorted(hostile_classes), good=n_good)
    # ---- state and liveness first: they decide how unanswered requests are read
    try:
        st = sp.state()
        sc.maximum("yield_injection_points_passed_in_one_server", int(st.get("yield_injections", 0))) if hasattr(sc, "maximum") else None
        sc.count("control_pipe_answers")
    except rn.ChildError as e:
        sc.inconclusive("%s: control pipe: %s" % (tag, str(e)[:300]))
        return False
    health = server_health(sp, st)
    pr = probe(sp, tag)
    sc.count("liveness_probes")
    usable = True
    if pr[0] == "ok":
        sc.count("liveness_probes_served")
        if pr[1][1] in seen_tokens:
            sc.violation("C16/%s/shared-service-instance" % server, "the fresh client after round %s was served by a service "
                         "instance that had already served another connection" % rname, dict(wit, ident=pr[1]))
        seen_tokens.add(pr[1][1])
    elif pr[0] in ("refused", "lost") or (pr[0] == "timeout" and health):
        sc.violation("C16/%s/not-accepting-after-hostile/%s" % (server, label),
                     "after a round with hostile input class %s a fresh well-behaved client was not served: %s; server state: %s"
                     % (label, pr[1], "; ".join(health) or "threads alive, listener open"), dict(wit, probe=pr, state=st))
        usable = False
    elif pr[0] == "timeout":
        sc.inconclusive("%s: fresh client not served within the watchdog although every server thread is alive: %s" % (tag, pr[1]))
        usable = False
    else:
        sc.violation("C16/%s/good-client-wrong-result" % server, "fresh client after round %s: %s" % (rname, pr[1]), dict(wit, probe=pr))
    if health and pr[0] == "ok":
        sc.violation("C16/%s/serving-thread-died/%s" % (server, label),
                     "after hostile input class %s: %s (the fresh client was still served)" % (label, "; ".join(health)),
                     dict(wit, state=st))
    # ---- good clients
    idents = {}
    for j, o in enumerate(outs):
        sc.count("good_sessions_checked")
        sc.count("good_client_calls", o["calls"])
        if o.get("replay", "").startswith("failed"):
            sc.count("foreign_id_replays_failed_as_required")
        elif o.get("replay"):
            sc.count("foreign_id_replays_" + o["replay"])
        if o.get("completed") and not o["problems"]:
            sc.count("good_sessions_correct")
        if "ident" in o:
            if o["ident"][1] in seen_tokens or o["ident"][1] in [i[1] for i in idents.values()]:
                sc.violation("C16/%s/shared-service-instance" % server, "two connections report the same service instance token "
                             "(whoami): %r" % (o["ident"],), dict(wit, client=j))
            elif o.get("together") and (o["ident"][0], o["ident"][2]) in [(i[0], i[2]) for i in idents.values()]:
                sc.violation("C16/%s/shared-service-instance" % server, "two simultaneously open connections report the same "
                             "id(service) in the same process", dict(wit, client=j))
            idents[j] = o["ident"]
        for kind, what in o["problems"]:
            w = dict(wit, client=j, problem=what)
            if kind == "wrong":
                sc.violation("C16/%s/good-client-wrong-result" % server, what, w)
            elif kind == "crosstalk":
                sc.violation("C16/%s/cross-talk" % server, what, w)
            elif kind == "foreign":
                sc.violation("C16/%s/foreign-id-resolved" % server, what, w)
            elif kind == "lost":
                sc.violation("C16/%s/good-client-lost" % server, "a well-behaved client lost its connection (round %s, hostile "
                             "class %s): %s" % (rname, label, what), w)
            elif kind == "timeout":
                if health:
                    sc.violation("C16/%s/good-client-lost" % server, "a well-behaved client's request was never answered (%s) and "
                                 "the server shows: %s" % (what, "; ".join(health)), dict(w, state=st))
                else:
                    sc.inconclusive("%s: good client %d: %s with every server thread alive" % (tag, j, what))
    for i in idents.values():
        seen_tokens.add(i[1])
    for info in infos:
        sc.count("hostile_inputs/" + info["cls"])
        sc.count("hostile_inputs_total")
        if info.get("connect_error"):
            sc.count("hostile_connect_errors")
        if info.get("handshake"):
            sc.count("hostile_sessions_past_handshake")
    sc.maximum("concurrent_clients_in_a_round", n_good + len(hostile_classes))
    desc = (server, cfg[1], rname, tuple(sorted(hostile_classes)), n_good)
    sc.case(desc, nontrivial=bool(hostile_classes) or n_good >= 8)
    if ridx in (1, 7):
        sc.sample(dict(wit, probe=pr[0], state={k: st[k] for k in ("fds", "clients", "fd_to_conn", "on_connect", "on_disconnect", "threads")
                                                    if k in st}, good_ok=sum(1 for o in outs if o.get("completed") and not o["problems"])))
    return usable and not health


def churn_round(sc, sp, cfg, nthreads, per_thread, ridx):
    """many short well-behaved sessions in parallel (connect, two calls, graceful close): every one must be served"""
    from rpyc.core import consts
    server = cfg[0]
    results = []
    abandoned = []

    def worker(k):
        for i in range(per_thread):
            conn = None
            t = "churn/%d/%d" % (k, i)
            try:
                if (k + i) % 4 == 3:
                    # an impatient client: sends a request that takes a moment and leaves abruptly while it is being executed
                    # (always disconnects, so this is C16's "disconnect at any point"); nothing to check on this session itself
                    c2 = sp.good(sync_timeout=CLIENT_TIMEOUT)
                    r2 = c2.root
                    c2.async_request(consts.HANDLE_CALLATTR, r2, "sleep", (0.03,), ())
                    sock = c2._channel.stream.sock
                    del r2
                    rn.rst_close(sock)
                    abandoned.append(1)
                    continue
                conn = sp.good(sync_timeout=CHURN_TIMEOUT)
                root = conn.root
                conn.sync_request(consts.HANDLE_CALLATTR, root, "set", ("k", t), ())
                got = conn.sync_request(consts.HANDLE_CALLATTR, root, "get", ("k",), ())
                del root
                results.append(("ok", None) if got == t else ("wrong", "get returned %r for %r" % (got, t)))
                conn.close()
            except TimeoutError as e:
                results.append(("timeout", "%s" % e))
            except LOST as e:
                results.append(("lost", "session %s: %s: %s" % (t, type(e).__name__, e)))
            except Exception as e:
                results.append(("wrong", "%s: %s" % (type(e).__name__, str(e)[:200])))
            finally:
                if conn is not None:
                    try:
                        conn.close()
                    except Exception:
                        pass
            sc.beat()
    ths = [threading.Thread(target=worker, args=(k,), daemon=True) for k in range(nthreads)]
    for t in ths:
        t.start()
    for t in ths:
        t.join(300)
        if t.is_alive():
            sc.inconclusive("%s churn: harness thread stuck" % server)
            return False
    try:
        st = sp.state()
    except rn.ChildError as e:
        sc.inconclusive("churn: control pipe: %s" % str(e)[:200])
        return False
    health = server_health(sp, st)
    wit = dict(server=server, auth=cfg[1], round="churn", threads=nthreads, sessions=nthreads * per_thread)
    sc.count("churn_sessions_abandoned_mid_request", len(abandoned))
    if any(kind == "timeout" for kind, _ in results) and not health:
        # state at quiescence: all clients have gone, so nothing may be pending; a tracked connection whose request bytes
        # still sit unread while the pool is idle is a request the server will never serve
        import time as _t
        samples = []
        for _ in range(3):
            _t.sleep(0.7)
            try:
                s2 = sp.state()
            except rn.ChildError:
                break
            samples.append((s2.get("pending_unread") or {}, s2.get("active_queue")))
        stuck = set(samples[0][0]) if samples else set()
        for pend, q in samples[1:]:
            stuck &= set(pend)
        if len(samples) == 3 and stuck and all(q == 0 for _, q in samples):
            health = ["a tracked connection has had unread request bytes for 2 s while the pool's queue is empty: it is no longer polled"]
    for kind, what in results:
        sc.count("churn_sessions")
        if kind == "ok":
            sc.count("churn_sessions_correct")
        elif kind == "lost":
            sc.violation("C16/%s/good-client-lost" % server, "a short well-behaved session among %d parallel ones lost its "
                         "connection: %s" % (nthreads, what), wit)
        elif kind == "wrong":
            sc.violation("C16/%s/good-client-wrong-result" % server, what, wit)
        elif health:
            sc.violation("C16/%s/good-client-lost" % server, "request never answered (%s); server: %s" % (what, "; ".join(health)), wit)
        else:
            sc.inconclusive("churn on %s: %s with all server threads alive" % (server, what))
    sc.case((server, cfg[1], "churn", nthreads, per_thread), nontrivial=nthreads * per_thread >= 8)
    return not health


def run_config(sc, cfg, quick):
    server, auth = cfg
    rng = sc.subrng("cfg", server, auth)
    slow = server.startswith("threadpool")      # 0.2 s back-off per error, 0.1 s poll: a quarter of the workload
    classes = BASE_CLASSES + (AUTH_CLASSES if auth else [])
    pure_classes = list(classes)
    if slow and quick:
        # a quarter of the workload: the four thread-pool configurations share the input classes of the pure rounds
        # (4 workers without / 20 with authenticator: one half; the other two: the other half; all of them in mixed rounds)
        order = list(BASE_CLASSES)
        sc.subrng("split").shuffle(order)
        first = (server == "threadpool4") != auth
        pure_classes = (order[:len(order) // 2] if first else order[len(order) // 2:]) + (AUTH_CLASSES if auth else [])
    try:
        # forking servers run with a descriptor table of 64: "any number of such clients" must not use the listening process up
        sp = rn.ServerProc(server, auth=auth, nofile=64 if server == "forking" else None)
    except rn.ChildError as e:
        sc.inconclusive("could not start %s server: %s" % (server, str(e)[:300]))
        return
    try:
        seen = set()
        ridx = 0
        plan = []
        passes = (1 if slow else 2) if quick else 3
        for _ in range(passes):
            order = list(pure_classes)
            rng.shuffle(order)
            for cls in order:
                if quick:
                    plan.append(("pure", [cls] * (2 if slow else 4), 2 if slow else 3))
                else:
                    plan.append(("pure", [cls] * (3 if slow else rng.randrange(4, 9)), 2 if slow else rng.randrange(3, 6)))
        nmixed = ((1 if slow else 3) if quick else (15 if slow else 60))
        for _ in range(nmixed):
            m = rng.randrange(4, 9) if (slow or quick) else rng.randrange(4, 17)
            plan.append(("mixed", [rng.choice(classes) for _ in range(m)], 3 if (slow or quick) else rng.randrange(4, 9)))
        plan.insert(len(plan) // 2, ("churn", None, None))
        plan.append(("churn", None, None))
        for rname, hostile_classes, n_good in plan:
            ridx += 1
            if sc.enough():
                break
            if rname == "churn":
                # (on the thread pool every request costs one 0.1 s poll interval whatever the number of clients: more
                # parallel sessions there cost no wall time and make close-while-accepting coincidences likelier)
                if quick:
                    ok = churn_round(sc, sp, cfg, 12 if slow else 4, 8 if slow else 12, ridx)
                else:
                    ok = churn_round(sc, sp, cfg, 12 if slow else 6, 40 if slow else 120, ridx)
            else:
                ok = run_round(sc, sp, cfg, rname, hostile_classes, n_good, rng, ridx, seen)
            if not ok:
                break                      # the server is no longer usable; what happened is already recorded
        sc.count("server_configurations_run")
    except rn.ChildError as e:
        sc.inconclusive("%s/%s: %s" % (server, auth, str(e)[:300]))
    finally:
        sp.kill()


def classic_namespace_isolation(ctx):
    """the stock classic service through the stock servers: every client gets its own service instance, hence its own
    execute()/eval() namespace; what one client defines is invisible to the others and to later clients, whatever a bad
    client does in between"""
    import socket
    import struct
    import threading
    import rpyc
    from rpyc.utils.server import ThreadedServer, ThreadPoolServer
    listing = "sorted(k for k in list(globals()) if k.startswith('rv_'))"
    for kind, cls, extra in (("threaded", ThreadedServer, {}), ("threadpool", ThreadPoolServer, {"nbThreads": 3, "requestBatchSize": 2})):
        import logging
        quiet = logging.getLogger("rv-c16-classic")
        quiet.propagate = False
        quiet.setLevel(logging.CRITICAL + 1)
        srv = cls(rpyc.SlaveService, hostname="127.0.0.1", port=0, auto_register=False, logger=quiet, **extra)
        srv._listen()
        saved_hook = threading.excepthook
        threading.excepthook = lambda args: ctx.count("classic_server_thread_exceptions_%s" % getattr(args.exc_type, "__name__", "?"))
        t = threading.Thread(target=srv.start, daemon=True, name="rv-classic-" + kind)
        t.start()
        wit = dict(family="classic-namespace", kind=kind)
        conns = []
        try:
            c1 = rpyc.classic.connect("127.0.0.1", srv.port)
            conns.append(c1)
            c1.execute("rv_secret = 'of-client-1'")
            c1.namespace["rv_item"] = [1]
            # a bad client in between: a frame that claims to be compressed and is not, then a reset
            bad = socket.create_connection(("127.0.0.1", srv.port))
            bad.sendall(struct.pack(">IB", 5, 1) + b"nozip" + b"\n")
            bad.setsockopt(socket.SOL_SOCKET, socket.SO_LINGER, struct.pack("ii", 1, 0))
            bad.close()
            c2 = rpyc.classic.connect("127.0.0.1", srv.port)
            conns.append(c2)
            seen = list(c2.eval(listing))
            if seen:
                ctx.violation("C16/classic/%s/namespace-shared" % kind, "a second client of a classic server sees the names the first client defined: %r" % (seen,), wit)
            c2.execute("rv_secret = 'of-client-2'")
            mine = c1.eval("rv_secret")
            if mine != "of-client-1":
                ctx.violation("C16/classic/%s/namespace-overwritten" % kind, "client 1's variable now reads %r after client 2 assigned its own" % (mine,), wit)
            c1.close()
            c3 = rpyc.classic.connect("127.0.0.1", srv.port)
            conns.append(c3)
            seen = [k for k in c3.eval(listing)]
            if seen:
                ctx.violation("C16/classic/%s/namespace-outlives-client" % kind, "a later client sees names of clients before it: %r" % (seen,), wit)
            ctx.case(("classic-namespace", kind), nontrivial=True)
            ctx.count("classic_namespace_probes", 3)
        except Exception as e:
            ctx.violation("C16/classic/%s/good-client-failed/%s" % (kind, type(e).__name__), "a well-behaved classic client failed: %r" % (e,), wit)
        finally:
            for c in conns:
                try:
                    c.close()
                except Exception:
                    pass
            srv.close()
            t.join(10)
            threading.excepthook = saved_hook


class Job(object):
    """a class that well-behaved clients hand to the service, which instantiates it through its proxy"""

    def __init__(self, n):
        self.n = n

    def exposed_double(self):
        return self.n * 2


def class_descriptions_per_client(ctx):
    """what one client tells the server about a class of its own (the description the server asks for in order to build the proxy
    type) concerns that client's connection only: a client that describes a class falsely - same name, same id as the class the
    well-behaved clients of the same process will send, but the method list of a plain object - and leaves must not change what
    later clients get when they hand the server the real class."""
    import logging
    import threading
    import rpyc
    from rpyc.core import netref
    from rpyc.core.protocol import Connection
    from rpyc.lib import get_methods
    from rpyc.utils.server import ThreadedServer, ThreadPoolServer

    class Builder(rpyc.Service):
        def exposed_build(self, cls, n):
            return cls(n).exposed_double()

    class LyingConnection(Connection):
        def _handle_inspect(self, id_pack):
            return tuple(get_methods(netref.LOCAL_ATTRS, object()))

    class Liar(rpyc.VoidService):
        _protocol = LyingConnection
    for kind, cls, extra in (("threaded", ThreadedServer, {}), ("threadpool", ThreadPoolServer, {"nbThreads": 3, "requestBatchSize": 2})):
        quiet = logging.getLogger("rv-c16-classdesc")
        quiet.propagate = False
        quiet.setLevel(logging.CRITICAL + 1)
        srv = cls(Builder, hostname="127.0.0.1", port=0, auto_register=False, logger=quiet, **extra)
        srv._listen()
        saved_hook = threading.excepthook
        threading.excepthook = lambda args: ctx.count("classdesc_server_thread_exceptions_%s" % getattr(args.exc_type, "__name__", "?"))
        t = threading.Thread(target=srv.start, daemon=True, name="rv-classdesc-" + kind)
        t.start()
        wit = dict(family="class-descriptions-per-client", kind=kind)
        conns = []
        try:
            liar = rpyc.connect("127.0.0.1", srv.port, service=Liar)
            conns.append(liar)
            try:
                liar.root.build(Job, 1)
                ctx.count("false_class_descriptions_accepted_for_the_liar_itself")
            except Exception:
                ctx.count("false_class_descriptions_hurt_only_the_liar")
            liar.close()
            for j in range(2):
                good = rpyc.connect("127.0.0.1", srv.port)
                conns.append(good)
                try:
                    v = good.root.build(Job, 3 + j)
                except Exception as e:
                    ctx.violation("C16/%s/class-description-of-another-client-used" % kind, "after a client that described its class falsely had come and gone, a "
                                  "well-behaved client handing the server the real class got %r instead of %d" % (e, 2 * (3 + j)), wit)
                    break
                if v != 2 * (3 + j):
                    ctx.violation("C16/%s/good-client-wrong-result" % kind, "build(Job, %d) returned %r" % (3 + j, v), wit)
                ctx.count("good_clients_after_a_false_class_description")
            ctx.case(("class-descriptions-per-client", kind), nontrivial=True)
        except Exception as e:
            ctx.violation("C16/classdesc/%s/aborted/%s" % (kind, type(e).__name__), "scenario aborted: %r" % (e,), wit)
        finally:
            for c in conns:
                try:
                    c.close()
                except Exception:
                    pass
            srv.close()
            t.join(10)
            threading.excepthook = saved_hook


def many_descriptors(ctx):
    """'any number of such clients': more than a thousand bad clients (a truncated frame each, then silence) stay connected to one
    threaded server, so that the descriptors of the clients accepted next have numbers beyond 1024 - where everything built on
    select() stops working; well-behaved clients that come after them must still be served."""
    import resource
    import struct
    soft, hard = resource.getrlimit(resource.RLIMIT_NOFILE)
    need = 2800
    if soft < need:
        try:
            resource.setrlimit(resource.RLIMIT_NOFILE, (min(hard, need) if hard != resource.RLIM_INFINITY else need, hard))
            soft = resource.getrlimit(resource.RLIMIT_NOFILE)[0]
        except (ValueError, OSError):
            pass
    if soft < need:
        ctx.count("many_descriptors_skipped_descriptor_limit_too_low")
        return
    try:
        sp = rn.ServerProc("threaded")
    except rn.ChildError as e:
        ctx.inconclusive("many-descriptors: could not start the server: %s" % str(e)[:200])
        return
    bad = []
    wit = dict(family="many-descriptors", kind="threaded", bad_clients=1100)
    try:
        c0 = sp.good()
        ok0 = c0.root.echo("before") == "before"
        for i in range(1100):
            s = sp.raw(timeout=10)
            s.sendall(struct.pack(">IB", 4000, 0) + b"only the beginning")
            bad.append(s)
        _held, st, _n = sp.poll_state(lambda st: st["fds"] >= 1100, 25)        # let the accept loop take them all off the listener
        ctx.maximum("descriptors_open_in_the_server_process", st["fds"])
        results = []
        for k in range(2):
            try:
                c = sp.good(sync_timeout=20)
                results.append(c.root.echo(("late", k)) == ("late", k) and c.root.whoami() is not None)
                c.close()
            except Exception as e:
                results.append("%s: %s" % (type(e).__name__, str(e)[:80]))
        try:
            still = c0.root.echo("still") == "still"
        except Exception as e:
            still = "%s: %s" % (type(e).__name__, str(e)[:80])
        ctx.case(("many-descriptors",), nontrivial=True)
        ctx.count("good_clients_served_beside_a_thousand_bad_ones", sum(1 for r in results if r is True))
        served = ok0 and results == [True, True] and still is True
        if served and st["fds"] < 1050:
            ctx.inconclusive("many-descriptors: the server process held only %d descriptors" % st["fds"])
        elif not served and st["fds"] < 900:
            ctx.inconclusive("many-descriptors: good clients were not served (%r) with only %d descriptors open in the server" % (results, st["fds"]))
        elif not served:
            ctx.violation("C16/threaded/good-client-lost/beyond-1024-descriptors", "with %d descriptors open in the server process (1100 bad clients connected), well-behaved "
                          "clients got %r (client connected before them: %r)" % (st["fds"], results, still), wit)
        c0.close()
    except (rn.ChildError, OSError, EOFError) as e:
        ctx.inconclusive("many-descriptors: %s: %s" % (type(e).__name__, str(e)[:200]))
    finally:
        for s in bad:
            try:
                s.close()
            except OSError:
                pass
        sp.kill()


def run(ctx):
    sc = rn.SharedCtx(ctx)
    if ctx.shard[0] == 0:
        classic_namespace_isolation(ctx)
        class_descriptions_per_client(ctx)
        many_descriptors(ctx)
    configs = [(k, a) for k in SERVER_KINDS for a in (False, True)]
    if ctx.quick:
        mine, width = configs, 8        # the waits are poll intervals and back-offs of the servers, not CPU
    else:
        i, n = ctx.shard
        mine, width = [c for j, c in enumerate(configs) if j % n == i], 2
    # slow (thread pool) configurations first so that they overlap with the fast ones
    mine.sort(key=lambda c: (not c[0].startswith("threadpool"), c))
    errors = rn.run_parallel(sc, [lambda c=c: run_config(sc, c, ctx.quick) for c in mine], width, "c16")
    for i, e in errors:
        ctx.inconclusive("harness error in configuration %r: %s" % (mine[i], e[-600:]))
    if not ctx.counters.get("hostile_inputs_total"):
        ctx.inconclusive("no hostile input was delivered")
    if not ctx.counters.get("liveness_probes_served") and not ctx.violations:
        ctx.inconclusive("no liveness probe was served")

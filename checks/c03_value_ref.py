"""C03 - immutable plain values travel by copy, everything else by reference; identity survives.

Monitors at both ends of a real connection pair (both peers live in this process, so the receiving side's
view - type(), isinstance(BaseNetref), bit-exact fingerprint, `is` - is read directly), judged against the
independent predicate plain_immutable(); identity histories; obtain/deliver over a classic connection.
"""
import copy

from rv import gen, refcodec as rc, vnet

PROPERTY = "C03"
LEVEL = "exploration"
RULE = ("values: boundary list + seeded plain values (all immutable shapes/nestings, lone surrogates, NaN by bits) and the "
        "non-plain zoo (subclass instances of int/str/bytes/tuple/frozenset/float/complex, enum members, named tuples, "
        "containers, functions, classes, modules, tuples/frozensets/slices holding one), sent as argument, returned as "
        "result, echoed and sent inside mixed tuples; identity histories (<= 20 steps) over send / hold / re-send / echo / "
        "return-held / drop for 3 owner-side and 3 peer-side objects; obtain/deliver on generated picklable objects. "
        "distinct = fingerprint of the value or the history's op sequence; non-trivial = not a bare singleton")
ASSUMPTIONS = ["plain_immutable() in lib/rv/refcodec.py is the reference for 'immutable plain value'",
               "both peers run in one process (B served by a thread), so identity on the receiving side is observed directly"]
SHARDS = {"quick": 1, "thorough": 16}
MIN_DISTINCT = {"quick": 3000, "thorough": 100000}


def make_service(state):
    import rpyc

    class Svc(rpyc.Service):
        def exposed_probe(self, x):
            state["last"] = x
            return None

        def exposed_echo(self, x):
            return x

        def exposed_hold(self, slot, x):
            state["slots"][slot] = x

        def exposed_drop(self, slot):
            state["slots"].pop(slot, None)

        def exposed_give(self, slot):
            return state["slots"][slot]

        def exposed_make(self, k):
            return state["owned"][k]

        def exposed_make_pair(self, k):
            return (state["owned"][k], k, state["owned"][k])

        def exposed_mutate(self, x, tok):
            x.append(tok)

        def exposed_make_fresh(self, tag):
            # one object per tag, of a user class (its proxy class has to be asked for: a nested exchange)
            return state.setdefault("fresh", {}).setdefault(tag, gen.Obj(("B-fresh", tag)))
    return Svc


def is_netref(x):
    import rpyc
    return isinstance(x, rpyc.BaseNetref)


def check_value(ctx, pair, state, root, v, origin, brine):
    plain = rc.plain_immutable(v)
    fp = rc.fingerprint(v)
    trivial = v is None or v is True or v is False
    ctx.case(("val", fp if plain else (type(v).__name__, origin.split("#")[0])), nontrivial=not trivial)
    wit = dict(origin=origin, value=repr(v)[:200], type=type(v).__name__)
    pair.net.new_case(3000)
    # the value/reference decision itself
    try:
        d = brine.dumpable(v)
    except RecursionError:
        return
    if d != plain:
        ctx.violation("C03/decision/%s/%s" % ("plain-declared-reference" if plain else "nonplain-declared-value", type(v).__name__),
                      "dumpable(%s) is %s but the value is %splain immutable" % (type(v).__name__, d, "" if plain else "not "), wit)
    # as argument
    state["last"] = _MISSING
    try:
        root.probe(v)
    except Exception as e:
        ctx.violation("C03/send-failed/%s" % type(e).__name__, "sending the value as an argument failed: %r" % (e,), wit)
        return
    got = state["last"]
    state["last"] = None
    if plain:
        ctx.count("plain_sent")
        if is_netref(got) or rc.fingerprint(got) != fp:
            ctx.violation("C03/plain-arrives-altered/%s" % type(v).__name__,
                          "a plain immutable value reached the peer as %s" % ("a proxy" if is_netref(got) else "a different value/type"),
                          dict(wit, got=repr(got)[:200]))
    else:
        ctx.count("nonplain_sent")
        if type(v) is tuple:
            ok = type(got) is tuple and len(got) == len(v)
        else:
            ok = is_netref(got)
        if not ok:
            ctx.violation("C03/nonplain-arrives-as-copy/%s" % type(v).__name__,
                          "a non-plain object reached the peer as %s, not as a reference" % type(got).__name__, dict(wit, got=repr(got)[:200]))
    del got
    # echoed back
    try:
        back = root.echo(v)
    except Exception as e:
        ctx.violation("C03/echo-failed/%s" % type(e).__name__, "echo failed: %r" % (e,), wit)
        return
    if plain:
        if rc.fingerprint(back) != fp:
            ctx.violation("C03/echo-plain-differs/%s" % type(v).__name__, "echo of a plain value differs", dict(wit, back=repr(back)[:200]))
    else:
        if not same_identity(v, back):
            ctx.violation("C03/echo-not-original/%s" % type(v).__name__,
                          "a reference handed back to its owner is not the original object", dict(wit, back=repr(back)[:200]))
    ctx.count("echoes")


_MISSING = object()


def same_identity(v, back):
    """non-plain v: back must be v itself; for tuples element-wise (plain elements by fingerprint)"""
    if type(v) is tuple:
        return type(back) is tuple and len(back) == len(v) and all(
            (rc.fingerprint(a) == rc.fingerprint(b)) if rc.plain_immutable(a) else same_identity(a, b) for a, b in zip(v, back))
    return back is v


def identity_history(ctx, rng, idx):
    import rpyc
    # owned objects of several truth values: a proxy's truth value is the remote object's (empty containers are falsy)
    state = dict(slots={}, owned=[[("B", idx, 0)], [], {}] if idx % 2 else [[("B", idx, k)] for k in range(3)], last=None)
    mine = [[("A", idx, k)] for k in range(3)]
    mine[2] = gen.Obj(("A", idx))
    if idx % 3 == 0:
        mine[1] = []
    pair = vnet.ServedPair(rpyc.VoidService(), make_service(state)(), cfg_a={"allow_public_attrs": True},
                           cfg_b={"allow_public_attrs": True})
    fresh = []
    held = {}      # A-side slots -> proxy of B-owned object k
    held_k = {}
    ops = []
    bad = []
    try:
        root = pair.a.root
        for step in range(rng.randrange(4, 21)):
            op = rng.choice(["send", "send_tuple", "echo", "give", "drop_remote", "make", "make_pair", "drop_local", "mutate",
                             "bounce", "send_twice_in_flight", "receive_twice_in_flight", "rereceive_while_release_in_flight"])
            k = rng.randrange(3)
            slot = rng.randrange(4)
            ops.append((op, k, slot))
            if op == "send":
                root.hold(slot, mine[k])
            elif op == "send_tuple":
                root.hold(slot, (mine[k], step, mine[k]))
            elif op == "echo":
                r = root.echo(mine[k])
                if r is not mine[k]:
                    bad.append(("echo-not-original", "echo returned %r" % (r,)))
            elif op == "give" and slot in state["slots"]:
                r = root.give(slot)
                src = state["slots"][slot]
                if type(src) is tuple:
                    if not (type(r) is tuple and r[0] is r[2] and any(r[0] is m for m in mine + fresh)):
                        bad.append(("give-not-original", "held tuple came back as %r" % (r,)))
                elif is_netref(src):
                    if not any(r is m for m in mine + fresh):
                        bad.append(("give-not-original", "held reference came back as %r, not the owner's object" % (r,)))
                else:       # the slot holds one of the peer's own objects (after a bounce)
                    kk = [i for i, o in enumerate(state["owned"]) if o is src][0]
                    if not is_netref(r) or any(held_k[s2] == kk and held[s2] is not r for s2 in held):
                        bad.append(("second-proxy", "peer's own object came back as a different proxy / a copy"))
                del r, src
            elif op == "drop_remote":
                root.drop(slot)
            elif op == "make":
                p = root.make(k)
                if not is_netref(p):
                    bad.append(("peer-object-copied", "peer's list arrived as %s" % type(p).__name__))
                for s2, kk in held_k.items():
                    if kk == k and held[s2] is not p:
                        bad.append(("second-proxy", "same remote object received again while a proxy is alive is a different proxy"))
                held[slot], held_k[slot] = p, k
                del p
            elif op == "make_pair":
                t = root.make_pair(k)
                if not (type(t) is tuple and t[0] is t[2] and t[1] == k):
                    bad.append(("second-proxy", "same remote object twice in one tuple gives two proxies"))
                for s2, kk in held_k.items():
                    if kk == k and held[s2] is not t[0]:
                        bad.append(("second-proxy", "same remote object received again while a proxy is alive is a different proxy"))
                del t
            elif op == "send_twice_in_flight":
                # the same object in two requests that are both on their way before either is answered; a fresh instance of a
                # user class, so that the receiver has to ask for its class while the second request is already waiting
                obj = gen.Obj(("A-fresh", idx, step))
                fresh.append(obj)
                ahold = rpyc.async_(root.hold)
                r1, r2 = ahold(slot, obj), ahold((slot + 1) % 4, obj)
                r1.wait(), r2.wait()
                del r1, r2, ahold, obj
                ctx.count("same_object_in_two_requests_in_flight")
            elif op == "receive_twice_in_flight":
                amake = rpyc.async_(root.make_fresh)
                r1, r2 = amake((idx, step)), amake((idx, step))
                p1, p2 = r1.value, r2.value
                if not is_netref(p1) or p1 is not p2:
                    bad.append(("second-proxy", "the same remote object arriving in two replies that were both in flight gives two proxies"))
                del r1, r2, p1, p2, amake
                ctx.count("same_object_in_two_replies_in_flight")
            elif op == "rereceive_while_release_in_flight":
                # hold the only proxy of a peer-owned object, ask for the object again without waiting, drop the proxy (its release
                # notice travels behind the request), then collect: the fresh proxy must work and be the peer's original object
                p1 = root.make(k)
                if isinstance(state["owned"][k], list) and not any(held_k.get(s2) == k for s2 in held):
                    amake = rpyc.async_(root.make)
                    res = amake(k)
                    del p1
                    p2 = res.value
                    try:
                        p2.append(("late", step))
                        if state["owned"][k][-1] != ("late", step):
                            bad.append(("mutation-lost", "a change made through a re-received reference is not a change to the owner's object"))
                        state["owned"][k].pop()
                        root.hold(slot, p2)
                        if state["slots"][slot] is not state["owned"][k]:
                            bad.append(("bounce-not-original", "a re-received reference handed back to its owner is not the original object"))
                        root.drop(slot)
                    except Exception as e:
                        bad.append(("rereceived-reference-dead/%s" % type(e).__name__, "a reference received again while the release of the earlier proxy was in flight does not work: %r" % (e,)))
                    del p2, res, amake
                    ctx.count("rereceived_while_release_in_flight")
                else:
                    del p1
            elif op == "drop_local":
                held.pop(slot, None)
                held_k.pop(slot, None)
            elif op == "mutate" and k != 2 and isinstance(mine[k], list):
                tok = ("m", step)
                root.mutate(mine[k], tok)
                if mine[k][-1] != tok:
                    bad.append(("mutation-lost", "a change made through the reference is not a change to the owner's object"))
            elif op == "bounce" and slot in held:
                # a proxy of a B-owned object handed back to B must be B's original object
                root.hold(slot, held[slot])
                if state["slots"][slot] is not state["owned"][held_k[slot]]:
                    bad.append(("bounce-not-original", "proxy handed back to the owner arrived as %r" % (type(state["slots"][slot]),)))
            # invariant on the peer side: all slots holding the same owner object hold the same proxy
            seen = {}
            for s2, x in state["slots"].items():
                for y in (x if type(x) is tuple else (x,)):
                    if is_netref(y):
                        key = object.__getattribute__(y, "____id_pack__")
                        if key in seen and seen[key] is not y:
                            bad.append(("second-proxy-at-peer", "peer holds two different proxies for one object"))
                        seen[key] = y
            del seen
    except BaseException as e:
        bad.append(("history-aborted/%s" % type(e).__name__, "history aborted: %r" % (e,)))
    held.clear()
    state["slots"].clear()
    root = None
    pair.close()
    for key, what in bad:
        ctx.violation("C03/identity/" + key, what, dict(ops=ops))
    ctx.case(("hist", tuple(ops)))
    ctx.count("identity_steps", len(ops))
    return ops


def obtain_deliver(ctx, rng, n):
    import rpyc
    from rpyc.utils import classic
    pair = vnet.ServedPair(rpyc.core.service.ClassicClient(), rpyc.SlaveService())
    conn = pair.a
    try:
        for i in range(n):
            obj = gen_picklable(rng)
            ctx.case(("deliver", repr(obj)[:80]))
            r = classic.deliver(conn, obj)
            if not is_netref(r):
                ctx.violation("C03/deliver-not-remote", "deliver() did not return a proxy to a remote copy", dict(obj=repr(obj)))
                continue
            back = classic.obtain(r)
            if back != obj or type(back) is not type(obj) or back is obj:
                ctx.violation("C03/obtain-differs", "obtain(deliver(x)) is not an equal, independent copy", dict(obj=repr(obj), back=repr(back)))
            before = copy.deepcopy(obj)
            if isinstance(obj, list):
                r.append("remote-change")
                back.append("local-change")
                if obj != before:
                    ctx.violation("C03/deliver-shares-state", "changing the delivered copy changed the local original", dict(obj=repr(obj)))
                again = classic.obtain(r)
                if again != before + ["remote-change"]:
                    ctx.violation("C03/obtain-shares-state", "changing the obtained copy changed the remote object", dict(obj=repr(obj), again=repr(again)))
            elif isinstance(obj, dict):
                r["remote-change"] = 1
                back["local-change"] = 1
                if obj != before or "local-change" in classic.obtain(r):
                    ctx.violation("C03/deliver-shares-state", "copies share state", dict(obj=repr(obj)))
            ctx.count("obtain_deliver")
            # a tuple mixing values and references crosses the wire as a real tuple holding proxies: obtain() of it must
            # still be a copy all the way down, and obtain() of something already local must be a copy as well
            mixed = conn.eval("(1, [2, 3], ('x', {'k': [4]}))")
            got = classic.obtain(mixed)
            if got != (1, [2, 3], ("x", {"k": [4]})) or is_netref(got[1]) or is_netref(got[2][1]):
                ctx.violation("C03/obtain-mixed-tuple", "obtain() of a tuple holding references is not an equal local copy: %r" % (got,), dict(obj=repr(obj)))
            else:
                got[1].append("local-change")
                if len(mixed[1]) != 2:
                    ctx.violation("C03/obtain-shares-state", "changing an obtained tuple's list changed the remote list", dict(obj=repr(obj)))
            # deliver() of something the peer already owns (a proxy) must still produce an independent copy over there,
            # and so must obtain()/deliver() chained in either order
            conn.execute("rv_orig = [1, 2, [3]]")
            orig = conn.namespace["rv_orig"]
            dup = classic.deliver(conn, orig)
            if not is_netref(dup) or conn.modules.builtins.id(dup) == conn.modules.builtins.id(orig):
                ctx.violation("C03/deliver-of-proxy-not-a-copy", "deliver() of a proxy handed back the peer's original object, not an independent copy", dict(obj="rv_orig"))
            else:
                dup[2].append("change-to-the-copy")
                if classic.obtain(conn.eval("rv_orig")) != [1, 2, [3]] or classic.obtain(orig) != [1, 2, [3]] or classic.obtain(dup) != [1, 2, [3, "change-to-the-copy"]]:
                    ctx.violation("C03/deliver-shares-state", "changing the delivered copy of a peer-owned object changed the original", dict(obj="rv_orig"))
            ctx.count("deliver_of_proxies")
            del orig, dup
            loc = [1, [2]]
            cp = classic.obtain(loc)
            if cp != loc or cp is loc or cp[1] is loc[1]:
                ctx.violation("C03/obtain-local-not-copied", "obtain() of a local object is not an equal, independent copy", dict(obj=repr(obj)))
            del r, mixed, got
    except BaseException as e:
        ctx.violation("C03/obtain-deliver-aborted/%s" % type(e).__name__, "obtain/deliver aborted: %r" % (e,))
    conn = None
    pair.close()


def gen_picklable(rng, depth=0):
    c = rng.randrange(3 if depth < 2 else 1)
    if c == 0:
        return [rng.choice([rng.randrange(-5, 300), gen.gen_text(rng, False), gen.gen_bytes(rng), (1, (2, 'x')), None, 2.5]) for _ in range(rng.randrange(0, 4))]
    if c == 1:
        return {("k", i): gen_picklable(rng, depth + 1) for i in range(rng.randrange(0, 3))}
    return [gen_picklable(rng, depth + 1), rng.randrange(100)]


def run(ctx):
    from rv import suiterun
    suiterun.for_check(ctx, PROPERTY, ['box_calls'])
    import rpyc
    from rpyc.core import brine
    rng = ctx.rng
    state = dict(slots={}, owned=[], last=None)
    pair = vnet.ServedPair(rpyc.VoidService(), make_service(state)(), cfg_a={"allow_public_attrs": True})
    try:
        root = pair.a.root
        if ctx.shard[0] == 0:
            for i, v in enumerate(gen.boundary_values()):
                if type(v) in (str, bytes, tuple) and len(v) > 70000:
                    continue
                check_value(ctx, pair, state, root, v, "boundary#%d" % i, brine)
            for i, v in enumerate(gen.nonplain_atoms()):
                check_value(ctx, pair, state, root, v, "zoo#%d" % i, brine)
                if pair.net.runaway or ctx.enough(10):
                    break
        for i in range(ctx.budget(6000, 1600000)):
            if ctx.enough(10):
                break
            v = gen.gen_plain(rng)
            check_value(ctx, pair, state, root, v, "plain#%d" % i, brine)
            if i < 2:
                ctx.sample({"plain": repr(v)[:150]})
            if ctx.enough():
                break
        # equal values of different exact types, one after the other over the same connection (all orders of sending)
        for i in range(ctx.budget(400, 100000)):
            if ctx.enough(10):
                break
            for j, v in enumerate(gen.gen_twin_family(rng)):
                check_value(ctx, pair, state, root, v, "twin#%d.%d" % (i, j), brine)
                ctx.count("equal_values_of_different_types_in_sequence")
        for i in range(ctx.budget(2000, 500000)):
            if ctx.enough(10):
                break
            v = gen.gen_nonplain(rng)
            check_value(ctx, pair, state, root, v, "nonplain#%d" % i, brine)
            if pair.net.runaway:
                break
            if i < 2:
                ctx.sample({"nonplain": repr(v)[:150]})
            if ctx.enough():
                break
        root = None
    finally:
        pair.close()
    if pair.net.runaway:
        ctx.violation("C03/runaway-exchange", "transferring one value caused more than 3000 transport writes (unbounded ping-pong between the peers)")
    if pair.server_exc is not None:
        ctx.violation("C03/server-died/%s" % type(pair.server_exc).__name__, "serving side died: %r" % (pair.server_exc,))
    for i in range(ctx.budget(500, 160000)):
        if ctx.enough(10):
            break
        ops = identity_history(ctx, rng, i)
        if i < 2:
            ctx.sample({"identity history": [list(o) for o in ops]})
        if ctx.enough():
            break
    if not ctx.enough():
        obtain_deliver(ctx, rng, ctx.budget(100, 24000))
    if not ctx.counters["nonplain_sent"] or not ctx.counters["plain_sent"]:
        ctx.inconclusive("one of the two transfer modes was never observed")

"""C14 - a waiter returns as soon as its reply has been processed by any thread.

Virtual-time monitor on the shared-connection harness (lib/rv/sharedconn.py): the monitor stamps the virtual instant at
which AsyncResult.__call__ completed for a request and the instant at which the waiting thread returned from wait().
The virtual clock advances only when no thread can run, so any difference is a real stall. Stalls are classified by
where the waiter sat while the clock advanced.
"""
from rv import sharedconn

PROPERTY = "C14"
LEVEL = "exploration"
RULE = ("a caller task (1-2 sync/async requests) + BgServingThread (+ optional second caller) around the hand-off 'receiver "
        "releases the receive lock, notifies waiters, then dispatches the reply'; schedules: census + every placement of ONE "
        "delay, seeded random and PCT schedules. distinct = switch-trace hash; non-trivial = a reply was dispatched by a thread "
        "other than the waiter")
ASSUMPTIONS = ["virtual time only advances when no task is runnable, so return-time > dispatch-time is a stall, never scheduling noise",
               "classification key = where the waiter was blocked while the clock advanced (poll / condition behind a poller / "
               "condition with nobody polling)"]
SHARDS = {"quick": 1, "thorough": 16}
MIN_DISTINCT = {"quick": 200, "thorough": 10000}


def configs():
    return [(1, (("s",),), True), (1, (("s", "s"),), True), (2, (("s",), ("s",)), True), (2, (("a", "s"), ("s",)), True),
            (2, (("s",), ("s",)), False), (3, (("s",), ("s",), ("a",)), False),
            (1, (("s", "s"),), "poller"), (2, (("s",), ("a", "s")), "poller"),
            # a result whose application callback raises in whichever thread dispatches the reply
            (1, (("sx",),), True), (2, (("sx",), ("s",)), True), (2, (("sx",), ("s",)), False)]


def record(ctx, obs):
    st = sharedconn.stalls(obs)
    ctx.case(("trace", obs["cfg"][0], obs["cfg"][2], obs["trace"]), nontrivial=obs["preemptions"] > 0)
    ctx.count("runs")
    ctx.count("waits_timed", sum(1 for o in obs["outcomes"] if o[3] is not None))
    if not obs["ok"]:
        ctx.inconclusive("wall-clock watchdog")
        return
    wit = dict(cfg=obs["cfg"], seed=obs["seed"], policy=obs["policy"], script=obs["script"])
    for token, waited, tags in st:
        ctx.count("stalls")
        ctx.maximum("max_stall_virtual_ms", int(waited * 1000))
        kinds = set(tags)
        if any(k[0] == "woken-without-recheck" for k in kinds):
            ctx.violation("C14/stall/woken-but-did-not-look-at-its-result", "request %s: the waiter returned %.3g virtual s after its reply had been "
                          "dispatched: it was woken on the receive condition and went on to %s without evaluating its result's "
                          "readiness in between" % (token, waited, sorted(k[1] for k in kinds if k[0] == "woken-without-recheck")), wit)
        elif kinds and kinds <= {("poll", "A"), ("cond-wait", "behind-poller")}:
            ctx.violation("C14/stall-after-reply-processed/in-serve", "request %s: the waiter returned %.3g virtual s after its reply had been dispatched by "
                          "another thread; it had re-entered serve() and sat in %s" % (token, waited, sorted(kinds)), wit)
        elif ("cond-wait", "nobody-polling") in kinds:
            ctx.violation("C14/stall/asleep-on-condition-nobody-polling", "request %s: the waiter slept %.3g s on the condition although nobody held "
                          "the receive lock" % (token, waited), wit)
        else:
            ctx.violation("C14/stall/other", "request %s returned %.3g s after its reply was processed (blocked at %r)" % (token, waited, sorted(kinds)), wit)
    for token, out, t_ret, t_done, ci in obs["outcomes"]:
        if out[0] == "exc" and out[1] == "TimeoutError" and not st:
            ctx.violation("C14/timeout-although-answered", "request %s timed out although the peer answered it" % token, wit)
    if obs["deadlock"]:
        ctx.violation("C14/deadlock", "deadlock: %r" % (obs["deadlock"],), wit)


def run(ctx):
    rng = ctx.rng
    cfgs = configs()
    if ctx.shard[0] == 0:
        for cfg in [cfgs[0], cfgs[2], cfgs[6]]:
            cen = sharedconn.run_shared(cfg, 0, "scripted", census=True)
            record(ctx, cen)
            points = [(name, nth) for (name, nth, tag) in cen["census"] if name != "peer"]
            for (name, nth) in points[::(2 if ctx.quick else 1)]:
                for d in (3, 40):
                    record(ctx, sharedconn.run_shared(cfg, 0, "scripted", script=[(name, nth, d)]))
                    ctx.count("systematic_delay_runs")
                if ctx.enough():
                    break
            if ctx.enough():
                return
    for i in range(ctx.budget(800, 500000)):
        cfg = rng.choice(cfgs)
        obs = sharedconn.run_shared(cfg, (ctx.seed, ctx.shard[0], i), "random" if i % 3 else "pct", p_switch=rng.choice([0.05, 0.2, 0.5]))
        record(ctx, obs)
        if i < 2:
            ctx.sample({"cfg": cfg, "stalls": [(s[0], s[1], [list(t) for t in s[2]]) for s in sharedconn.stalls(obs)]})
        if ctx.enough():
            break
    if not ctx.counters["waits_timed"]:
        ctx.inconclusive("no wait was timed")


def replay(ctx, w):
    wit = w["witness"]
    cfg = wit["cfg"]
    cfg = (cfg[0], tuple(tuple(m) for m in cfg[1]), cfg[2])
    seed = tuple(wit["seed"]) if isinstance(wit["seed"], list) else wit["seed"]
    record(ctx, sharedconn.run_shared(cfg, seed, wit["policy"], script=[tuple(x) for x in wit["script"]]))

"""C01 - remote calls compute what a local call would, at any nesting depth.

Differential monitor: a generated call-tree program is executed (i) inside one process with direct calls between two
Worker objects and (ii) split over two real Connections (Worker A driven by this thread, Worker B served by the real
serve_all in a thread; calls nest through serve() re-entrancy). Same interpreter function in both runs. Compared:
the outermost result / exception, what every callee observed about its arguments (values by bit-exact fingerprint,
references by the token of the underlying object read through the reference), and per-node invocation counters.
"""
from rv import gen, refcodec as rc, vnet

PROPERTY = "C01"
LEVEL = "exploration"
RULE = ("seeded call trees: each node is assigned to peer A or B, has 0-4 children called in order (sync or async), "
        "positional and keyword arguments drawn from shapes {plain scalar, nested tuple mixing values and references, "
        "list/dict/object reference, callable that the callee invokes, reference received from the caller passed on, one falsy "
        "object supplied several times in one call}, may "
        "raise a built-in exception (Exception subclasses, and GeneratorExit / BaseException which are not) after its children ran "
        "and may catch a (base) class from its children; depth <= 8 "
        "quick / <= 30 thorough. distinct = canonical tree shape (peers, fan-out, raise/catch, arg shapes); non-trivial = "
        "crosses the wire at least twice")
ASSUMPTIONS = ["both peers live in one process; peer B is served by one thread (serve_all), peer A by the driver thread",
               "exception arguments are plain values here (normalisation of non-plain arguments is C09)"]
SHARDS = {"quick": 1, "thorough": 16}
MIN_DISTINCT = {"quick": 400, "thorough": 10000}

EXCS = [ValueError, KeyError, IndexError, LookupError, ArithmeticError, ZeroDivisionError, TypeError, RuntimeError,
        AttributeError, OSError, AssertionError, NotImplementedError, UnicodeError, StopIteration, EOFError, TimeoutError,
        GeneratorExit, BaseException]      # the last two: exceptions that are not Exception subclasses travel as well
CATCH = [LookupError, ArithmeticError, ValueError, KeyError, Exception, OSError, RuntimeError, TypeError, BaseException, GeneratorExit]


def _program_exception(e):
    """exceptions the generated programs raise (everything else - harness watchdogs, interrupts - passes through)"""
    return not isinstance(e, (vnet.Stalled, KeyboardInterrupt, SystemExit))
REFSHAPES = ("list", "dict", "obj", "callable")      # shapes that may be passed on
SHAPES = ["scalar", "scalar", "tuple_mixed", "list", "dict", "obj", "callable", "passon", "tuple_plain", "nested_ref_tuple", "cls", "boundmethod",
          "same_twice", "frozenset_refs"]


class Tok(object):
    """mutable object carrying a token; never plain, so it travels by reference"""
    made = 0

    def __init__(self, tag):
        self.tag = tag
        self.n = 0
        Tok.made += 1

    def bump(self, k):
        self.n += k
        return (self.tag, self.n)


class Quiet(object):
    """an object that is falsy and empty; being asked for its length or truth is an observable invocation on its owner"""

    def __init__(self, world, tag):
        self.world = world
        self.tag = tag

    def __len__(self):
        self.world.cb_calls["len:" + self.tag] = self.world.cb_calls.get("len:" + self.tag, 0) + 1
        return 0


def gen_program(rng, max_depth):
    nodes = []

    def mk(depth, peer, parent_passable=None):
        nid = len(nodes)
        node = dict(id=nid, peer=peer, children=[], raises=None, catches=None, args=[], kwargs=[], async_=False,
                    use_callable=rng.random() < .8)
        nodes.append(node)
        nargs = rng.randrange(0, 4)
        node["args"] = [rng.choice(SHAPES) for _ in range(nargs)]
        node["kwargs"] = [(rng.choice(["k", "key2", "a b", "é", "class", "zz", "B", "_u"]) + str(i), rng.choice(SHAPES))
                          for i in range(rng.choice([0, 0, 1, 2, 2, 3, 4]))]
        # "passon" hands on the first reference the parent itself received; its concrete shape is known statically
        pshape = parent_passable
        node["args"] = [("passon:" + pshape if pshape else "obj") if a == "passon" else a for a in node["args"]]
        node["kwargs"] = [(k, ("passon:" + pshape if pshape else "obj") if a == "passon" else a) for k, a in node["kwargs"]]
        mine = [a.split(":")[-1] for a in node["args"] if a.split(":")[-1] in REFSHAPES]
        node["passable"] = mine[0] if mine else None
        node["async_"] = rng.random() < .25
        if rng.random() < .12:
            node["raises"] = (rng.randrange(len(EXCS)), gen_exc_args(rng))
        if rng.random() < .45:
            node["catches"] = rng.randrange(len(CATCH))
        if depth < max_depth:
            # a spine child keeps the tree deep; siblings are shallower
            fan = rng.choice([1, 1, 1, 2, 2, 3, 4]) if depth < max_depth - 1 else rng.choice([0, 1, 2])
            for i in range(fan):
                cpeer = ("B" if peer == "A" else "A") if rng.random() < .8 else peer
                d2 = depth + 1 if i == 0 else depth + 1 + rng.randrange(0, max(1, max_depth - depth))
                if d2 <= max_depth:
                    node["children"].append(mk(d2, cpeer, node["passable"]))
        return nid
    mk(0, "B")     # the driver (on A's side) calls the root node on B
    return nodes


def gen_exc_args(rng):
    return tuple(gen.gen_plain(rng, 3, surrogates=False) for _ in range(rng.randrange(0, 3)))


def shape_of(nodes):
    def s(n):
        node = nodes[n]
        return (node["peer"], tuple(node["args"]), tuple(k for _, k in node["kwargs"]), node["raises"] and node["raises"][0],
                node["catches"], node["async_"], tuple(s(c) for c in node["children"]))
    return s(0)


def wire_crossings(nodes):
    n = 1
    for node in nodes:
        for c in node["children"]:
            if nodes[c]["peer"] != node["peer"]:
                n += 1
    return n


class World(object):
    """shared, harness-side log of one run (both workers write to it directly: same process)"""

    def __init__(self, nodes, seed):
        self.nodes = nodes
        self.seed = seed
        self.counts = {}
        self.observed = {}      # nid -> summary of args as seen by the callee
        self.cb_calls = {}      # callable tag -> count
        self.serial = 0

    def fresh(self, peer, nid, what):
        self.serial += 1
        return "%s:%s:%d:%d" % (what, peer, nid, self.serial)


def summ(x, shape, invoke=True):
    """what a callee can observe about an argument/result of a statically known shape; references are read through"""
    shape = shape.split(":")[-1]
    if shape in ("scalar", "tuple_plain", "plain"):
        return ("v", rc.fingerprint(x))
    if shape == "list":
        return ("list", rc.fingerprint(x[0]), len(x))
    if shape == "dict":
        return ("dict", rc.fingerprint(x["tok"]))
    if shape == "obj":
        return ("obj", rc.fingerprint(x.tag))
    if shape == "callable":
        return ("callable", (rc.fingerprint(x("ping")), x(None)) if invoke else None)
    if shape == "cls":
        # a class is a callable too: calling it runs the constructor once on the owner's side and hands back a reference
        made = x("made-by-callee")
        return ("cls", rc.fingerprint(made.tag), rc.fingerprint(made.bump(2)))
    if shape == "boundmethod":
        return ("boundmethod", rc.fingerprint(x(3)))
    if shape == "tuple_mixed":
        return ("tm", type(x) is tuple and len(x), x[0], rc.fingerprint(x[1][0]), x[2][0], rc.fingerprint(x[2][1].tag), x[3])
    if shape == "nested_ref_tuple":
        return ("nrt", type(x) is tuple, type(x[0]) is tuple, rc.fingerprint(x[0][0][0][0]), rc.fingerprint(x[1]["tok"]))
    if shape == "same_twice":
        # one object supplied twice in one call: the callee must see ONE object (x[0] is x[1] in a single process)
        return ("same_twice", x[0] is x[1], x[1] is x[2][0], rc.fingerprint(x[0].tag), x[3] is x[4])
    if shape == "frozenset_refs":
        # an immutable CONTAINER whose members are not values (hashable is not plain): read through like any other reference
        return ("fsr", x[0], sorted(rc.fingerprint(t.tag) for t in x[1]), len(x[1]))
    if shape == "none":
        return ("none", x is None)
    raise AssertionError(shape)


def summ_result(r, child):
    kind = child["id"] % 4
    if kind == 0:
        return ("k0", rc.fingerprint(r))
    if kind == 1:
        return ("k1", type(r) is tuple and len(r), rc.fingerprint(r[0]), rc.fingerprint(r[1].tag))
    if kind == 2:
        return ("k2", rc.fingerprint(r[0]), rc.fingerprint(r[1]))
    third = summ(r[2], child["passable"], invoke=False) if child["passable"] else ("none", r[2] is None)
    return ("k3", r[0], rc.fingerprint(r[1]), third)


class Worker(object):
    def __init__(self, peer, world):
        self.peer = peer
        self.world = world
        self.other = None         # the other peer's worker: a direct reference (twin) or a proxy (distributed)
        self.async_other = None
        self.connect = None       # lazy resolver, run on first use in the thread that executes this worker

    # exposed to the peer (allow_public_attrs)
    def run(self, nid, *args, **kwargs):
        w = self.world
        node = w.nodes[nid]
        w.counts[nid] = w.counts.get(nid, 0) + 1
        seen = [summ(a, sh, node["use_callable"]) for a, sh in zip(args, node["args"])]
        seen.append(len(args))
        kwshape = dict(node["kwargs"])
        seen += [(k, summ(v, kwshape[k], node["use_callable"])) for k, v in sorted(kwargs.items())]
        seen.append(("keyword order as the callee sees it", tuple(kwargs)))
        w.observed.setdefault(nid, []).append(seen)
        passable = [a for a, sh in zip(args, node["args"]) if sh.split(":")[-1] in REFSHAPES]
        acc = []
        if self.other is None and self.connect is not None:
            self.connect(self)
        for cid in node["children"]:
            child = w.nodes[cid]
            cargs = [self.build(child, cid, sh, passable) for sh in child["args"]]
            ckw = {k: self.build(child, cid, sh, passable) for k, sh in child["kwargs"]}
            try:
                if child["peer"] == self.peer:
                    r = self.run(cid, *cargs, **ckw)
                elif child["async_"] and self.async_other is not None:
                    r = self.async_other(cid, *cargs, **ckw).value
                else:
                    r = self.other.run(cid, *cargs, **ckw)
                acc.append(("ok", summ_result(r, child)))
            except BaseException as e:
                if not _program_exception(e):
                    raise
                c = node["catches"]
                if c is not None and isinstance(e, CATCH[c]):
                    acc.append(("caught", builtin_name(e), rc.fingerprint(tuple(e.args))))
                else:
                    raise
        if node["raises"] is not None:
            ei, eargs = node["raises"]
            raise EXCS[ei](*eargs)
        res_kind = nid % 4
        if res_kind == 0:
            return tuple(acc)
        if res_kind == 1:
            return (tuple(acc), Tok(w.fresh(self.peer, nid, "res")))         # tuple mixing a value and a reference
        if res_kind == 2:
            return [w.fresh(self.peer, nid, "reslist"), tuple(acc)]           # a reference whose content is read back
        return (len(acc), tuple(acc), passable[0] if passable else None)      # hands a received reference back

    def build(self, child, cid, shape, passable):
        w = self.world
        rng_tag = w.fresh(self.peer, cid, shape)
        if shape == "scalar":
            import random
            return gen.gen_plain(random.Random("%s/%s" % (w.seed, rng_tag)), 3, surrogates=True)
        if shape == "tuple_plain":
            return (1, ("x", (2.5, None)), b"y")
        if shape == "tuple_mixed":
            return (7, [rng_tag], ("in", Tok(rng_tag + "/o")), "txt")
        if shape == "nested_ref_tuple":
            return ((([rng_tag],),), {"tok": rng_tag})
        if shape == "list":
            return [rng_tag, 1, 2]
        if shape == "dict":
            return {"tok": rng_tag}
        if shape == "obj":
            return Tok(rng_tag)
        if shape == "same_twice":
            q, e = Quiet(w, rng_tag), []
            return (q, q, (q, 1), e, e)
        if shape == "frozenset_refs":
            return (5, frozenset([Tok(rng_tag + "/a"), Tok(rng_tag + "/b")]))
        if shape == "cls":
            return Tok
        if shape == "boundmethod":
            return Tok(rng_tag).bump
        if shape == "callable":
            def cb(x, tag=rng_tag, w=w):
                w.cb_calls[tag] = w.cb_calls.get(tag, 0) + 1
                return (tag, x) if x is not None else None
            return cb
        if shape.startswith("passon:"):
            return passable[0]
        raise AssertionError(shape)


def builtin_name(e):
    for k in type(e).__mro__:
        if k.__module__ == "builtins":
            return k.__name__
    return type(e).__name__


def normalise_serials(obj, mapping):
    """tokens embed a per-run serial; both runs create objects in the same order, so serials must agree as they are"""
    return obj


def run_twin(nodes, seed):
    w = World(nodes, seed)
    a, b = Worker("A", w), Worker("B", w)
    a.other, b.other = b, a
    return outcome(lambda: b.run(0), w), w


def outcome(thunk, w):
    try:
        r = thunk()
        return ("ok", summ_result(r, w.nodes[0]))
    except BaseException as e:
        if not _program_exception(e):
            raise
        return ("exc", builtin_name(e), rc.fingerprint(tuple(e.args)))


def run_distributed(nodes, seed):
    import rpyc

    class WSvc(rpyc.Service):
        def __init__(self, worker):
            self.worker = worker

        def exposed_run(self, nid, *a, **k):
            return self.worker.run(nid, *a, **k)
    w = World(nodes, seed)
    wa, wb = Worker("A", w), Worker("B", w)
    cfg = {"allow_public_attrs": True, "sync_request_timeout": 20}
    pair = vnet.ServedPair(WSvc(wa), WSvc(wb), cfg_a=cfg, cfg_b=cfg)
    pair.net.new_case(200000)
    keep = []
    try:
        class Stub(object):
            def __init__(self, root):
                self.run = root.run

        def connector(conn):
            def connect(worker):
                worker.other = Stub(conn.root)
                worker.async_other = rpyc.async_(worker.other.run)
                keep.append(worker.async_other)
            return connect
        wa.connect, wb.connect = connector(pair.a), connector(pair.b)
        wa.connect(wa)
        out = outcome(lambda: wa.other.run(0), w)
    finally:
        wa.other = wb.other = wa.async_other = wb.async_other = None
        del keep[:]
        ok = pair.close()
    extra = []
    if pair.server_exc is not None:
        extra.append("serving side died: %r" % (pair.server_exc,))
    if pair.net.runaway:
        extra.append("runaway exchange")
    return out, w, extra, pair.net.nwrites


def first_diff(a, b, path=()):
    if type(a) is tuple and type(b) is tuple and len(a) == len(b):
        for i, (x, y) in enumerate(zip(a, b)):
            d = first_diff(x, y, path + (i,))
            if d:
                return d
        return None
    if a != b or type(a) is not type(b):
        return (path, repr(a)[:300], repr(b)[:300])
    return None


def compare(ctx, nodes, seed, depth):
    t_out, tw = run_twin(nodes, seed)
    d_out, dw, extra, nwrites = run_distributed(nodes, seed)
    wit = dict(seed=seed, depth=depth, nodes=nodes, twin=repr(t_out)[:400], dist=repr(d_out)[:400], first_diff=first_diff(t_out, d_out))
    if t_out != d_out:
        kind = "%s-vs-%s" % (t_out[0], d_out[0])
        detail = ""
        if t_out[0] == d_out[0] == "exc":
            detail = "/class" if t_out[1] != d_out[1] else "/args"
        ctx.violation("C01/outcome-differs/%s%s" % (kind, detail),
                      "distributed run ends with %r, single-process run with %r" % (d_out[:2], t_out[:2]), wit)
    if tw.counts != dw.counts:
        diff = {n: (tw.counts.get(n, 0), dw.counts.get(n, 0)) for n in set(tw.counts) | set(dw.counts)
                if tw.counts.get(n, 0) != dw.counts.get(n, 0)}
        ctx.violation("C01/invocation-count", "nodes executed a different number of times (twin, distributed): %r" % (diff,), wit)
    if any(c != 1 for c in dw.counts.values()):
        ctx.violation("C01/not-exactly-once", "a callee ran %r times for one call" % ([c for c in dw.counts.values() if c != 1][:3],), wit)
    if tw.observed != dw.observed and tw.counts == dw.counts:
        bad = [n for n in tw.observed if tw.observed[n] != dw.observed.get(n)]
        n0 = bad[0] if bad else None
        ctx.violation("C01/arguments-differ", "callee %r observed other arguments than in the single-process run" % (n0,),
                      dict(wit, twin_seen=repr(tw.observed.get(n0))[:300], dist_seen=repr(dw.observed.get(n0))[:300]))
    if sorted(tw.cb_calls.values()) != sorted(dw.cb_calls.values()):
        ctx.violation("C01/callback-count", "callables passed as arguments were invoked a different number of times", wit)
    for e in extra:
        ctx.violation("C01/" + e.split(":")[0].replace(" ", "-"), e, wit)
    ctx.count("nodes_executed", sum(dw.counts.values()))
    ctx.count("callbacks_invoked", sum(dw.cb_calls.values()))
    ctx.count("transport_writes", nwrites)
    ctx.count("outcome_" + d_out[0])
    ctx.maximum("max_depth_crossings", wire_crossings(nodes))


def _shared_callable(x):
    return ("ran", x)


def two_connections_one_callable(ctx, idx):
    """'a call made through a connection runs the target on THAT connection's peer': two connections whose peers expose the very
    same callable object (same process, same addresses - as after a reconnect, or with servers forked from one parent); the
    asynchronous wrappers made for the two proxies must each call through their own connection, also after the first connection
    has gone."""
    import rpyc

    class Svc(rpyc.Service):
        def __init__(self, tag):
            self.tag = tag
            self.calls = []

        def exposed_get(self):
            return _shared_callable

        def exposed_who(self):
            return self.tag

        def exposed_note(self, x):
            self.calls.append(x)
            return (self.tag, x)
    s1, s2 = Svc("one"), Svc("two")
    p1 = vnet.ServedPair(rpyc.VoidService(), s1, cfg_a={"sync_request_timeout": 20}, cfg_b={"allow_public_attrs": True})
    p2 = vnet.ServedPair(rpyc.VoidService(), s2, cfg_a={"sync_request_timeout": 20}, cfg_b={"allow_public_attrs": True})
    wit = dict(family="two-connections-one-callable", index=idx)
    try:
        f1, f2 = p1.a.root.get(), p2.a.root.get()
        a1, a2 = rpyc.async_(f1), rpyc.async_(f2)
        n1 = rpyc.async_(p1.a.root.note)
        n2 = rpyc.async_(p2.a.root.note)
        w0 = p2.net.nwrites
        r2 = a2(idx).value
        if r2 != ("ran", idx) or p2.net.nwrites == w0:
            ctx.violation("C01/two-connections/asynchronous-call-went-elsewhere", "an asynchronous call through connection 2's proxy of a callable that connection 1 "
                          "also holds gave %r and caused %d writes on connection 2: it did not travel over its own connection" % (r2, p2.net.nwrites - w0), wit)
        if (n1("x").value, n2("y").value) != (("one", "x"), ("two", "y")) or s1.calls != ["x"] or s2.calls != ["y"]:
            ctx.violation("C01/two-connections/method-call-went-elsewhere", "asynchronous calls of the two connections' own methods ran %r / %r" % (s1.calls, s2.calls), wit)
        if idx % 2:
            del a1, f1, n1
            p1.close()
            try:
                r = rpyc.async_(f2)(idx + 1).value
            except Exception as e:
                r = "%s: %s" % (type(e).__name__, e)
            if r != ("ran", idx + 1):
                ctx.violation("C01/two-connections/call-fails-after-other-connection-closed", "after connection 1 was closed, an asynchronous call through "
                              "connection 2 ended with %r" % (r,), wit)
        ctx.case(("two-connections", idx % 2), nontrivial=True)
        ctx.count("two_connection_scenarios")
    except Exception as e:
        ctx.violation("C01/two-connections/aborted/%s" % type(e).__name__, "scenario aborted: %r" % (e,), wit)
    finally:
        f1 = f2 = a1 = a2 = n1 = n2 = None
        p1.close()
        p2.close()


def make_program(seed, depth):
    import random
    nodes = gen_program(random.Random(seed), depth)
    if len(nodes) > 60:
        nodes = gen_program(random.Random(seed + "x"), min(depth, 6))
    return nodes


def run(ctx):
    rng = ctx.rng
    if ctx.shard[0] == 0:
        for i in range(6):
            two_connections_one_callable(ctx, i)
    n = ctx.budget(800, 40000)
    maxd = 8 if ctx.quick else 30
    for i in range(n):
        depth = rng.randrange(1, maxd + 1) if rng.random() < .8 else maxd
        seed = "%s/%s/%d/%d" % (ctx.seed, ctx.shard[0], i, rng.randrange(10 ** 9))
        nodes = make_program(seed, depth)
        ctx.case(shape_of(nodes), nontrivial=wire_crossings(nodes) >= 2)
        ctx.maximum("max_nodes", len(nodes))
        ctx.maximum("max_depth", depth)
        compare(ctx, nodes, seed, depth)
        if i < 2:
            ctx.sample({"program": nodes})
        if ctx.enough(10):
            break
    if not ctx.counters["outcome_exc"] or not ctx.counters["outcome_ok"]:
        ctx.inconclusive("programs never reached both outcome kinds")


def replay(ctx, w):
    wit = w["witness"]
    compare(ctx, make_program(wit["seed"], wit["depth"]), wit["seed"], wit["depth"])

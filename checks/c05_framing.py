"""C05 - packets arrive whole, in order and unaltered however the transport fragments.

Technique: runtime monitoring + fault enumeration.  The REAL Channel runs over the REAL SocketStream / PipeStream;
only the object below the stream is ours:

  FragSocket   in-process socket (recv/send/shutdown/close/fileno) whose two ends share one byte buffer (Link).
               A seeded plan scripts how many bytes every recv returns / every send accepts, which transient
               conditions (socket.timeout, BlockingIOError(EAGAIN), OSError(EWOULDBLOCK)) precede the data, and the
               fault: stream cut at byte offset c (EOF or ECONNRESET exactly there), send failing at the k-th call.
  real kernel  PipeStream.create_pair() (optionally 4 KiB pipes), socket.socketpair() with 4 KiB buffers (blocking,
               with a socket timeout, or non-blocking at the reader: real timeouts / EAGAIN, counted by a tap), TCP
               loopback closed by RST; one writer thread, one reader thread, every join has a watchdog.

Oracle: the list returned by Channel.recv() equals the list given to Channel.send().  After a cut at offset c exactly
the packets whose last frame byte (the newline) lies at or before c are delivered, the next recv() raises EOFError and
stream.closed is True.  Frame extents are taken from the writer (buffer length after every Channel.send), not from a
parser.  A failing send makes that Channel.send raise EOFError and closes the writer's stream.
"""
import bisect
import errno
import os
import random
import socket
import struct
import threading
import time
import zlib

from rv import refcodec as rc

PROPERTY = "C05"
LEVEL = "fault_enumeration"
RULE = ("sequences of 1-6 packets, sizes from {0,1,2,100, threshold-1/=/+1 (2999/3000/3001), single-write boundary "
        "(63993/63994/63995), chunk (64000/64001), 2 chunks (127999/128000/128001), compressed size exactly at the "
        "single-write boundary, 1 MiB} plus jitter, payload kinds {random, repeating, all-newlines, frame-look-alike}, "
        "compress in {on,off}^2; scripted recv sizes {1, 2, n-1, all, random, MSS-like, split at every frame-structure "
        "edge} with 0/30/80% injected timeout/EAGAIN/EWOULDBLOCK, send accepting {1, 2, half, n-1, all, random}; writer "
        "ahead of or interleaved with the reader. Fault enumeration: EOF and ECONNRESET at EVERY byte offset of short "
        "sequences (<= 300 frame bytes) and at every write/frame boundary (+-1, header bytes) plus sampled offsets of "
        "long ones; EPIPE/ECONNRESET at every send call; kernel transports: truncated frame then close / RST, reader "
        "closing under a blocked writer. distinct = (transport, size classes, payload kinds, compress flags, "
        "fragmentation class, fault kind, offset class); non-trivial = at least one packet byte crossed the transport "
        "or a fault was injected")
ASSUMPTIONS = ["would-block / timeout conditions are injected on sockets only: pipes handed to PipeStream are blocking "
               "by construction and cannot report them",
               "a transient condition is reported a bounded number of times in a row (<= 4) before data or the end of the "
               "stream follows; ETIMEDOUT-style errors that map to TimeoutError are not modelled as failures",
               "frame extents for the cut oracle come from the writer side (bytes written when Channel.send returned); "
               "the 5-byte header / 1-byte newline layout is used only to name offset classes and to build the truncated "
               "frames of the kernel-transport runs (lib/rv/refcodec.frame, the published format checked by C19)",
               "on real transports closed by RST the kernel may discard delivered-but-unread bytes: the reader must see a "
               "prefix of whole packets, then EOFError",
               "a reader still running after the writer thread has written everything and closed is judged a violation "
               "(all data was available); any other missed watchdog is inconclusive"]
SHARDS = {"quick": 1, "thorough": 16}
MIN_DISTINCT = {"quick": 4000, "thorough": 200000}

HDR = 5
MiB = 1 << 20
SMALL = [0, 1, 2, 100, 2999, 3000, 3001]
LARGE = [63993, 63994, 63995, 64000, 64001, 127999, 128000, 128001]
KINDS = ["rnd", "rep", "nl", "hdr"]


def excname(e):
    t = type(e)
    return t.__name__ if t.__module__ == "builtins" else "%s.%s" % (t.__module__, t.__name__)


class HarnessAbort(BaseException):
    """raised out of a scripted socket call when the code above can be shown to loop. Deliberately not an Exception:
    it must pass through SocketStream's handlers untouched."""


# ------------------------------------------------------------------------------------------------ payloads
_PAY = {}


def payload(size, kind, seed):
    key = (size, kind, seed)
    if key in _PAY:
        return _PAY[key]
    r = random.Random("payload/%s/%s/%s" % key)
    if kind == "rnd":
        d = r.randbytes(size)
    elif kind == "rep":
        unit = r.randbytes(r.randint(1, 9))
        d = (unit * (size // len(unit) + 1))[:size]
    elif kind == "nl":
        d = b"\n" * size
    else:  # "hdr": looks like a run of tiny frames
        unit = struct.pack(">IB", r.randint(0, 3), r.randint(0, 1)) + r.randbytes(1) + b"\n"
        d = (unit * (size // len(unit) + 1))[:size]
    if len(_PAY) > 48:
        _PAY.clear()
    _PAY[key] = d
    return d


def size_for_compressed(target, seed):
    """size n such that zlib.compress(payload(n, 'rnd', seed), 1) is exactly target bytes long (or None)"""
    n = target - 26
    for _ in range(8):
        c = len(zlib.compress(payload(n, "rnd", seed), 1))
        if c == target:
            return n
        n += target - c
        if n < 3001:
            return None
    return None


def size_class(n, table):
    if n in table:
        return str(n)
    if n >= MiB:
        return "1MiB+"
    return "~%d" % min(table, key=lambda t: abs(t - n)) if n > 200 else "small"


# ------------------------------------------------------------------------------------------------ FragSocket
class Link(object):
    """one direction of a byte stream between a writer-end and a reader-end FragSocket; everything is scripted"""
    LOOP_LIMIT = 64

    def __init__(self, recv_mode="all", recv_seed=0, tprob=0.0, tmax=1, send_mode="all", send_seed=0,
                 preload=None, cut=None, cut_kind="eof", fail_send_at=None, send_errno=errno.EPIPE):
        self.buf = preload if preload is not None else bytearray()
        self.rpos = 0
        self.cut = cut
        self.cut_kind = cut_kind
        self.fail_send_at = fail_send_at
        self.send_errno = send_errno
        self.recv_mode, self.send_mode = recv_mode, send_mode
        self.rrng = random.Random("recv/%s" % recv_seed)
        self.srng = random.Random("send/%s" % send_seed)
        self.tprob, self.tmax = tprob, tmax
        self.consec = 0
        self.writer_closed = False
        self.reader_closed = False
        self.feeder = None
        self.splits = []          # stream offsets at which "edge" mode ends a recv
        self.send_offsets = []    # stream length after every accepted send (fragment boundaries of the writer)
        self.n_recv_calls = self.n_recv_data = self.n_short_recv = 0
        self.n_timeout = self.n_eagain = self.n_ewouldblock = 0
        self.n_send_calls = self.n_partial_sends = self.n_send_failed = 0
        self.n_end_indications = 0

    # -- sizes
    def _pick(self, mode, rng, m, asked):
        if mode == "all" or mode == "edge":
            return m
        if mode == "one":
            return 1
        if mode == "two":
            return min(2, m)
        if mode == "m1":
            return asked - 1 if (m == asked and asked > 1) else m
        if mode == "half":
            return max(1, m // 2)
        if mode == "chunky":
            return min(m, rng.choice((1, 536, 1460, 4096, 8192, 65536)))
        x = rng.random()   # "rand"
        if x < .3:
            return 1
        if x < .4:
            return min(2, m)
        if x < .6:
            return rng.randint(1, min(m, 16))
        if x < .8:
            return rng.randint(1, m)
        return m

    def _limit(self):
        n = len(self.buf)
        return n if self.cut is None else min(n, self.cut)

    # -- reader end
    def recv(self, n):
        self.n_recv_calls += 1
        if self.reader_closed:
            raise OSError(errno.EBADF, "Bad file descriptor")
        if n <= 0:
            return b""
        if self.consec < self.tmax and self.tprob and self.rrng.random() < self.tprob:
            self.consec += 1
            which = self.rrng.randrange(3)
            if which == 0:
                self.n_timeout += 1
                raise socket.timeout("timed out")
            if which == 1:
                self.n_eagain += 1
                raise BlockingIOError(errno.EAGAIN, "Resource temporarily unavailable")
            self.n_ewouldblock += 1
            raise socket.error(errno.EWOULDBLOCK, "Operation would block")
        self.consec = 0
        avail = self._limit() - self.rpos
        while avail == 0 and self.feeder is not None and (self.cut is None or self.rpos < self.cut):
            if not self.feeder():
                break
            avail = self._limit() - self.rpos
        if avail == 0:
            self.n_end_indications += 1
            if self.n_end_indications > self.LOOP_LIMIT:
                raise HarnessAbort("reader called recv %d times after the end of the stream was reported" % self.LOOP_LIMIT)
            if self.cut is not None and self.rpos >= self.cut:
                if self.cut_kind == "reset":
                    raise ConnectionResetError(errno.ECONNRESET, "Connection reset by peer")
                return b""
            if self.writer_closed:
                return b""
            raise HarnessAbort("reader wants more bytes than the writer has produced and nothing closes the stream")
        m = min(n, avail)
        k = self._pick(self.recv_mode, self.rrng, m, n)
        if self.recv_mode == "edge" and self.splits:
            i = bisect.bisect_right(self.splits, self.rpos)
            if i < len(self.splits):
                k = min(k, self.splits[i] - self.rpos)
        out = bytes(self.buf[self.rpos:self.rpos + k])
        self.rpos += k
        self.n_recv_data += 1
        if k < n:
            self.n_short_recv += 1
        return out

    # -- writer end
    def send(self, data):
        idx = self.n_send_calls
        self.n_send_calls += 1
        if self.writer_closed:
            raise OSError(errno.EBADF, "Bad file descriptor")
        if (self.fail_send_at is not None and idx >= self.fail_send_at) or self.reader_closed:
            self.n_send_failed += 1
            if self.n_send_failed > self.LOOP_LIMIT:
                raise HarnessAbort("writer called send %d times after the transport reported a failure" % self.LOOP_LIMIT)
            if self.send_errno == errno.ECONNRESET:
                raise ConnectionResetError(errno.ECONNRESET, "Connection reset by peer")
            raise BrokenPipeError(errno.EPIPE, "Broken pipe")
        n = len(data)
        if n == 0:
            return 0
        k = self._pick(self.send_mode, self.srng, n, n)
        self.buf += data[:k]
        if k < n:
            self.n_partial_sends += 1
        self.send_offsets.append(len(self.buf))
        return k


class FragSocket(object):
    """the part of the socket API SocketStream uses, over a Link"""

    def __init__(self, link, role):
        self.link, self.role = link, role
        self.is_closed = False

    def recv(self, n, flags=0):
        if self.is_closed:
            raise OSError(errno.EBADF, "Bad file descriptor")
        if self.role != "r":
            raise HarnessAbort("writer end asked to recv")
        return self.link.recv(n)

    def send(self, data, flags=0):
        if self.is_closed:
            raise OSError(errno.EBADF, "Bad file descriptor")
        if self.role != "w":
            raise HarnessAbort("reader end asked to send")
        return self.link.send(bytes(data))

    def shutdown(self, how):
        if self.is_closed:
            raise OSError(errno.EBADF, "Bad file descriptor")
        if self.role == "w":
            self.link.writer_closed = True

    def close(self):
        self.is_closed = True
        if self.role == "w":
            self.link.writer_closed = True
        else:
            self.link.reader_closed = True

    def fileno(self):
        if self.is_closed:
            raise OSError(errno.EBADF, "Bad file descriptor")
        return 10 ** 6


def mk_link(plan, **over):
    r = plan.get("recv") or ["all", 0, 0.0, 1]
    s = plan.get("send") or ["all", 0]
    return Link(recv_mode=r[0], recv_seed=r[1], tprob=r[2], tmax=r[3], send_mode=s[0], send_seed=s[1], **over)


def account_link(ctx, link):
    ctx.count("timeouts_injected", link.n_timeout)
    ctx.count("eagain_injected", link.n_eagain)
    ctx.count("ewouldblock_injected", link.n_ewouldblock)
    ctx.count("partial_sends", link.n_partial_sends)
    ctx.count("short_recvs", link.n_short_recv)
    ctx.count("recv_calls", link.n_recv_calls)
    ctx.count("send_calls", link.n_send_calls)


# ------------------------------------------------------------------------------------------------ oracle
def classify(got, exp, i):
    """how does got differ from exp[i]"""
    want = exp[i]
    if len(got) < len(want) and want.startswith(got):
        return "shortened"
    if len(got) > len(want) and got.startswith(want):
        rest = got[len(want):]
        if i + 1 < len(exp) and exp[i + 1] and (rest.find(exp[i + 1][:8]) >= 0):
            return "merged"
        return "padded"
    if any(got == e for e in exp):
        return "reordered"
    return "altered"


def read_all(chan, link_or_none, n_max):
    """call chan.recv() until it raises (at most n_max+1 times); returns (packets, outcome, detail, maxfrag)"""
    got, outcome, detail, maxfrag = [], None, None, 0
    for _ in range(n_max + 1):
        f0 = link_or_none.n_recv_data if link_or_none is not None else 0
        try:
            d = chan.recv()
        except EOFError as e:
            outcome, detail = "EOFError", repr(e)[:120]
            break
        except HarnessAbort as e:
            outcome, detail = "loops", str(e)
            break
        except Exception as e:
            outcome, detail = excname(e), repr(e)[:200]
            break
        got.append(d)
        if link_or_none is not None:
            maxfrag = max(maxfrag, link_or_none.n_recv_data - f0)
    return got, outcome, detail, maxfrag


def judge(pk, k, got, outcome, detail, closed, exact=True):
    """pk: packets sent; k: how many must be delivered before EOFError (exact) or at most (prefix oracle).
    returns [(how, what)]"""
    bad = []
    for i in range(min(len(got), k)):
        if got[i] != pk[i]:
            c = classify(got[i], pk, i)
            bad.append(("packet-" + c, "packet %d of %d (%d bytes) was received %s (%d bytes)" % (i, len(pk), len(pk[i]), c, len(got[i]))))
            return bad
    if len(got) > k:
        extra = got[k]
        if k < len(pk) and len(extra) < len(pk[k]) and pk[k].startswith(extra):
            bad.append(("short-packet-delivered", "packet %d was cut inside its frame yet recv() returned its first %d of %d bytes"
                        % (k, len(extra), len(pk[k]))))
        elif k < len(pk):
            bad.append(("no-eof", "packet %d was cut inside its frame yet recv() returned %d bytes (%s)" % (k, len(extra), classify(extra, pk, k))))
        else:
            bad.append(("no-eof", "recv() returned %d bytes after the last packet and the end of the stream" % len(extra)))
        return bad
    if outcome == "loops":
        bad.append(("reader-loops", detail))
    elif outcome != "EOFError":
        bad.append(("wrong-exception/%s" % outcome, "recv() raised %s instead of EOFError: %s" % (outcome, detail)))
    elif exact and len(got) < k:
        bad.append(("whole-packet-lost", "only %d of the %d packets whose frames were completely delivered were received before EOFError (%s)"
                    % (len(got), k, detail)))
    if not closed:
        bad.append(("stream-not-closed", "stream.closed is False after the transport ended or failed (outcome %s)" % outcome))
    return bad


def offset_class(c, ends):
    if not ends or c >= ends[-1]:
        return "end"
    i = bisect.bisect_right(ends, c)
    start = ends[i - 1] if i else 0
    rel = c - start
    if rel == 0:
        return "boundary"
    if rel < HDR:
        return "header"
    if c == ends[i] - 1:
        return "before-newline"
    if rel == HDR:
        return "after-header"
    return "payload"


def describe(plan, table):
    return (tuple(size_class(p[0], table) for p in plan["packets"]), tuple(p[1] for p in plan["packets"]),
            plan["cs"], plan["cr"])


def frag_class(plan):
    r = plan.get("recv") or ["all", 0, 0.0, 1]
    s = plan.get("send") or ["all", 0]
    return (r[0], r[2], s[0], plan.get("feed", "bulk"))


# ------------------------------------------------------------------------------------------------ scripted runs
def _streams():
    from rpyc.core.channel import Channel
    from rpyc.core.stream import SocketStream
    return Channel, SocketStream


def sender_pass(plan, link):
    """the real sending Channel writes every packet of the plan into the link. returns (pk, ends, calls_end, error)"""
    Channel, SocketStream = _streams()
    pk = [payload(*p) for p in plan["packets"]]
    ws = SocketStream(FragSocket(link, "w"))
    chw = Channel(ws, plan["cs"])
    ends, calls_end, err = [], [], None
    for i, p in enumerate(pk):
        try:
            chw.send(p)
        except HarnessAbort as e:
            err = (i, "loops", str(e))
            break
        except Exception as e:
            err = (i, excname(e), repr(e)[:200])
            break
        ends.append(len(link.buf))
        calls_end.append(link.n_send_calls)
    return pk, ends, calls_end, err, ws, chw


def add_edges(link, ends):
    start = link.splits[-1] if link.splits else 0
    for e in ends:
        if e <= start:
            continue
        pts = [start + j for j in range(1, HDR + 2)] + [start + 63999, start + 64000, start + 64001, e - 2, e - 1, e]
        for p in sorted(set(pts)):
            if start < p <= e and (not link.splits or p > link.splits[-1]):
                link.splits.append(p)
        start = e


def drive_frag(ctx, plan, table):
    """no fault: everything sent must be received, then EOFError at the clean end of the stream"""
    Channel, SocketStream = _streams()
    link = mk_link(plan)
    pk = [payload(*p) for p in plan["packets"]]
    rs = SocketStream(FragSocket(link, "r"))
    chr_ = Channel(rs, plan["cr"])
    ws = SocketStream(FragSocket(link, "w"))
    chw = Channel(ws, plan["cs"])
    state = {"next": 0, "err": None}
    ends = []

    def feed():
        i = state["next"]
        if i >= len(pk) or state["err"]:
            if not link.writer_closed:
                try:
                    chw.close()
                except Exception:
                    link.writer_closed = True
            return False
        state["next"] = i + 1
        try:
            chw.send(pk[i])
        except HarnessAbort as e:
            state["err"] = ("loops", str(e))
        except Exception as e:
            state["err"] = (excname(e), repr(e)[:200])
        if state["err"]:
            link.writer_closed = True
            return False
        ends.append(len(link.buf))
        add_edges(link, ends[-1:])
        return True

    if plan.get("feed", "bulk") == "bulk":
        while feed():
            pass
    else:
        link.feeder = feed
    got, outcome, detail, maxfrag = read_all(chr_, link, len(pk))
    wit = dict(plan=plan)
    if state["err"]:
        ctx.violation("C05/frag/send-raises/%s" % state["err"][0], "Channel.send raised on a healthy transport: %s" % state["err"][1], wit)
    else:
        for how, what in judge(pk, len(pk), got, outcome, detail, rs.closed):
            if how.startswith(("packet-", "whole-packet-lost", "no-eof", "short-packet", "wrong-exception", "reader-loops")):
                how = "sequence-differs/" + how
            ctx.violation("C05/frag/%s" % how, what, wit)
    account_link(ctx, link)
    ctx.maximum("fragments_per_packet", maxfrag)
    ctx.maximum("send_calls_per_sequence", link.n_send_calls)
    ctx.count("frag_sequences")
    ctx.count("packets_compared", len(got))
    ctx.case(("frag",) + describe(plan, table) + frag_class(plan), nontrivial=sum(len(p) for p in pk) > 0)
    return link


def capture(ctx, plan):
    """writer pass only; returns dict(stream, ends, calls_end, pk, send_offsets) or None after recording a violation"""
    link = mk_link(plan)
    pk, ends, calls_end, err, ws, chw = sender_pass(plan, link)
    if err:
        ctx.violation("C05/frag/send-raises/%s" % err[1], "Channel.send raised on a healthy transport: %s" % err[2], dict(plan=plan))
        return None
    ctx.count("partial_sends", link.n_partial_sends)
    return dict(stream=bytes(link.buf), ends=ends, calls_end=calls_end, pk=pk, send_offsets=list(link.send_offsets),
                n_calls=link.n_send_calls)


def drive_cut(ctx, plan, cap, c, kind, table):
    Channel, SocketStream = _streams()
    link = mk_link(plan, preload=cap["stream"], cut=c, cut_kind=kind)
    add_edges(link, cap["ends"])
    rs = SocketStream(FragSocket(link, "r"))
    chr_ = Channel(rs, plan["cr"])
    pk = cap["pk"]
    k = bisect.bisect_right(cap["ends"], c)
    got, outcome, detail, maxfrag = read_all(chr_, link, len(pk))
    oc = offset_class(c, cap["ends"])
    bad = judge(pk, k, got, outcome, detail, rs.closed)
    if not bad and outcome == "EOFError":
        # a closed stream stays closed: nothing may be delivered afterwards
        try:
            d = chr_.recv()
            bad.append(("recv-after-eof-returns", "recv() after the EOFError returned %d bytes" % len(d)))
        except Exception:
            pass
    for how, what in bad:
        ctx.violation("C05/cut/%s/%s/%s" % (how, kind, oc), "%s [stream cut by %s at a %s offset]" % (what, kind, oc),
                      dict(plan=dict(plan, kind="cut", cut=c, cut_kind=kind), delivered=len(got), expected=k, total=len(cap["stream"])))
    ctx.count("timeouts_injected", link.n_timeout)
    ctx.count("eagain_injected", link.n_eagain)
    ctx.count("ewouldblock_injected", link.n_ewouldblock)
    ctx.count("short_recvs", link.n_short_recv)
    ctx.count("cut_points_explored")
    ctx.count("cut_%s" % kind)
    ctx.count("cut_at_%s" % oc)
    ctx.maximum("fragments_per_packet", maxfrag)
    ctx.case(("cut",) + describe(plan, table) + frag_class(plan) + (kind, oc))


def drive_epipe(ctx, plan, cap, k, err_no, table):
    """the k-th send call fails: that Channel.send raises EOFError, the stream is closed, the reader sees whole packets"""
    Channel, SocketStream = _streams()
    link = mk_link(plan, fail_send_at=k, send_errno=err_no)
    pk = cap["pk"]
    ws = SocketStream(FragSocket(link, "w"))
    chw = Channel(ws, plan["cs"])
    j = bisect.bisect_right(cap["calls_end"], k)      # packet during which call k happens
    name = "EPIPE" if err_no == errno.EPIPE else "ECONNRESET"
    wit = dict(plan=dict(plan, kind="epipe", fail_at=k, send_err=name), failing_packet=j)
    failed, exc = None, None
    for i, p in enumerate(pk):
        try:
            chw.send(p)
        except EOFError:
            failed, exc = i, "EOFError"
            break
        except HarnessAbort as e:
            failed, exc = i, "loops"
            ctx.violation("C05/epipe/writer-loops", str(e), wit)
            break
        except Exception as e:
            failed, exc = i, excname(e)
            ctx.violation("C05/epipe/wrong-exception/%s" % exc, "Channel.send raised %s instead of EOFError when send failed with %s: %r"
                          % (exc, name, e), wit)
            break
    if failed is None:
        ctx.violation("C05/epipe/no-eof", "a send call failed with %s but no Channel.send raised" % name, wit)
    elif failed != j:
        ctx.violation("C05/epipe/eof-at-other-packet", "send call %d belongs to packet %d but Channel.send of packet %d raised" % (k, j, failed), wit)
    if not ws.closed:
        ctx.violation("C05/epipe/stream-not-closed", "writer's stream.closed is False after send failed with %s (outcome %s)" % (name, exc), wit)
    # the transport is gone: the reader must see exactly the packets that were completely written
    link.writer_closed = True
    rs = SocketStream(FragSocket(link, "r"))
    chr_ = Channel(rs, plan["cr"])
    got, outcome, detail, maxfrag = read_all(chr_, link, len(pk))
    if failed is not None and exc == "EOFError" and failed == j:
        for how, what in judge(pk, j, got, outcome, detail, rs.closed):
            ctx.violation("C05/epipe/reader/%s" % how, what + " [after the writer's send call failed]", wit)
    ctx.count("send_failures_injected")
    ctx.count("partial_sends", link.n_partial_sends)
    ctx.count("timeouts_injected", link.n_timeout)
    ctx.count("eagain_injected", link.n_eagain)
    ctx.count("ewouldblock_injected", link.n_ewouldblock)
    part = "first-call" if (k == (cap["calls_end"][j - 1] if j else 0)) else ("last-call" if k == cap["calls_end"][j] - 1 else "middle-call")
    ctx.case(("epipe",) + describe(plan, table) + frag_class(plan) + (name, part))


# ------------------------------------------------------------------------------------------------ kernel transports
class TapSock(object):
    """monitor around a real socket: counts what the kernel reported, changes nothing"""

    def __init__(self, sock):
        self.sock = sock
        self.timeouts = self.eagain = self.recvs = self.short = 0

    def recv(self, n, *a):
        try:
            d = self.sock.recv(n, *a)
        except socket.timeout:
            self.timeouts += 1
            raise
        except BlockingIOError:
            self.eagain += 1
            raise
        self.recvs += 1
        if 0 < len(d) < n:
            self.short += 1
        return d

    def __getattr__(self, name):
        return getattr(self.sock, name)


def _shrink_pipe(fd, size):
    try:
        import fcntl
        fcntl.fcntl(fd, getattr(fcntl, "F_SETPIPE_SZ", 1031), size)
        return True
    except Exception:
        return False


def make_transport(plan):
    """returns (writer stream, reader stream, tap or None, raw writer handle)"""
    from rpyc.core.stream import SocketStream, PipeStream
    t = plan["transport"]
    if t == "pipe":
        a, b = PipeStream.create_pair()
        if plan.get("pipe_size"):
            _shrink_pipe(a.outgoing.fileno(), plan["pipe_size"])
            _shrink_pipe(b.outgoing.fileno(), plan["pipe_size"])
        return a, b, None, a.outgoing.fileno()
    if t == "sockpair":
        s1, s2 = socket.socketpair()
    else:
        lst = socket.socket(socket.AF_INET, socket.SOCK_STREAM)
        try:
            lst.bind(("127.0.0.1", 0))
            lst.listen(1)
            s1 = socket.socket(socket.AF_INET, socket.SOCK_STREAM)
            s1.settimeout(10)
            s1.connect(lst.getsockname())
            lst.settimeout(10)
            s2, _ = lst.accept()
            s1.settimeout(None)
        finally:
            lst.close()
    for s in (s1, s2):
        s.setsockopt(socket.SOL_SOCKET, socket.SO_SNDBUF, 4096)
        if t == "sockpair":   # a 4 KiB TCP receive window stalls loopback on delayed ACKs (3 s per 200 KB)
            s.setsockopt(socket.SOL_SOCKET, socket.SO_RCVBUF, 4096)
    mode = plan.get("reader_mode", "blocking")
    if mode == "timeout":
        s2.settimeout(0.0005)
    elif mode == "nonblock":
        s2.setblocking(False)
    tap = TapSock(s2)
    return SocketStream(s1), SocketStream(tap), tap, s1


def drive_real(ctx, plan, table, wait):
    """returns False when a watchdog fired (the caller stops using kernel transports in this run)"""
    from rpyc.core.channel import Channel
    t = plan["transport"]
    pk = [payload(*p) for p in plan["packets"]]
    trunc = plan.get("trunc")            # [size, kind, seed, nbytes] -> first nbytes of one more frame, then close
    stop_after = plan.get("reader_stops_after")
    try:
        ws, rs, tap, raw = make_transport(plan)
    except Exception as e:
        ctx.count("transport_unavailable_%s" % t)
        ctx.count("transport_unavailable_detail_%s" % type(e).__name__)
        return True
    chw, chr_ = Channel(ws, plan["cs"]), Channel(rs, plan["cr"])
    pk_all = pk + [payload(*trunc[:3])] if trunc else pk     # the truncated packet must never be delivered
    W = dict(sent=0, exc=None, done=False)
    R = dict(got=[], outcome=None, detail=None, done=False, closed=None)
    pace = random.Random("pace/%s" % plan.get("pace", 0))
    wpause = [pace.random() < .15 for _ in range(len(pk) + 1)]
    rpause = [pace.random() < .3 for _ in range(len(pk) + 2)]

    def writer():
        try:
            for i, p in enumerate(pk):
                if wpause[i]:
                    time.sleep(0.002)
                chw.send(p)
                W["sent"] += 1
            if trunc:
                part = rc.frame(payload(*trunc[:3]), compress=False)[:trunc[3]]
                if t == "pipe":
                    mv = memoryview(part)
                    while mv:
                        mv = mv[os.write(raw, mv[:65536]):]
                else:
                    raw.sendall(part)
            if plan.get("close") == "rst":
                raw.setsockopt(socket.SOL_SOCKET, socket.SO_LINGER, struct.pack("ii", 1, 0))
                raw.close()
        except EOFError as e:
            W["exc"] = ("EOFError", repr(e)[:120])
        except BaseException as e:
            W["exc"] = (excname(e), repr(e)[:200])
        finally:
            W["closed"] = ws.closed
            try:
                ws.close()
            except Exception:
                pass
            W["done"] = True

    def reader():
        try:
            n = len(pk) + 1 if stop_after is None else stop_after
            for i in range(n):
                if rpause[i]:
                    time.sleep(0.001)
                try:
                    R["got"].append(chr_.recv())
                except EOFError as e:
                    R["outcome"], R["detail"] = "EOFError", repr(e)[:120]
                    break
                except BaseException as e:
                    R["outcome"], R["detail"] = excname(e), repr(e)[:200]
                    break
            R["closed"] = rs.closed
        finally:
            try:
                rs.close()
            except Exception:
                pass
            R["done"] = True

    tw = threading.Thread(target=writer, daemon=True, name="c05-writer")
    tr = threading.Thread(target=reader, daemon=True, name="c05-reader")
    tr.start()
    tw.start()
    deadline = time.time() + wait
    tw.join(wait)
    tr.join(max(0.5, deadline - time.time()) if tw.is_alive() else wait)
    wit = dict(plan=plan)
    pre = "C05/%s" % ("pipe" if t == "pipe" else "socket")
    total = sum(len(p) for p in pk)
    desc = ("real", t, plan.get("reader_mode", "-"), plan.get("pipe_size"), plan.get("close", "close"),
            "trunc:%s" % offset_class(trunc[3], [len(payload(*trunc[:3])) + 6]) if trunc else "clean",
            "reader-stops" if stop_after is not None else "reads-all") + describe(plan, table)
    if tr.is_alive() or tw.is_alive():
        if not tw.is_alive() and W["exc"] is None:
            ctx.violation(pre + "/reader-stuck-after-writer-closed",
                          "the writer wrote every byte and closed %.0f s ago, the reader received %d of %d packets and is still inside recv()"
                          % (wait, len(R["got"]), len(pk)), wit)
        else:
            ctx.inconclusive("kernel transport run (%s) missed its %ds watchdog: writer alive=%s (%r), reader alive=%s"
                             % (t, wait, tw.is_alive(), W["exc"], tr.is_alive()))
        ctx.case(desc)
        return False
    if tap is not None:
        ctx.count("real_socket_timeouts_seen", tap.timeouts)
        ctx.count("real_socket_eagain_seen", tap.eagain)
        ctx.count("real_socket_short_recvs", tap.short)
    ctx.count("real_%s_runs" % t)
    ctx.count("real_bytes_sent", total)
    if stop_after is not None:
        # reader went away under a writer that still had (much) more to write than the kernel can buffer
        for i, d in enumerate(R["got"]):
            if d != pk[i]:
                ctx.violation(pre + "/packet-" + classify(d, pk, i), "packet %d received %s over %s" % (i, classify(d, pk, i), t), wit)
                break
        if R["outcome"] is not None:
            ctx.violation(pre + "/reader-raised/%s" % R["outcome"], "recv() raised %s on a healthy %s: %s" % (R["outcome"], t, R["detail"]), wit)
        if W["exc"] is None:
            ctx.count("writer_not_blocked_when_reader_left")
            ctx.case(desc, nontrivial=False)
            return True
        if W["exc"][0] != "EOFError":
            ctx.violation(pre + "/writer-wrong-exception/%s" % W["exc"][0], "Channel.send raised %s instead of EOFError after the reader closed: %s"
                          % W["exc"], wit)
        if not W.get("closed"):
            ctx.violation(pre + "/writer-stream-not-closed", "writer's stream.closed is False after its write failed (%s)" % W["exc"][0], wit)
        ctx.count("real_writer_failures_seen")
        ctx.case(desc)
        return True
    if W["exc"] is not None and plan.get("close") != "rst":
        if R["outcome"] in (None, "EOFError") and R["got"] == pk[:len(R["got"])] and len(R["got"]) == len(pk):
            ctx.violation(pre + "/writer-raised/%s" % W["exc"][0], "Channel.send raised %s on a healthy %s: %s" % (W["exc"][0], t, W["exc"][1]), wit)
        else:
            # the reader failed first (judged below) and closed its end, which is what broke the writer
            ctx.count("writer_failed_after_reader_gave_up")
    exact = plan.get("close") != "rst"
    for how, what in judge(pk_all, len(pk), R["got"], R["outcome"], R["detail"], bool(R["closed"]), exact=exact):
        ctx.violation("%s/%s" % (pre, how), "%s [%s, %s, %s]" % (what, t, desc[5], plan.get("close", "close")), wit)
    ctx.count("packets_compared", len(R["got"]))
    if trunc:
        ctx.count("real_truncated_frames")
    ctx.case(desc, nontrivial=total > 0 or bool(trunc))
    return True


# ------------------------------------------------------------------------------------------------ generators
def gen_packets(rng, table_small, table_large, max_total, allow_big=False, zc=None):
    n = rng.randint(1, 6)
    out, total = [], 0
    for _ in range(n):
        x = rng.random()
        if allow_big and x < .08:
            size = MiB + rng.choice((0, 0, 1, -1, 777))
        elif x < .5:
            size = rng.choice(table_small)
        elif x < .85:
            size = rng.choice(table_large)
        elif x < .93:
            size = rng.randrange(3, 400)
        else:
            size = max(0, rng.choice(table_small + table_large) + rng.randrange(-7, 8))
        if total + size > max_total and out:
            size = rng.choice(table_small)
        kind = rng.choice(("rnd", "rnd", "rep", "rep", "nl", "hdr"))
        out.append([size, kind, rng.randrange(1000)])
        total += size
    if zc and rng.random() < .25:
        out[rng.randrange(len(out))] = list(rng.choice(zc))
    return out


def gen_recv(rng, total):
    if total <= 20000:
        mode = rng.choice(("one", "two", "m1", "rand", "all", "edge", "chunky", "rand"))
    elif total <= 140000:
        mode = rng.choice(("m1", "rand", "all", "edge", "chunky", "rand", "one") if rng.random() < .12 else ("m1", "rand", "all", "edge", "chunky", "rand"))
    else:
        mode = rng.choice(("m1", "rand", "all", "edge", "chunky"))
    tprob = rng.choice((0.0, 0.3, 0.3, 0.8))
    return [mode, rng.randrange(10 ** 6), tprob, rng.choice((1, 2, 4))]


def gen_send(rng, total):
    if total <= 6000:
        mode = rng.choice(("one", "two", "half", "m1", "rand", "all"))
    else:
        mode = rng.choice(("half", "m1", "rand", "all", "chunky"))
    return [mode, rng.randrange(10 ** 6)]


def gen_short_packets(rng):
    """sequence whose frames total <= 300 bytes"""
    while True:
        n = rng.randint(1, 5)
        pk = [[rng.choice((0, 0, 1, 1, 2, 3, rng.randrange(4, 60), rng.randrange(4, 120))), rng.choice(KINDS), rng.randrange(1000)]
              for _ in range(n)]
        if sum(p[0] + 6 for p in pk) <= 300:
            return pk


def sizes_table():
    """the published boundary sizes, plus the same boundaries recomputed from the tree's constants if they moved"""
    from rpyc.core.channel import Channel
    from rpyc.core.stream import SocketStream
    T, C = Channel.COMPRESSION_THRESHOLD, SocketStream.MAX_IO_CHUNK
    small = sorted(set(SMALL + [T - 1, T, T + 1]))
    large = sorted(set(LARGE + [C - HDR - 2, C - HDR - 1, C - HDR, C, C + 1, 2 * C - 1, 2 * C, 2 * C + 1]))
    return small, large


# ------------------------------------------------------------------------------------------------ driver
def interrupted_pipe_writes(ctx):
    """a write to a blocking pipe may return SHORT: when a signal with a Python-level handler arrives while the writer is blocked
    with part of the chunk already in the pipe, os.write() reports the bytes written so far (PEP 475 retries only when nothing was
    written). Packets larger than the pipe, a slow reader, an interval timer firing every millisecond: every packet must still
    arrive whole, in order, unaltered. Runs in the main thread (signals are delivered there); the timer is removed afterwards."""
    import os
    import signal
    import threading
    from rpyc.core.channel import Channel
    from rpyc.core.stream import PipeStream
    if threading.current_thread() is not threading.main_thread():
        ctx.count("interrupted_pipe_writes_skipped_not_main_thread")
        return
    a, b = PipeStream.create_pair()
    for fd in (a.outgoing.fileno(),):
        _shrink_pipe(fd, 4096)
    tx, rx = Channel(a, compress=False), Channel(b, compress=False)
    sizes = [64000, 200000, 5, 131071, 70000, 1]
    packets = [payload(n, "rnd", 100 + i) for i, n in enumerate(sizes)]
    got, err = [], []

    def reader():
        import time
        try:
            for _ in packets:
                time.sleep(0.01)            # a slow reader keeps the writer blocked inside its chunks
                got.append(rx.recv())
        except BaseException as e:
            err.append(e)
    th = threading.Thread(target=reader, daemon=True, name="rv-pipe-reader")
    short = []
    orig_write = os.write

    def counting_write(fd, data):
        n = orig_write(fd, data)
        if n < len(data):
            short.append((len(data), n))
        return n
    ticks = []
    old_handler = signal.signal(signal.SIGALRM, lambda signum, frame: ticks.append(1))
    os.write = counting_write
    wit = dict(family="interrupted-pipe-writes", sizes=sizes)
    try:
        th.start()
        signal.setitimer(signal.ITIMER_REAL, 0.001, 0.001)
        try:
            for p in packets:
                tx.send(p)
        finally:
            signal.setitimer(signal.ITIMER_REAL, 0, 0)
        th.join(30)
    except BaseException as e:
        err.append(e)
    finally:
        signal.setitimer(signal.ITIMER_REAL, 0, 0)
        signal.signal(signal.SIGALRM, old_handler)
        os.write = orig_write
        for c in (tx, rx):
            try:
                c.close()
            except Exception:
                pass
        th.join(5)
    ctx.case(("interrupted-pipe-writes", len(short) > 0), nontrivial=True)
    ctx.count("pipe_writes_that_returned_short", len(short))
    ctx.count("timer_signals_during_pipe_writes", len(ticks))
    if not short:
        ctx.count("interrupted_pipe_writes_without_a_short_write")      # the kernel did not cooperate this time: nothing to judge
        return
    if got != packets or err:
        i = next((k for k, (x, y) in enumerate(zip(got, packets)) if x != y), len(got))
        ctx.violation("C05/pipes/short-write/sequence-differs", "%d writes to the pipe returned short (e.g. %r); the receiver got %d of %d packets, the first wrong one is "
                      "number %d%s" % (len(short), short[0], len(got), len(packets), i, ("; " + repr(err[0])[:120]) if err else ""), wit)


def several_channels_at_once(ctx):
    """Several channels in ONE process, each with its own writer and reader thread (what the connection threads of a threaded
    server are): every channel must deliver exactly its own sequence. Nothing the channels have in common (class attributes,
    module state) may carry one channel's frame into another's. The threads are made to interleave INSIDE Channel.send / recv by
    suspension injected at the source lines of those two functions (sys.monitoring LINE -> give up the GIL): only suspension, no
    state is touched, so every interleaving produced is one the OS could produce."""
    import random
    import socket
    import sys
    import threading
    from rpyc.core.channel import Channel
    from rpyc.core.stream import SocketStream
    mon = getattr(sys, "monitoring", None)
    tool = None
    if mon is not None:
        for tid in (4, 3, 5, 2):
            try:
                mon.use_tool_id(tid, "rv-c05-yield")
                tool = tid
                break
            except ValueError:
                continue
    inj = [0]
    irng = random.Random(ctx.seed)

    def on_line(code, line):
        if irng.random() < 0.5:
            inj[0] += 1
            time.sleep(0)
    codes = [Channel.send.__code__, Channel.recv.__code__]
    if tool is not None:
        mon.register_callback(tool, mon.events.LINE, on_line)
        for c in codes:
            mon.set_local_events(tool, c, mon.events.LINE)
    old_si = sys.getswitchinterval()
    sys.setswitchinterval(1e-5)
    nchan, npk = 4, (150 if ctx.quick else 1500)
    rng = random.Random(ctx.seed * 7 + 1)
    plans, chans, got, errs = [], [], [], []
    try:
        for c in range(nchan):
            s1, s2 = socket.socketpair()
            compress = (c % 2 == 0)
            chans.append((Channel(SocketStream(s1), compress=compress), Channel(SocketStream(s2), compress=compress)))
            # sizes that give different headers: tiny, around the compression threshold, a few thousand bytes; compressible or not
            seq = []
            for k in range(npk):
                n = rng.choice([0, 1, 7, 10, 100, 2999, 3000, 3001, 5000, 9000])
                seq.append(payload(n, rng.choice(("rnd", "rep")), rng.randrange(1000)))
            plans.append(seq)
            got.append([])
            errs.append([])

        def writer(c):
            try:
                for p in plans[c]:
                    chans[c][0].send(p)
            except Exception as e:
                errs[c].append("writer: %s" % excname(e))

        def reader(c):
            try:
                for _ in plans[c]:
                    if not chans[c][1].poll(20):
                        errs[c].append("reader: nothing arrived within 20 s")
                        return
                    got[c].append(chans[c][1].recv())
            except Exception as e:
                errs[c].append("reader: %s" % excname(e))
        ths = [threading.Thread(target=f, args=(c,), daemon=True, name="c05-multi-%s%d" % (f.__name__, c)) for c in range(nchan) for f in (writer, reader)]
        for t in ths:
            t.start()
        deadline = time.time() + 120
        for t in ths:
            t.join(max(0.1, deadline - time.time()))
        stuck = [t.name for t in ths if t.is_alive()]
    finally:
        sys.setswitchinterval(old_si)
        if tool is not None:
            for c in codes:
                mon.set_local_events(tool, c, 0)
            mon.register_callback(tool, mon.events.LINE, None)
            mon.free_tool_id(tool)
        for a, b in chans:
            for x in (a, b):
                try:
                    x.close()
                except Exception:
                    pass
    ctx.count("concurrent_channel_suspensions_injected", inj[0])
    wit = dict(family="several-channels-at-once", channels=nchan, packets_per_channel=npk, seed=ctx.seed)
    bad = False
    for c in range(nchan):
        if got[c] != plans[c] or errs[c]:
            bad = True
            i = next((k for k, (x, y) in enumerate(zip(got[c], plans[c])) if x != y), len(got[c]))
            ctx.violation("C05/several-channels/sequence-differs", "with %d channels used by their own threads at the same time, channel %d received %d of %d packets; "
                          "the first wrong one is number %d; %r" % (nchan, c, len(got[c]), len(plans[c]), i, errs[c][:2]), dict(wit, channel=c))
            break
    if stuck and not bad:
        ctx.inconclusive("several-channels scenario: threads %r still running after 120 s" % (stuck,))
    ctx.count("concurrent_channel_packets", sum(len(g) for g in got))
    ctx.case(("several-channels", nchan), nontrivial=True)


def closed_stays_closed(ctx):
    """'a transport that ends yields EOFError at the reader or writer and a closed stream' - and stays that way: a channel that
    was closed must not come back to life when the process opens new descriptors (which get the numbers just released), and a
    late user of the dead channel must not reach into an innocent second channel."""
    import os
    import socket
    from rpyc.core.channel import Channel
    from rpyc.core.stream import PipeStream, SocketStream
    for kind in ("pipes", "socketpair"):
        for late_op in ("send", "recv", "poll-then-recv"):
            def pair():
                if kind == "pipes":
                    a, b = PipeStream.create_pair()
                else:
                    s1, s2 = socket.socketpair()
                    a, b = SocketStream(s1), SocketStream(s2)
                return Channel(a), Channel(b)
            a1, a2 = pair()
            wit = dict(family="closed-stays-closed", transport=kind, late_operation=late_op)
            try:
                a1.send(b"first")
                if a2.recv() != b"first":
                    ctx.violation("C05/closed/%s/warm-up" % kind, "warm-up packet altered", wit)
                a1.close()
                a2.close()
                # the process goes on and opens a replacement channel: the kernel hands out the lowest free numbers
                b1, b2 = pair()
                try:
                    b2.send(b"reply-0")
                    outcome = None
                    try:
                        if late_op == "send":
                            a1.send(b"late packet of a dead channel")
                            outcome = "send succeeded"
                        elif late_op == "recv":
                            outcome = "recv returned %r" % (a1.recv(),)
                        else:
                            outcome = "poll returned %r" % (a1.poll(0),)
                            outcome += ", recv returned %r" % (a1.recv(),)
                    except EOFError:
                        ctx.count("late_operations_refused_with_EOFError")
                    except Exception as e:
                        # poll() on a closed stream may report the closed descriptor in its own way; the data operations may not
                        if not (late_op == "poll-then-recv" and outcome is None):
                            outcome = "%s raised %s" % (late_op, type(e).__name__)
                    if outcome is not None and not outcome.startswith("poll returned False, recv") and "raised" not in outcome:
                        ctx.violation("C05/closed/%s/usable-after-close" % kind, "a %s on a channel that had been closed did not fail with EOFError: %s" % (late_op, outcome), wit)
                    elif outcome is not None and "raised" in outcome:
                        ctx.violation("C05/closed/%s/wrong-exception" % kind, "a %s on a closed channel: %s, not EOFError" % (late_op, outcome), wit)
                    if not a1.closed:
                        ctx.violation("C05/closed/%s/not-closed" % kind, "the closed channel does not report closed", wit)
                    # the innocent channel: exactly its own packets, in order, nothing else
                    b1.send(b"request-1")
                    got2 = b2.recv() if b2.poll(2) else None
                    got1 = b1.recv() if b1.poll(2) else None
                    extra1 = b1.recv() if b1.poll(0) else None
                    extra2 = b2.recv() if b2.poll(0) else None
                    if (got1, got2, extra1, extra2) != (b"reply-0", b"request-1", None, None):
                        ctx.violation("C05/closed/%s/other-channel-disturbed" % kind, "after a late %s on a dead channel a second, unrelated channel received %r / %r "
                                      "(+ %r / %r) instead of exactly its own two packets" % (late_op, got1, got2, extra1, extra2), wit)
                    ctx.case(("closed-stays-closed", kind, late_op), nontrivial=True)
                    ctx.count("closed_channel_probes")
                finally:
                    b1.close()
                    b2.close()
            except Exception as e:
                ctx.violation("C05/closed/%s/aborted/%s" % (kind, type(e).__name__), "closed-stays-closed scenario aborted: %r" % (e,), wit)


def run(ctx):
    rng = ctx.rng
    first = ctx.shard[0] == 0
    if first:
        closed_stays_closed(ctx)
        interrupted_pipe_writes(ctx)
        several_channels_at_once(ctx)
    small, large = sizes_table()
    table = set(small + large)
    zc = []
    for target in (63993, 63994, 63995):
        n = size_for_compressed(target, 7)
        if n:
            zc.append([n, "rnd", 7])
            table.add(n)
    ctx.extra["sizes"] = sorted(table) + [MiB]

    t_sec = time.time()
    # ---- 1. no fault: sequences over the scripted socket ------------------------------------------------
    plans = []
    if first:
        # every boundary size, each compression combination, both payload kinds that matter for compression
        combos = [(True, True), (True, False), (False, True), (False, False)]
        for i, size in enumerate(small + large + [z[0] for z in zc]):
            for j, (cs, cr) in enumerate(combos):
                kind = ("rnd", "rep")[(i + j) % 2] if [size, "rnd", 7] not in zc else "rnd"
                seed = 7 if [size, "rnd", 7] in zc else i
                pks = [[size, kind, seed]] + ([[small[(i + j) % len(small)], "rep", j]] if j % 2 else [])
                mode = ("edge", "rand", "all", "m1")[(i + j) % 4]
                plans.append(dict(kind="frag", packets=pks, cs=cs, cr=cr, recv=[mode, i * 4 + j, (0.3, 0.0)[j % 2], 2],
                                  send=[("all", "rand", "half", "m1")[(i + 2 * j) % 4], i], feed=("bulk", "lazy")[(i + j) % 2]))
        plans.append(dict(kind="frag", packets=[[MiB, "rnd", 1], [0, "rep", 0], [MiB + 1, "rep", 2]], cs=True, cr=False,
                          recv=["rand", 5, 0.3, 2], send=["rand", 5], feed="lazy"))
    n_frag = ctx.budget(900, 240000)
    for i in range(n_frag):
        pks = gen_packets(rng, small, large, 420000 if ctx.quick else 2200000, allow_big=not ctx.quick, zc=zc)
        total = sum(p[0] for p in pks)
        plans.append(dict(kind="frag", packets=pks, cs=rng.random() < .5, cr=rng.random() < .5, recv=gen_recv(rng, total),
                          send=gen_send(rng, total), feed=rng.choice(("bulk", "lazy"))))
    for i, plan in enumerate(plans):
        link = drive_frag(ctx, plan, table)
        if i in (3, len(plans) - 1):
            ctx.sample(dict(scenario="no fault", plan=plan, recv_calls=link.n_recv_calls, send_calls=link.n_send_calls,
                            transient=link.n_timeout + link.n_eagain + link.n_ewouldblock))
        if ctx.enough():
            return

    ctx.maximum("seconds_frag", round(time.time() - t_sec, 1))
    t_sec = time.time()
    # ---- 2. cut at EVERY byte offset of short sequences ---------------------------------------------------
    n_short = ctx.budget(220, 90000)
    for i in range(n_short):
        pks = gen_short_packets(rng)
        plan = dict(kind="cut", packets=pks, cs=rng.random() < .5, cr=rng.random() < .5,
                    send=[rng.choice(("all", "one", "rand")), rng.randrange(10 ** 6)])
        cap = capture(ctx, plan)
        if cap is None:
            continue
        total = len(cap["stream"])
        for kind in ("eof", "reset"):
            mode = rng.choice(("one", "all", "rand", "edge", "two", "m1"))
            tprob = rng.choice((0.0, 0.3, 0.8))
            for c in range(total + 1):
                p = dict(plan, recv=[mode, rng.randrange(10 ** 6), tprob, 2])
                drive_cut(ctx, p, cap, c, kind, table)
        ctx.count("short_sequences_cut_at_every_offset")
        if i == 0:
            ctx.sample(dict(scenario="cut at every offset 0..%d, EOF and reset" % total, plan=plan))
        if ctx.enough():
            return

    ctx.maximum("seconds_cut_short", round(time.time() - t_sec, 1))
    t_sec = time.time()
    # ---- 3. long sequences: cut at every write/frame boundary (+-1, header bytes) and sampled offsets -------
    n_long = ctx.budget(110, 12000)
    n_sampled = 40 if ctx.quick else 2000
    for i in range(n_long):
        pks = gen_packets(rng, small, large, 300000, zc=zc)
        if max(p[0] for p in pks) < 2999:
            pks[rng.randrange(len(pks))][0] = rng.choice(large + small[4:])
        total = sum(p[0] for p in pks)
        plan = dict(kind="cut", packets=pks, cs=rng.random() < .6, cr=rng.random() < .5, send=gen_send(rng, total))
        cap = capture(ctx, plan)
        if cap is None:
            continue
        n = len(cap["stream"])
        so = cap["send_offsets"]
        if len(so) > 120:
            so = rng.sample(so, 120)
        pts = set()
        for o in so:
            pts.update((o - 1, o, o + 1))
        start = 0
        for e in cap["ends"]:
            pts.update(range(start, min(e, start + HDR + 2) + 1))
            pts.update((e - 2, e - 1, e))
            start = e
        budget = n_sampled if i < 3 or not ctx.quick else n_sampled // 4
        pts.update(rng.randrange(n + 1) for _ in range(budget))
        pts = sorted(p for p in pts if 0 <= p <= n)
        for c in pts:
            kind = rng.choice(("eof", "reset"))
            mode = rng.choice(("all", "rand", "edge", "m1", "chunky"))
            p = dict(plan, recv=[mode, rng.randrange(10 ** 6), rng.choice((0.0, 0.3, 0.8)), 2])
            drive_cut(ctx, p, cap, c, kind, table)
        ctx.count("long_sequences_cut")
        ctx.maximum("cut_points_in_one_long_sequence", len(pts))
        if ctx.enough():
            return

    ctx.maximum("seconds_cut_long", round(time.time() - t_sec, 1))
    t_sec = time.time()
    # ---- 4. send failing at every send call --------------------------------------------------------------
    n_ep = ctx.budget(200, 80000)
    for i in range(n_ep):
        if i % 3 == 2:
            pks = gen_packets(rng, small, large, 300000, zc=zc)
            total = sum(p[0] for p in pks)
            send = [rng.choice(("all", "half", "m1", "chunky") if total > 6000 else ("one", "rand", "two", "all")), rng.randrange(10 ** 6)]
        else:
            pks = gen_short_packets(rng)
            total = sum(p[0] for p in pks)
            send = [rng.choice(("one", "two", "rand", "all", "half")), rng.randrange(10 ** 6)]
        plan = dict(kind="epipe", packets=pks, cs=rng.random() < .5, cr=rng.random() < .5, send=send, recv=gen_recv(rng, total))
        cap = capture(ctx, plan)
        if cap is None:
            continue
        calls = list(range(cap["n_calls"]))
        if len(calls) > 400:
            calls = sorted(set(calls[:40] + calls[-40:] + rng.sample(calls, 200)))
        for k in calls:
            drive_epipe(ctx, plan, cap, k, errno.EPIPE if (k + i) % 4 else errno.ECONNRESET, table)
        ctx.maximum("send_calls_failed_in_one_sequence", len(calls))
        if i == 0:
            ctx.sample(dict(scenario="send fails at each of %d calls" % len(calls), plan=plan))
        if ctx.enough():
            return

    ctx.maximum("seconds_epipe", round(time.time() - t_sec, 1))
    t_sec = time.time()
    # ---- 5. kernel transports -------------------------------------------------------------------------------
    big = 200000 if ctx.quick else MiB
    wait = 40 if ctx.quick else 120
    n_real = ctx.budget(500, 64000)
    t_real = time.time()
    for i in range(n_real):
        t = ("pipe", "sockpair", "pipe", "sockpair", "tcp")[i % 5]
        n = rng.randint(1, 5)
        pks = []
        for _ in range(n):
            x = rng.random()
            size = rng.choice(small) if x < .4 else (rng.choice(large) if x < .75 else (big + rng.randrange(-1, 2) if x < .9 else rng.randrange(3, 30000)))
            pks.append([size, rng.choice(("rnd", "rnd", "rep", "nl", "hdr")), rng.randrange(1000)])
        if i < 5:
            pks[0][0] = big
        plan = dict(kind="real", transport=t, packets=pks, cs=rng.random() < .5, cr=rng.random() < .5, pace=rng.randrange(10 ** 6))
        if t == "pipe":
            plan["pipe_size"] = rng.choice((4096, 4096, None))
        else:
            plan["reader_mode"] = ("blocking", "timeout", "nonblock")[(i // 5 + i % 5) % 3]
        scenario = i % 4
        if scenario == 1 or scenario == 3:
            tsize = rng.choice((0, 1, 50, 3001, 64001, big))
            flen = tsize + 6
            cls = rng.choice(("header", "after-header", "payload", "before-newline"))
            nb = {"header": rng.randint(1, 4), "after-header": 5, "before-newline": flen - 1}.get(cls) or rng.randint(5, flen - 1)
            plan["trunc"] = [tsize, rng.choice(("rnd", "nl", "hdr")), rng.randrange(1000), nb]
        elif scenario == 2 and i % 8 == 2:
            plan["reader_stops_after"] = rng.randint(0, len(pks))
            plan["packets"] = pks + [[big, "rnd", 1], [big, "rnd", 2]]
        if t == "tcp" and i % 2:
            plan["close"] = "rst"
        if not drive_real(ctx, plan, table, wait):
            break
        if i == 1:
            ctx.sample(dict(scenario="kernel transport", plan=plan))
        if ctx.enough():
            return
        if ctx.quick and time.time() - t_real > 12:
            ctx.count("real_runs_skipped_for_time", n_real - i - 1)
            break

    ctx.maximum("seconds_kernel", round(time.time() - t_sec, 1))
    c = ctx.counters
    if not c["cut_points_explored"]:
        ctx.inconclusive("no cut point was explored")
    if not (c["timeouts_injected"] and c["eagain_injected"] and c["ewouldblock_injected"]):
        ctx.inconclusive("a kind of transient condition was never injected")
    if not c["partial_sends"]:
        ctx.inconclusive("no partial send was scripted")
    if not c["send_failures_injected"]:
        ctx.inconclusive("no send failure was injected")
    if not (c["real_pipe_runs"] and c["real_sockpair_runs"]):
        ctx.inconclusive("kernel transports (pipe, socketpair) were not exercised")
    if c["real_sockpair_runs"] and not c["real_socket_short_recvs"]:
        ctx.inconclusive("the kernel never fragmented a read on the real sockets")
    if c["real_sockpair_runs"] >= 20 and not (c["real_socket_timeouts_seen"] and c["real_socket_eagain_seen"]):
        ctx.inconclusive("the real sockets never reported a timeout / would-block condition to the reader")


def replay(ctx, w):
    plan = w["witness"]["plan"]
    small, large = sizes_table()
    table = set(small + large)
    kind = plan.get("kind")
    if kind == "frag":
        drive_frag(ctx, plan, table)
    elif kind == "cut":
        cap = capture(ctx, plan)
        if cap is not None:
            drive_cut(ctx, plan, cap, plan["cut"], plan["cut_kind"], table)
    elif kind == "epipe":
        cap = capture(ctx, plan)
        if cap is not None:
            drive_epipe(ctx, plan, cap, plan["fail_at"], errno.EPIPE if plan["send_err"] == "EPIPE" else errno.ECONNRESET, table)
    elif kind == "real":
        for _ in range(5):     # the kernel's schedule is not ours to replay: a few attempts
            drive_real(ctx, plan, table, 40)
            if ctx.violations:
                break

"""C02 - operating on a proxy is indistinguishable from operating on the target.

Lock-step differential monitor: the target lives on peer B (served by the real serve_all in a thread), a deep-copied
twin lives in the harness; every generated step is applied to the netref and to the twin; compared after every step:
the result (immutable -> == and type; reference -> referent by value), the exception class, and a snapshot of the
target's state vs. the twin's (also after failed steps).
"""
import collections
import copy
import operator
import io
import os
import shutil
import tempfile

from rv import gen, refcodec as rc, vnet

PROPERTY = "C02"
LEVEL = "exploration"
RULE = ("seeded operation sequences (1-40 steps) over list, dict, set, bytearray, deque, iterators/generators, a real temp "
        "file and a user class with operator overloads / properties / __call__ / context manager / metaclass method; ops: "
        "attribute get/set/del, method calls, binary / unary / in-place / reflected operators with immutable operands, "
        "comparisons, index and slice get/set/del, iter/next, buffiter(chunk 1-12, factor in {1,2,3.5}, max_chunk 1-20) over "
        "lengths 0-50, len/str/repr/hash/bool/dir, isinstance and __class__, with-blocks; configurations: classic, "
        "allow_public_attrs, default (only the operations it permits). distinct = (kind, config, sequence of op names); "
        "non-trivial = at least 3 steps")
ASSUMPTIONS = ["operands are immutable values or objects living on the target's side (the statement's scope): e.g. `[1] + proxy` "
               "with a harness-local list and with-bodies raising a local exception are not generated",
               "results that are references are compared by referent (contents / repr / class name), never by identity",
               "hash() is compared with hash(target) read directly in process (a deep-copied twin has another identity hash)"]
SHARDS = {"quick": 1, "thorough": 16}
MIN_DISTINCT = {"quick": 300, "thorough": 20000}

CONFIGS = {
    "classic": dict(allow_all_attrs=True, allow_getattr=True, allow_setattr=True, allow_delattr=True, allow_pickle=True,
                    allow_exposed_attrs=False),      # what SlaveService.on_connect sets
    "public": dict(allow_public_attrs=True, allow_setattr=True, allow_delattr=True),
    "default": {},
}


class Meta(type):
    def describe(cls):
        return "class:" + cls.__name__

    # special methods of the metaclass (as Enum classes have): looked up on the proxy's type, so they must be discovered
    def __len__(cls):
        return 3

    def __getitem__(cls, k):
        return ("member", k)

    def __contains__(cls, k):
        return k == "m"

    # classes ranked through their metaclass (Low < High style); the classes themselves define comparisons for INSTANCES
    def __lt__(cls, other):
        return isinstance(other, type) and cls.__name__ < other.__name__

    def __le__(cls, other):
        return isinstance(other, type) and cls.__name__ <= other.__name__


class Vec(metaclass=Meta):
    """user class with operator overloads, properties, __call__, context manager"""

    def __init__(self, *xs):
        self.xs = list(xs)
        self.entered = 0
        self.exposed_tag = "tag"

    def __repr__(self):
        return "Vec(%s)" % ", ".join(map(repr, self.xs))

    def __str__(self):
        return "<%s>" % "|".join(map(str, self.xs))

    def __eq__(self, other):
        # not reflexive by construction (like NaN / expression-building classes) and stateful: it counts its calls
        self.eq_calls = getattr(self, "eq_calls", 0) + 1
        if other is self:
            return len(self.xs) % 2 == 0
        return isinstance(other, Vec) and self.xs == other.xs or (type(other) is tuple and tuple(self.xs) == other)

    def __ne__(self, other):
        return not self.__eq__(other)

    def __lt__(self, other):
        if type(other) is tuple:
            return tuple(self.xs) < other
        raise TypeError("unorderable")

    def __hash__(self):
        return hash(tuple(self.xs))

    def __len__(self):
        return len(self.xs)

    def __bool__(self):
        return bool(self.xs) and self.xs[0] != 0

    def __add__(self, other):
        if type(other) in (int, float):
            return Vec(*[x + other for x in self.xs])
        return NotImplemented

    def __radd__(self, other):
        if type(other) in (int, float):
            return Vec(*[other + x for x in self.xs])
        return NotImplemented

    def __mul__(self, k):
        return Vec(*[x * k for x in self.xs])

    def __rmul__(self, k):
        return Vec(*[k * x for x in self.xs])

    def __sub__(self, other):
        return Vec(*[x - other for x in self.xs])

    def __rsub__(self, other):
        return Vec(*[other - x for x in self.xs])

    def __neg__(self):
        return Vec(*[-x for x in self.xs])

    def __abs__(self):
        return sum(abs(x) for x in self.xs)

    def __iadd__(self, other):
        self.xs = [x + other for x in self.xs]
        return self

    def __getitem__(self, i):
        return self.xs[i]

    def __setitem__(self, i, v):
        self.xs[i] = v

    def __delitem__(self, i):
        del self.xs[i]

    def __contains__(self, v):
        return v in self.xs

    def __iter__(self):
        return iter(self.xs)

    def __call__(self, *a, **k):
        return (len(self.xs), a, tuple(sorted(k.items())))

    def __enter__(self):
        self.entered += 1
        return self.entered

    def __exit__(self, t, v, tb):
        self.entered += 10
        # remembers what it was told and swallows look-up errors, as context managers that translate or suppress errors do
        self.exit_saw = getattr(t, "__name__", None)
        return t is not None and issubclass(t, LookupError)

    def __int__(self):
        return len(self.xs)

    def __divmod__(self, k):
        return (len(self.xs) // k, len(self.xs) % k)

    @property
    def total(self):
        return sum(self.xs)

    @total.setter
    def total(self, v):
        self.xs = [v]

    def exposed_sum(self, extra=0):
        return sum(self.xs) + extra

    def push(self, v):
        self.xs.append(v)
        return len(self.xs)

    def boom(self, kind):
        raise {"k": KeyError, "v": ValueError, "z": ZeroDivisionError, "i": IndexError, "t": TypeError}[kind]("boom", kind)


class Color(metaclass=Meta):
    """a class whose metaclass defines special methods (like Enum classes) and that defines none of them itself"""
    RED = 1

    def __init__(self, *xs):
        self.xs = list(xs)

    def __repr__(self):
        return "Color%r" % (tuple(self.xs),)

    def boom(self, kind):
        raise KeyError(kind)

    def size(self):
        return len(self.xs)

    def __eq__(self, other):          # for instances: compares contents
        return isinstance(other, Color) and self.xs == other.xs

    def __hash__(self):
        return hash(tuple(self.xs))


def plain_small(rng):
    return rng.choice([0, 1, -1, 2, 3, 7, 255, 2.5, "a", "bc", b"x", None, True, (1, 2), ("a", (1,)), 10 ** 20, -0.0, "é"])


def hashable_small(rng):
    return rng.choice([0, 1, 2, 3, "a", "bc", b"x", None, (1, 2), 2.5, True, frozenset([1])])


# ---------------------------------------------------------------- step generators: return (name, fn(obj, env))
def steps_list(rng, mode):
    v, i, j = plain_small(rng), rng.randrange(-4, 6), rng.randrange(-4, 6)
    k = rng.randrange(0, 4)
    seq = tuple(plain_small(rng) for _ in range(rng.randrange(0, 3)))
    safe = [
        ("getitem", lambda o, e: o[i]), ("setitem", lambda o, e: operator.setitem(o, i, v)), ("delitem", lambda o, e: operator.delitem(o, i)),
        ("getslice", lambda o, e: o[i:j]), ("getslice_step", lambda o, e: o[::2]), ("setslice", lambda o, e: operator.setitem(o, slice(i, j), seq)),
        ("delslice", lambda o, e: operator.delitem(o, slice(i, j))), ("len", lambda o, e: len(o)), ("contains", lambda o, e: v in o),
        ("mul", lambda o, e: o * k), ("rmul", lambda o, e: k * o), ("iter_all", lambda o, e: list(iter(o))), ("repr", lambda o, e: repr(o)),
        ("str", lambda o, e: str(o)), ("hash", lambda o, e: hash(o)), ("bool", lambda o, e: bool(o)), ("eq_tuple", lambda o, e: o == seq),
        ("ne", lambda o, e: o != seq), ("lt_int", lambda o, e: o < 3), ("iadd_tuple", lambda o, e: operator.iadd(o, seq)),
        ("imul", lambda o, e: operator.imul(o, k)), ("add_bad", lambda o, e: o + 5), ("getitem_str", lambda o, e: o["x"]),
        ("sum_like", lambda o, e: len([x for x in o])),
        ("eq_self", lambda o, e: o == o), ("add_self", lambda o, e: o + o), ("extend_self", lambda o, e: o.extend(o) if False else operator.iadd(o, o)),
        ("contains_self", lambda o, e: o in o), ("le_self", lambda o, e: o <= o),
        ("sorted", lambda o, e: sorted(o, key=repr)), ("enumerate", lambda o, e: list(enumerate(o))[:3]),
    ]
    public = [
        ("append", lambda o, e: o.append(v)), ("extend", lambda o, e: o.extend(seq)), ("insert", lambda o, e: o.insert(i, v)),
        ("pop", lambda o, e: o.pop()), ("pop_i", lambda o, e: o.pop(i)), ("remove", lambda o, e: o.remove(v)), ("index", lambda o, e: o.index(v)),
        ("count", lambda o, e: o.count(v)), ("reverse", lambda o, e: o.reverse()), ("clear", lambda o, e: o.clear()),
        ("copy", lambda o, e: o.copy()), ("sort_key", lambda o, e: o.sort(key=None) if all(type(x) is int for x in e["twin_view"]) else None),
        ("isinstance", lambda o, e: (isinstance(o, list), isinstance(o, (dict, tuple)), isinstance(o, collections.abc.Sequence) if False else True)),
        ("class", lambda o, e: o.__class__ is list), ("dir", lambda o, e: dir(o)), ("getattr_missing", lambda o, e: o.nosuch),
        ("setattr_bad", lambda o, e: setattr(o, "zz", 1)), ("doc", lambda o, e: o.__doc__),
    ]
    classic = [("reversed", lambda o, e: list(reversed(o)))]     # __reversed__ is neither safe-listed nor public
    return safe if mode == "default" else safe + public + (classic if mode == "classic" else [])


def steps_dict(rng, mode):
    k, v = hashable_small(rng), plain_small(rng)
    pairs = tuple((hashable_small(rng), plain_small(rng)) for _ in range(rng.randrange(0, 3)))
    safe = [
        ("getitem", lambda o, e: o[k]), ("setitem", lambda o, e: operator.setitem(o, k, v)), ("delitem", lambda o, e: operator.delitem(o, k)),
        ("len", lambda o, e: len(o)), ("contains", lambda o, e: k in o), ("iter_keys", lambda o, e: list(o)), ("repr", lambda o, e: repr(o)),
        ("bool", lambda o, e: bool(o)), ("hash", lambda o, e: hash(o)), ("eq", lambda o, e: o == 5), ("or_bad", lambda o, e: o | 5),
        ("eq_self", lambda o, e: o == o), ("ne_self", lambda o, e: o != o),
        ("setitem_unhashable_ok", lambda o, e: operator.setitem(o, (k, 1), v)),
    ]
    public = [
        ("get", lambda o, e: o.get(k)), ("get_default", lambda o, e: o.get(k, v)), ("pop", lambda o, e: o.pop(k)), ("pop_default", lambda o, e: o.pop(k, v)),
        ("setdefault", lambda o, e: o.setdefault(k, v)), ("update_pairs", lambda o, e: o.update(pairs)), ("update_kw", lambda o, e: o.update(a=1, b=v)),
        ("keys", lambda o, e: list(o.keys())), ("values", lambda o, e: list(o.values())), ("items", lambda o, e: list(o.items())),
        ("popitem", lambda o, e: o.popitem()), ("clear", lambda o, e: o.clear()), ("copy", lambda o, e: o.copy()),
        ("isinstance", lambda o, e: (isinstance(o, dict), isinstance(o, list))), ("class", lambda o, e: o.__class__ is dict),
        ("fromkeys", lambda o, e: o.fromkeys((1, 2), v)), ("dir", lambda o, e: dir(o)),
    ]
    return safe if mode == "default" else safe + public


def steps_set(rng, mode):
    v = hashable_small(rng)
    fs = frozenset(hashable_small(rng) for _ in range(rng.randrange(0, 4)))
    safe = [
        ("len", lambda o, e: len(o)), ("contains", lambda o, e: v in o), ("or", lambda o, e: sorted(o | fs, key=repr)), ("and", lambda o, e: sorted(o & fs, key=repr)),
        ("sub", lambda o, e: sorted(o - fs, key=repr)), ("xor", lambda o, e: sorted(o ^ fs, key=repr)), ("ror", lambda o, e: sorted(fs | o, key=repr)),
        ("rsub", lambda o, e: sorted(fs - o, key=repr)), ("le", lambda o, e: o <= fs), ("ge", lambda o, e: o >= fs), ("lt", lambda o, e: o < fs),
        ("eq", lambda o, e: o == fs), ("ior", lambda o, e: sorted(operator.ior(o, fs), key=repr)), ("iand", lambda o, e: sorted(operator.iand(o, fs), key=repr)),
        ("isub", lambda o, e: sorted(operator.isub(o, fs), key=repr)), ("iter_sorted", lambda o, e: sorted(o, key=repr)), ("bool", lambda o, e: bool(o)),
        ("hash", lambda o, e: hash(o)), ("or_bad", lambda o, e: o | 3), ("eq_self", lambda o, e: o == o), ("or_self", lambda o, e: sorted(o | o, key=repr)),
        ("sub_self", lambda o, e: sorted(o - o, key=repr)), ("le_self", lambda o, e: o <= o), ("lt_self", lambda o, e: o < o),
    ]
    public = [
        ("add", lambda o, e: o.add(v)), ("discard", lambda o, e: o.discard(v)), ("remove", lambda o, e: o.remove(v)),
        ("issubset", lambda o, e: o.issubset(fs)), ("issuperset", lambda o, e: o.issuperset(fs)), ("isdisjoint", lambda o, e: o.isdisjoint(fs)),
        ("union", lambda o, e: sorted(o.union(fs), key=repr)), ("update", lambda o, e: o.update(fs)), ("clear", lambda o, e: o.clear()),
        ("isinstance", lambda o, e: isinstance(o, set)), ("add_unhashable", lambda o, e: o.add(slice(1) if False else (1, [2]) if False else v)),
    ]
    return safe if mode == "default" else safe + public


def steps_bytearray(rng, mode):
    i, j, b = rng.randrange(-3, 5), rng.randrange(-3, 6), rng.randrange(0, 300)
    bs = bytes(rng.getrandbits(8) for _ in range(rng.randrange(0, 4)))
    safe = [
        ("getitem", lambda o, e: o[i]), ("setitem", lambda o, e: operator.setitem(o, i, b)), ("delitem", lambda o, e: operator.delitem(o, i)),
        ("getslice", lambda o, e: o[i:j]), ("setslice", lambda o, e: operator.setitem(o, slice(i, j), bs)), ("len", lambda o, e: len(o)),
        ("contains", lambda o, e: b in o), ("contains_bytes", lambda o, e: bs in o), ("add", lambda o, e: o + bs), ("radd", lambda o, e: bs + o),
        ("mul", lambda o, e: o * 2), ("iadd", lambda o, e: operator.iadd(o, bs)), ("eq", lambda o, e: o == bs), ("lt", lambda o, e: o < bs),
        ("iter", lambda o, e: list(o)), ("repr", lambda o, e: repr(o)), ("str", lambda o, e: str(o)), ("mod_bad", lambda o, e: o % 5 if False else o + 5),
    ]
    public = [
        ("append", lambda o, e: o.append(b)), ("extend", lambda o, e: o.extend(bs)), ("pop", lambda o, e: o.pop()), ("find", lambda o, e: o.find(bs)),
        ("decode", lambda o, e: o.decode("latin1")), ("hex", lambda o, e: o.hex()), ("reverse", lambda o, e: o.reverse()), ("clear", lambda o, e: o.clear()),
        ("count", lambda o, e: o.count(bs)), ("isinstance", lambda o, e: isinstance(o, bytearray)), ("startswith", lambda o, e: o.startswith(bs)),
    ]
    return safe if mode == "default" else safe + public


def steps_deque(rng, mode):
    v, i, n = plain_small(rng), rng.randrange(-3, 5), rng.randrange(-3, 4)
    safe = [
        ("getitem", lambda o, e: o[i]), ("setitem", lambda o, e: operator.setitem(o, i, v)), ("delitem", lambda o, e: operator.delitem(o, i)), ("len", lambda o, e: len(o)),
        ("contains", lambda o, e: v in o), ("iter", lambda o, e: list(o)), ("repr", lambda o, e: repr(o)), ("bool", lambda o, e: bool(o)),
        ("eq", lambda o, e: o == (1,)), ("mul", lambda o, e: list(o * 2)),
    ]
    public = [
        ("append", lambda o, e: o.append(v)), ("appendleft", lambda o, e: o.appendleft(v)), ("pop", lambda o, e: o.pop()), ("popleft", lambda o, e: o.popleft()),
        ("rotate", lambda o, e: o.rotate(n)), ("extend", lambda o, e: o.extend((v, v))), ("count", lambda o, e: o.count(v)), ("clear", lambda o, e: o.clear()),
        ("maxlen", lambda o, e: o.maxlen), ("index", lambda o, e: o.index(v)), ("isinstance", lambda o, e: isinstance(o, collections.deque)),
    ]
    classic = [("reversed", lambda o, e: list(reversed(o)))]
    return safe if mode == "default" else safe + public + (classic if mode == "classic" else [])


def steps_vec(rng, mode):
    n, i = rng.choice([0, 1, 2, -3, 2.5]), rng.randrange(-3, 4)
    kind = rng.choice("kvzit")

    def with_block(o, e):
        with o as x:
            return ("in", x)

    def with_raising(cls):
        def step(o, e):
            with o:
                raise cls("from the body")
            return "swallowed"
        return step
    safe = [
        ("add", lambda o, e: o + n), ("radd", lambda o, e: n + o), ("mul", lambda o, e: o * 2), ("rmul", lambda o, e: 3 * o), ("sub", lambda o, e: o - n),
        ("rsub", lambda o, e: n - o), ("neg", lambda o, e: -o), ("abs", lambda o, e: abs(o)), ("iadd", lambda o, e: operator.iadd(o, n)),
        ("add_notimpl", lambda o, e: o + "s"), ("getitem", lambda o, e: o[i]), ("setitem", lambda o, e: operator.setitem(o, i, n)), ("delitem", lambda o, e: operator.delitem(o, i)),
        ("contains", lambda o, e: n in o), ("len", lambda o, e: len(o)), ("bool", lambda o, e: bool(o)), ("hash", lambda o, e: hash(o)),
        ("eq_tuple", lambda o, e: o == (1, 2)), ("ne", lambda o, e: o != (1, 2)), ("lt_tuple", lambda o, e: o < (5,)), ("lt_bad", lambda o, e: o < 3),
        ("eq_self", lambda o, e: o == o), ("ne_self", lambda o, e: o != o), ("contains_self", lambda o, e: o in o),
        ("iter", lambda o, e: list(o)), ("repr", lambda o, e: repr(o)), ("str", lambda o, e: str(o)), ("format", lambda o, e: "%s|%r" % (o, o)), ("with", with_block),
        ("exposed_sum", lambda o, e: o.exposed_sum()), ("exposed_sum_kw", lambda o, e: o.exposed_sum(extra=5)), ("exposed_tag", lambda o, e: o.exposed_tag),
        ("int", lambda o, e: int(o)), ("divmod", lambda o, e: divmod(o, 2)),
        ("with_body_raises_swallowed", with_raising(KeyError)), ("with_body_raises_passed_on", with_raising(ValueError)),
    ]
    public = [
        ("call", lambda o, e: o(1, "a", k=n)), ("call_noargs", lambda o, e: o()), ("prop_get", lambda o, e: o.total), ("prop_set", lambda o, e: setattr(o, "total", n)),
        ("attr_get", lambda o, e: o.entered), ("attr_set", lambda o, e: setattr(o, "label", n)), ("attr_del", lambda o, e: delattr(o, "label")),
        ("attr_del_missing", lambda o, e: delattr(o, "nolabel")), ("push", lambda o, e: o.push(n)), ("boom", lambda o, e: o.boom(kind)),
        ("isinstance", lambda o, e: isinstance(o, Vec)), ("class_name", lambda o, e: o.__class__.__name__), ("meta", lambda o, e: o.__class__.describe()),
        ("getattr_missing", lambda o, e: o.missing), ("xs", lambda o, e: list(o.xs)), ("dir_has", lambda o, e: ("push" in dir(o), "xs" in dir(o))),
    ]
    # the instance dictionary, reachable where private names are permitted (classic mode)
    classic = [
        ("dict_keys", lambda o, e: sorted(o.__dict__)), ("vars_keys", lambda o, e: sorted(vars(o))),
        ("dict_set", lambda o, e: operator.setitem(o.__dict__, "label", n)), ("dict_pop", lambda o, e: o.__dict__.pop("label", "absent")),
        ("dict_default", lambda o, e: sorted(getattr(o, "__dict__", {"no-dict": 1}))), ("dict_update", lambda o, e: vars(o).update(entered=i)),
    ]
    return safe if mode == "default" else safe + public + (classic if mode == "classic" else [])


def steps_cls(rng, mode):
    n = rng.randrange(-3, 9)
    steps = [
        ("describe", lambda o, e: o.describe()), ("instantiate", lambda o, e: o(n, 2)), ("instantiate_empty", lambda o, e: o()),
        ("name", lambda o, e: o.__name__), ("call_bad", lambda o, e: o(n).boom("k")), ("inst_len", lambda o, e: o(n, n, n).size()), ("attr", lambda o, e: o.RED),
        ("missing", lambda o, e: o.nosuch), ("meta_len", lambda o, e: len(o)), ("meta_getitem", lambda o, e: o["x"]),
        ("meta_contains", lambda o, e: ("m" in o, "z" in o)), ("inst_str", lambda o, e: str(o(n))), ("inst_repr", lambda o, e: repr(o(n, 1))),
        # comparing class objects: the operator is looked up on the TYPE of the left operand (here the metaclass), never on the
        # class itself, whose __eq__ / __lt__ are meant for its instances
        ("cls_eq_self", lambda o, e: o == o), ("cls_ne_self", lambda o, e: o != o), ("cls_in_tuple", lambda o, e: o in (1, o)),
        ("cls_index", lambda o, e: [0, o].index(o)), ("cls_eq_value", lambda o, e: o == 5), ("cls_rank_lt", lambda o, e: o < o),
        ("cls_rank_le", lambda o, e: o <= o), ("cls_hash_stable", lambda o, e: hash(o) == hash(o)),
    ]
    return steps


def echo_gen(n, tag):
    """a generator that reports what it is sent and how it ends"""
    log = []
    try:
        for i in range(n):
            got = yield (tag, i, tuple(log))
            log.append(got)
    finally:
        log.append("closed")
    return ("done", tuple(log))


def steps_gen(rng, mode):
    v = plain_small(rng)

    def nxt(o, e):
        try:
            return next(o)
        except StopIteration as ex:
            return ("stop", ex.args)
    steps = [("next", nxt), ("next2", nxt), ("iter_is_self", lambda o, e: list(zip(o, range(2)))), ("drain", lambda o, e: list(o))]
    if mode != "default":       # send / close are public names
        def send(o, e):
            try:
                return o.send(v)
            except StopIteration as ex:
                return ("stop", ex.args)
        steps += [("send", send), ("send2", send), ("close", lambda o, e: o.close()), ("gi_running", lambda o, e: o.gi_running)]
    return steps


def steps_dictview(rng, mode):
    k = hashable_small(rng)
    fs = frozenset(hashable_small(rng) for _ in range(rng.randrange(0, 3)))
    return [("len", lambda o, e: len(o)), ("contains", lambda o, e: k in o), ("iter", lambda o, e: sorted(o, key=repr)),
            ("and", lambda o, e: sorted(o & fs, key=repr)), ("or", lambda o, e: sorted(o | fs, key=repr)), ("sub", lambda o, e: sorted(o - fs, key=repr)),
            ("eq", lambda o, e: o == fs), ("le", lambda o, e: o <= fs), ("repr_kind", lambda o, e: repr(o)[:9]), ("bool", lambda o, e: bool(o))]


def steps_file(rng, mode):
    data = bytes(rng.choice(b"ab\n\x00z") for _ in range(rng.randrange(0, 9)))
    n, pos = rng.randrange(0, 7), rng.randrange(0, 12)
    public = [
        ("write", lambda o, e: o.write(data)), ("read", lambda o, e: o.read(n)), ("readall", lambda o, e: o.read()), ("seek", lambda o, e: o.seek(pos)),
        ("seek_end", lambda o, e: o.seek(0, 2)), ("tell", lambda o, e: o.tell()), ("readline", lambda o, e: o.readline()), ("flush", lambda o, e: o.flush()),
        ("truncate", lambda o, e: o.truncate(pos)), ("closed", lambda o, e: o.closed), ("iter_lines", lambda o, e: list(o)), ("name_is_str", lambda o, e: type(o.name) is str),
        ("readinto_bad", lambda o, e: o.read("x")), ("mode", lambda o, e: o.mode), ("writable", lambda o, e: o.writable()), ("fileno_int", lambda o, e: type(o.fileno()) is int),
    ]
    return public


class Rewinder(object):
    """a user-defined iterator whose __iter__ is not free of effects: it rewinds the cursor and counts the passes (the iterator
    protocol allows that; tape-like and cursor-like objects do it)"""

    def __init__(self, *items):
        self.items = list(items)
        self.pos = 0
        self.rewinds = 0

    def __iter__(self):
        self.pos = 0
        self.rewinds += 1
        return self

    def __next__(self):
        if self.pos >= len(self.items):
            raise StopIteration
        self.pos += 1
        return self.items[self.pos - 1]


def steps_rewinder(rng, mode):
    v = plain_small(rng)

    def nxt(o, e):
        try:
            return next(o)
        except StopIteration:
            return "stop"
    return [("list", lambda o, e: list(o)), ("next", nxt), ("next_of_iter", lambda o, e: nxt(iter(o), e)), ("tuple", lambda o, e: tuple(o)),
            ("in", lambda o, e: v in o), ("sorted_repr", lambda o, e: sorted(map(repr, o))), ("zip", lambda o, e: list(zip(o, range(2)))),
            ("for_break", lambda o, e: [x for x, _ in zip(o, range(1))]), ("iter_is_self", lambda o, e: iter(o) is o)]


def steps_cls_shadowed(rng, mode):
    return [("meta_len", lambda o, e: len(o)), ("meta_contains", lambda o, e: "m" in o)]


KINDS = {
    "rewinder": (lambda rng: Rewinder(*[plain_small(rng) for _ in range(rng.randrange(0, 5))]), steps_rewinder),
    "cls_shadowed": (lambda rng: Vec, steps_cls_shadowed),
    "list": (lambda rng: [plain_small(rng) for _ in range(rng.randrange(0, 6))], steps_list),
    "dict": (lambda rng: {hashable_small(rng): plain_small(rng) for _ in range(rng.randrange(0, 5))}, steps_dict),
    "set": (lambda rng: {hashable_small(rng) for _ in range(rng.randrange(0, 5))}, steps_set),
    "bytearray": (lambda rng: bytearray(rng.getrandbits(8) for _ in range(rng.randrange(0, 6))), steps_bytearray),
    "deque": (lambda rng: collections.deque([plain_small(rng) for _ in range(rng.randrange(0, 5))], rng.choice([None, 4])), steps_deque),
    "vec": (lambda rng: Vec(*[rng.randrange(-3, 9) for _ in range(rng.randrange(0, 4))]), steps_vec),
    "cls": (lambda rng: Color, steps_cls),
    "gen": (lambda rng: ("pair", lambda n=rng.randrange(0, 5): (echo_gen(n, "g"), echo_gen(n, "g"))), steps_gen),
    "dictview": (lambda rng: ("pair", lambda d={hashable_small(rng): 1 for _ in range(rng.randrange(0, 4))}: (dict(d).keys(), dict(d).keys())), steps_dictview),
}


def is_netref(x):
    import rpyc
    return isinstance(x, rpyc.BaseNetref)


def view(x, depth=0):
    """value-level view of a result (references read through); used on both sides"""
    if rc.plain_immutable(x):
        return ("v", rc.fingerprint(x))
    if depth > 3:
        return ("deep",)
    if type(x) in (tuple, list):
        return (type(x).__name__, tuple(view(i, depth + 1) for i in x))
    cname = x.__class__.__name__
    try:
        if cname in ("list", "deque"):
            return (cname, tuple(view(i, depth + 1) for i in x))
        if cname == "dict":
            return ("dict", tuple(sorted(((view(k, depth + 1), view(v, depth + 1)) for k, v in x.items()), key=repr)))
        if cname in ("set", "frozenset"):
            return (cname, tuple(sorted((view(i, depth + 1) for i in x), key=repr)))
        if cname in ("bytearray", "bytes"):
            return (cname, bytes(list(x)))
        if cname == "Vec":
            return ("Vec", tuple(view(i, depth + 1) for i in x), repr(x))      # read through permitted operations only
        if cname == "Color":
            return ("Color", repr(x))
    except Exception as e:
        return ("unreadable", cname, type(e).__name__)
    r = repr(x)
    return ("obj", cname, r if " at 0x" not in r else None)


def builtin_of(e):
    import builtins
    for k in type(e).__mro__:
        if k.__module__ == "builtins" and getattr(builtins, k.__name__, None) is k:
            return k
    return type(e)


def snapshot(kind, obj):
    if kind == "gen":
        return ("gen", obj.gi_frame is None)
    if kind == "dictview":
        return ("dictview", sorted(map(repr, obj)))
    if kind in ("cls", "cls_shadowed"):
        return sorted(k for k in obj.__dict__ if not k.startswith("__"))
    if kind == "rewinder":
        return ("rewinder", obj.pos, obj.rewinds, len(obj.items))
    if kind == "vec":
        return (view(obj), obj.entered, sorted(k for k in obj.__dict__), getattr(obj, "eq_calls", 0), getattr(obj, "exit_saw", "-"))
    if kind == "file":
        pos = obj.tell() if not obj.closed else None
        return ("file", pos, obj.closed)
    return view(obj)


def run_sequence(ctx, rng, pair, mode, kind, idx):
    a, b = pair.a, pair.b
    make, stepgen = KINDS[kind]
    if kind in ("cls", "cls_shadowed") and mode != "classic":      # class attributes such as __name__ / __call__ are not permitted elsewhere
        kind = "vec"
        make, stepgen = KINDS[kind]
    target = make(rng)
    if type(target) is tuple and len(target) == 2 and target[0] == "pair":
        target, twin = target[1]()          # kinds that cannot be deep-copied are built twice
    else:
        twin = copy.deepcopy(target)
    proxy = a._unbox(b._box(target))
    nsteps = rng.randrange(1, 41)
    names = []
    env = {}
    bad = []
    for s in range(nsteps):
        steps = stepgen(rng, mode)
        name, fn = rng.choice(steps)
        if name == "hash":
            # compared with the hash of the real target, not of the twin
            fn_t = lambda o, e, t=target: hash(t)
        else:
            fn_t = fn
        names.append(name)
        env["twin_view"] = list(twin) if kind == "list" else None
        try:
            want = ("ok", view(fn_t(twin, env)))
        except Exception as e:
            want = ("exc", builtin_of(e))
        try:
            got = ("ok", view(fn(proxy, env)))
        except Exception as e:
            got = ("exc", builtin_of(e))
        if want[0] == "exc" and got[0] == "exc":
            ok = issubclass(got[1], want[1])
        else:
            ok = got == want
        if not ok and kind == "cls_shadowed":
            bad.append(("metaclass-special-method-shadowed", "len(proxy of a class) calls the class's own __len__ function (TypeError) when both the "
                        "metaclass and the class define __len__; on the target the metaclass method answers"))
            break
        if not ok and kind == "bytearray" and name == "radd" and got == ("exc", TypeError):
            # bytes.__add__ reads its right operand through the C buffer protocol, which no Python-level proxy can provide
            bad.append(("needs-buffer-protocol/bytes+proxy", "b'..' + proxy(bytearray) raises TypeError; with the target it concatenates"))
            break
        if name.startswith("with_body_raises") and (not ok or getattr(target, "exit_saw", "-") != getattr(twin, "exit_saw", "-")):
            # the listed finding: a proxy's __exit__ forwards the exception TYPE in the place of the exception, the owner cannot
            # raise a proxy, and the target's __exit__ is told about a TypeError instead
            bad.append(("with-block-body-raises/target-told-TypeError", "with proxy: raise %s - proxy gave %r, twin gave %r; the target's __exit__ saw %r, the twin's %r" % (
                "KeyError" if "swallowed" in name else "ValueError", got, want, getattr(target, "exit_saw", "-"), getattr(twin, "exit_saw", "-"))))
            # recorded once per sequence; the field the finding is about is re-aligned so that the rest of the sequence is still compared
            target.exit_saw = twin.exit_saw
            if snapshot(kind, target) == snapshot(kind, twin):
                continue
            break
        if not ok:
            bad.append(("result-differs/%s/%s/%s" % (mode, kind, name), "step %d %s: proxy gave %r, twin gave %r" % (s, name, got, want)))
            break
        s1, s2 = snapshot(kind, target), snapshot(kind, twin)
        if s1 != s2:
            bad.append(("state-differs/%s/%s/%s" % (mode, kind, name), "after step %d %s the target is %r, the twin %r" % (s, name, s1, s2)))
            break
        ctx.count("steps_compared")
        if want[0] == "exc":
            ctx.count("error_steps_compared")
    del proxy
    for key, what in bad:
        ctx.violation("C02/" + key, what, dict(mode=mode, kind=kind, steps=names))
    ctx.case((mode, kind, tuple(names)), nontrivial=len(names) >= 3)
    return names


def run_file_sequence(ctx, rng, pair, mode, scratch, idx):
    a, b = pair.a, pair.b
    p1, p2 = os.path.join(scratch, "t%d.bin" % idx), os.path.join(scratch, "w%d.bin" % idx)
    init = bytes(rng.choice(b"ab\nz") for _ in range(rng.randrange(0, 12)))
    for p in (p1, p2):
        with open(p, "wb") as f:
            f.write(init)
    target, twin = open(p1, "r+b"), open(p2, "r+b")
    proxy = a._unbox(b._box(target))
    names = []
    try:
        for s in range(rng.randrange(1, 25)):
            name, fn = rng.choice(steps_file(rng, mode))
            names.append(name)
            try:
                want = ("ok", view(fn(twin, {})))
            except Exception as e:
                want = ("exc", builtin_of(e))
            try:
                got = ("ok", view(fn(proxy, {})))
            except Exception as e:
                got = ("exc", builtin_of(e))
            ok = issubclass(got[1], want[1]) if want[0] == got[0] == "exc" else got == want
            if not ok:
                ctx.violation("C02/result-differs/%s/file/%s" % (mode, name), "step %d %s: proxy gave %r, twin gave %r" % (s, name, got, want), dict(steps=names))
                break
            if (target.tell(), target.closed) != (twin.tell(), twin.closed):
                ctx.violation("C02/state-differs/%s/file/%s" % (mode, name), "file position differs after %s" % name, dict(steps=names))
                break
            ctx.count("steps_compared")
        target.flush()
        twin.flush()
        with open(p1, "rb") as f1, open(p2, "rb") as f2:
            if f1.read() != f2.read():
                ctx.violation("C02/state-differs/%s/file/content" % mode, "file contents differ at the end", dict(steps=names))
        # context manager: normal exit closes the remote file
        with proxy as pf:
            pass
        with twin as tf:
            pass
        if target.closed != twin.closed:
            ctx.violation("C02/state-differs/%s/file/with" % mode, "with-block left the remote file closed=%s, twin closed=%s" % (target.closed, twin.closed), dict(steps=names))
    finally:
        del proxy
        target.close()
        twin.close()
    ctx.case((mode, "file", tuple(names)), nontrivial=len(names) >= 3)


def run_iterators(ctx, rng, pair, mode):
    """plain and buffered iteration, including generators and exhausted iterators"""
    from rpyc.utils.helpers import buffiter
    a, b = pair.a, pair.b
    n = rng.randrange(0, 51)
    src = [plain_small(rng) for _ in range(n)]
    kind = rng.choice(["list", "gen", "iter", "range", "dictkeys"])

    def mk():
        if kind == "list":
            return list(src)
        if kind == "gen":
            return (x for x in list(src))
        if kind == "iter":
            return iter(list(src))
        if kind == "range":
            return range(n)
        return dict.fromkeys(range(n))
    target, twin = mk(), mk()
    proxy = a._unbox(b._box(target))
    chunk, maxc, factor = rng.randrange(1, 13), rng.randrange(1, 21), rng.choice([1, 2, 3.5])
    how = rng.choice(["plain", "buffiter", "next_steps", "buffiter_default"])
    desc = (mode, "iter", kind, how, n if n < 3 else "n", chunk, maxc, factor)
    wit = dict(kind=kind, how=how, n=n, chunk=chunk, max_chunk=maxc, factor=factor)
    try:
        if how == "plain":
            got, want = [view(x) for x in proxy], [view(x) for x in twin]
        elif how == "buffiter":
            got = [view(x) for x in buffiter(proxy, chunk, maxc, factor)]
            want = [view(x) for x in twin]
        elif how == "buffiter_default":
            got = [view(x) for x in buffiter(proxy)]
            want = [view(x) for x in twin]
        else:
            it_p, it_t = iter(proxy), iter(twin)
            got, want = [], []
            for _ in range(n + 3):
                for it, out in ((it_p, got), (it_t, want)):
                    try:
                        out.append(view(next(it)))
                    except StopIteration as e:
                        out.append(("stop", e.args))
                    except Exception as e:
                        out.append(("exc", builtin_of(e).__name__))
            del it_p
        if got != want:
            first = next((i for i, (x, y) in enumerate(zip(got, want)) if x != y), min(len(got), len(want)))
            ctx.violation("C02/iteration-differs/%s/%s" % (how, "float-factor" if factor == 3.5 and how == "buffiter" else "int-factor"),
                          "iteration over a remote %s gives %d items (first difference at %d), twin %d" % (kind, len(got), first, len(want)), wit)
    except Exception as e:
        ctx.violation("C02/iteration-raises/%s/%s/%s" % (how, "float-factor" if factor == 3.5 and how == "buffiter" else "int-factor", builtin_of(e).__name__),
                      "iteration over a remote %s raised %r" % (kind, e), wit)
    del proxy
    ctx.case(desc, nontrivial=n > 0)
    ctx.count("iterations_compared")


def class_changes_between_instances(ctx, rng, pair, mode):
    """state that ages between two proxies: an application class gains (or loses) special methods on the owner's side - a plug-in
    registers a protocol, a test monkeypatches - AFTER a first instance has been handed out and dropped; a second instance handed
    out afterwards must behave like its local twin under the class as it is NOW. Also the same with a second, differently shaped
    class of the same name made after the first one has died (the allocator may hand out the same address again)."""
    import gc
    a, b = pair.a, pair.b

    def mk(name):
        def __init__(self, *xs):
            self.xs = list(xs)
        return type(name, (object,), {"__init__": __init__, "__module__": "rv_c02_runtime"})
    protocols = {"__len__": lambda self: len(self.xs), "__getitem__": lambda self, i: self.xs[i], "__contains__": lambda self, x: x in self.xs,
                 "__bool__": lambda self: bool(self.xs), "__call__": lambda self, k: [k] + self.xs, "__iter__": lambda self: iter(list(self.xs))}
    ops = [("len", lambda o: len(o)), ("getitem", lambda o: o[1]), ("contains", lambda o: 5 in o), ("bool", lambda o: bool(o)), ("call", lambda o: list(o(7))),
           ("list", lambda o: list(o))]

    def compare(proxy, twin, phase, wit):
        for name, fn in ops:
            try:
                want = ("ok", view(fn(twin)))
            except Exception as e:
                want = ("exc", builtin_of(e))
            try:
                got = ("ok", view(fn(proxy)))
            except Exception as e:
                got = ("exc", builtin_of(e))
            ok = issubclass(got[1], want[1]) if (want[0] == "exc" and got[0] == "exc") else got == want
            ctx.count("steps_compared")
            if not ok:
                ctx.violation("C02/result-differs/%s/class-changed-between-instances/%s" % (mode, name), "%s: %s on a proxy of a NEW instance gave %r, the twin gave %r" % (
                    phase, name, got, want), wit)
                return False
        return True
    for variant in ("gains", "loses", "same-name-new-class"):
        Cls, Twin = mk("Bag"), mk("Bag")
        chosen = [k for k in protocols if rng.random() < .7] or ["__len__"]
        wit = dict(mode=mode, family="class-changes-between-instances", variant=variant, methods=chosen)
        if variant == "loses":
            for k in chosen:
                setattr(Cls, k, protocols[k])
                setattr(Twin, k, protocols[k])
        first, first_twin = Cls(1, 2, 3), Twin(1, 2, 3)
        proxy = a._unbox(b._box(first))
        if not compare(proxy, first_twin, "first instance", wit):
            continue
        del proxy, first
        if variant == "gains":
            for k in chosen:
                setattr(Cls, k, protocols[k])
                setattr(Twin, k, protocols[k])
        elif variant == "loses":
            for k in chosen:
                delattr(Cls, k)
                delattr(Twin, k)
        else:
            old_id = id(Cls)
            del Cls
            gc.collect()
            Cls, Twin = mk("Bag"), mk("Bag")
            for k in chosen:
                setattr(Cls, k, protocols[k])
                setattr(Twin, k, protocols[k])
            if id(Cls) == old_id:
                ctx.count("runtime_classes_reusing_an_address")
        second, second_twin = Cls(4, 5, 6), Twin(4, 5, 6)
        proxy = a._unbox(b._box(second))
        compare(proxy, second_twin, "second instance after the class %s" % variant, wit)
        del proxy, second
        ctx.count("class_changes_between_instances")
        ctx.case((mode, "class-changes", variant, tuple(chosen)), nontrivial=True)


def run(ctx):
    import rpyc
    rng = ctx.rng
    scratch = tempfile.mkdtemp(prefix="rv_c02_")
    try:
        for mode, cfg in CONFIGS.items():
            pair = vnet.ServedPair(rpyc.VoidService(), rpyc.VoidService(), cfg_a={}, cfg_b=cfg)
            try:
                nseq = ctx.budget(330, 300000 // 3)
                for i in range(nseq):
                    kind = rng.choice(list(KINDS))
                    names = run_sequence(ctx, rng, pair, mode, kind, i)
                    if i < 1:
                        ctx.sample({"mode": mode, "kind": kind, "steps": names})
                    if ctx.enough():
                        break
                if mode != "default":
                    for i in range(ctx.budget(40, 12000)):
                        run_file_sequence(ctx, rng, pair, mode, scratch, i)
                for i in range(ctx.budget(10, 4000)):
                    class_changes_between_instances(ctx, rng, pair, mode)
                for i in range(ctx.budget(150, 60000)):
                    run_iterators(ctx, rng, pair, mode)
                    if ctx.enough():
                        break
            finally:
                ok = pair.close()
            if pair.server_exc is not None:
                ctx.violation("C02/server-died/%s" % type(pair.server_exc).__name__, "serving side died: %r" % (pair.server_exc,))
            if ctx.enough():
                break
        # a subset over a real socket: classic connection in a thread
        conn = rpyc.classic.connect_thread()
        try:
            rl = conn.eval("[3, 1, 2]")
            tw = [3, 1, 2]
            for name, fn in [("append", lambda o: o.append(9)), ("sort", lambda o: o.sort()), ("slice", lambda o: list(o[1:])), ("pop", lambda o: o.pop(0)),
                             ("err", lambda o: o[99])]:
                try:
                    g = ("ok", view(fn(rl)))
                except Exception as e:
                    g = ("exc", builtin_of(e))
                try:
                    w = ("ok", view(fn(tw)))
                except Exception as e:
                    w = ("exc", builtin_of(e))
                if g != w or view(rl) != view(tw):
                    ctx.violation("C02/socket/%s" % name, "over a real socket: proxy %r twin %r" % (g, w))
                ctx.count("socket_steps")
            del rl
        finally:
            conn.close()
    finally:
        shutil.rmtree(scratch, ignore_errors=True)
    if not ctx.counters["error_steps_compared"]:
        ctx.inconclusive("no error path was compared")

"""C09 - remote exceptions arrive as the same class with the same data, and safely.

Runtime oracle on real connection pairs for every built-in exception class x argument tuples x the four switches
(sender: include_local_traceback / include_local_version; receiver: instantiate_custom_exceptions /
import_custom_exceptions), custom classes (already imported / importable canary module / unknown) with constructor
and import canaries, wire scan of the exception frame, and crafted payloads in place of a genuine record.
"""
import builtins
import os
import shutil
import sys
import tempfile

from rv import canary, gen, refcodec as rc, vnet

PROPERTY = "C09"
LEVEL = "exploration"
RULE = ("every BaseException subclass found in builtins at run time (constructible ones; KeyboardInterrupt only with the "
        "switch that routes it to the peer) x generated argument tuples (plain values, non-plain values, tuples mixing immutable "
        "containers with non-plain values, class-specific constructor shapes; instances annotated with data attributes of "
        "their own after plainer instances of the same class) x 2^2 sender switches x 2^2 receiver switches; custom classes: defined in an imported module, "
        "importable canary module (file on sys.path that logs when executed), unknown module; hostile MSG_EXCEPTION "
        "payloads (shared grammar with C07). distinct = (class, argument shape classes, switches) or payload bytes; "
        "non-trivial = has at least one argument or attribute")
ASSUMPTIONS = ["an argument-less StopIteration travels as the published short form EXC_STOP_ITERATION, which cannot carry traceback/version text or attributes; for it only non-disclosure is checked",
               "the ground truth for args/attributes is the exception instance actually raised on the serving side (read in "
               "process), normalised as the statement says: immutable plain values kept, others replaced by repr()",
               "both peers share one interpreter: 'module not yet imported' is emulated with classes whose __module__ names a "
               "canary module file that is on sys.path but not in sys.modules"]
SHARDS = {"quick": 1, "thorough": 16}
SHARD_TIMEOUT = {"thorough": 7200}
MIN_DISTINCT = {"quick": 500, "thorough": 20000}

IGNORED_ATTRS = {"args", "with_traceback", "add_note"}
INIT_LOG = []


class CustomErr(Exception):
    """custom class living in an already imported module, with logging constructors"""

    def __init__(self, *a):
        INIT_LOG.append(("init", type(self).__name__))
        Exception.__init__(self, *a)
        self.detail = ("d", len(a))


class CustomBase(BaseException):
    def __init__(self, *a):
        INIT_LOG.append(("init", type(self).__name__))
        BaseException.__init__(self, *a)


def builtin_exception_classes():
    out = []
    for name in sorted(dir(builtins)):
        obj = getattr(builtins, name)
        if isinstance(obj, type) and issubclass(obj, BaseException):
            if obj not in out:
                out.append(obj)
    return out


def arg_tuples(cls, rng):
    """candidate constructor argument tuples for a class"""
    if issubclass(cls, UnicodeDecodeError):
        return [("utf-8", b"\xff\xfeab", 0, 1, "bad byte"), ("ascii", b"", 0, 0, "")]
    if issubclass(cls, UnicodeEncodeError):
        return [("ascii", "aé", 1, 2, "bad char")]
    if issubclass(cls, UnicodeTranslateError):
        return [("aé", 1, 2, "bad char")]
    if issubclass(cls, BaseExceptionGroup):
        inner = [ValueError(1), TypeError("t")] if issubclass(cls, Exception) else [KeyboardInterrupt(), ValueError(2)]
        return [("group message", inner)]
    cands = [(), ("msg",), (gen.gen_plain(rng, 2),), tuple(gen.gen_plain(rng, 3) for _ in range(rng.randrange(2, 5))),
             ([1, 2], "x"), (gen.Obj(3),), ("\udc80sur", b"\x00\xff", (1, (2.5, None)), frozenset([1])), (10 ** 30, -0.0, 1j)]
    # mixed tuples: immutable scalars and immutable containers next to arguments that travel as their repr
    mixed = [gen.gen_plain(rng, 3) if rng.random() < 0.6 else rng.choice([[3], {"k": 1}, gen.Obj(rng.randrange(9)), {1, 2}, bytearray(b"ba")])
             for _ in range(rng.randrange(2, 6))]
    cands += [((1, 2), [3]), (frozenset([1]), {"a": 1}, slice(1, 2)), ([0], (4, (5, frozenset(["n"]))), "s", slice(None, 3, None)), tuple(mixed)]
    if issubclass(cls, OSError):
        cands += [(2, "No such file"), (2, "No such file", "fname.txt"), (13, "denied", "a", None, "b"), (11, "again")]
    if issubclass(cls, SyntaxError):
        cands += [("bad syntax", ("file.py", 3, 7, "x = = 1\n")), ("bad", ("f.py", 1, 2, "text", 1, 5))]
    if issubclass(cls, (ImportError,)):
        cands += [("cannot import",)]
    if issubclass(cls, SystemExit):
        cands += [(3,), ("bye",)]
    if issubclass(cls, StopIteration):
        cands += [("value",), ((1, 2),)]
    return cands


def normalise(args):
    return tuple(a if rc.plain_immutable(a) else repr(a) for a in args)


def plain_public_attrs(exc):
    out = {}
    for name in dir(exc):
        if name.startswith("_") or name in IGNORED_ATTRS:
            continue
        try:
            v = getattr(exc, name)
        except AttributeError:
            continue
        except Exception:
            continue
        if rc.plain_immutable(v):
            out[name] = v
    return out


def make_service(box):
    import rpyc

    class Svc(rpyc.Service):
        def exposed_throw(self):
            rv_c09_canary_raise_site(box)

        def exposed_bounce(self, fn):
            # the peer does not catch what the requester's own callback raises: the exception crosses the connection twice
            return fn()
    return Svc


def rv_c09_canary_raise_site(box):
    raise box["exc"]


def argshape(args):
    return tuple(type(a).__name__ for a in args)


def judge_builtin(ctx, e, raised, cls, snd, rcv, frame_rec, wit):
    import rpyc
    key_cls = cls.__name__
    if not isinstance(e, cls) or type(e).__name__ != cls.__name__ or type(e).__module__ != cls.__module__:
        ctx.violation("C09/class/%s" % key_cls, "raised %s on the peer, requester got %s.%s" % (
            cls.__name__, type(e).__module__, type(e).__name__), wit)
        return
    want = normalise(raised.args)
    if rc.fingerprint(tuple(e.args)) != rc.fingerprint(want):
        ctx.violation("C09/args/%s" % key_cls, "arguments differ: got %r, expected %r" % (e.args, want), wit)
    for name, v in plain_public_attrs(raised).items():
        try:
            got = getattr(e, name)
        except AttributeError:
            ctx.violation("C09/attr-lost/%s.%s" % (key_cls, name), "public immutable attribute %s lost" % name, wit)
            continue
        if rc.fingerprint(got) != rc.fingerprint(v):
            ctx.violation("C09/attr-changed/%s.%s" % (key_cls, name), "attribute %s arrived as %r, was %r" % (name, got, v), wit)
        ctx.count("attributes_compared")
    judge_disclosure(ctx, e, snd, frame_rec, wit)


def judge_disclosure(ctx, e, snd, frame_rec, wit):
    import rpyc
    tb = getattr(e, "_remote_tb", None)
    ver = getattr(e, "_remote_version", None)
    raw = frame_rec["raw"] if frame_rec else b""
    # the published format sends an argument-less StopIteration as the bare constant EXC_STOP_ITERATION (pinned by C19):
    # that form has no room for text, so only the "never disclosed when denied" direction applies to it
    short_form = bool(frame_rec) and frame_rec.get("args") == rc.EXC_STOP_ITERATION
    site = b"rv_c09_canary_raise_site"
    if snd["include_local_traceback"] and not short_form and wit.get("formattable", True):
        if not isinstance(tb, str) or "rv_c09_canary_raise_site" not in tb:
            ctx.violation("C09/traceback-missing", "sender allows the traceback but the requester did not get it", wit)
    elif not snd["include_local_traceback"]:
        if (isinstance(tb, str) and "rv_c09_canary_raise_site" in tb) or site in raw or b"c09_exceptions.py" in raw:
            ctx.violation("C09/traceback-leaked", "sender denies the traceback but it is present (attribute or raw frame bytes)", wit)
    vs = rpyc.version.version_string
    rec_ver = None
    if frame_rec and type(frame_rec.get("args")) is tuple and len(frame_rec["args"]) == 4:
        for kv in frame_rec["args"][2]:
            if type(kv) is tuple and len(kv) == 2 and kv[0] == "_remote_version":
                rec_ver = kv[1]
    if snd["include_local_version"] and not short_form:
        if ver != vs:
            ctx.violation("C09/version-missing", "sender allows the version text but the requester got %r" % (ver,), wit)
    elif not snd["include_local_version"]:
        if ver == vs or rec_ver == vs:
            ctx.violation("C09/version-leaked", "sender denies the version text but it was transmitted", wit)
    ctx.count("disclosure_checked")


def run_matrix(ctx, rng, classes, per_class):
    import rpyc
    for si in range(4):
        for ri in range(4):
            snd = dict(include_local_traceback=bool(si & 1), include_local_version=bool(si & 2),
                       propagate_KeyboardInterrupt_locally=False, propagate_SystemExit_locally=False, allow_public_attrs=True)
            rcv = dict(instantiate_custom_exceptions=bool(ri & 1), import_custom_exceptions=bool(ri & 2))
            box = {}
            pair = vnet.ServedPair(rpyc.VoidService(), make_service(box)(), cfg_a=rcv, cfg_b=snd)
            try:
                root = pair.a.root
                for cls in classes:
                    cands = arg_tuples(cls, rng)
                    rng.shuffle(cands)
                    for args in cands[:per_class]:
                        try:
                            raised = cls(*args)
                        except Exception:
                            ctx.count("unconstructible_arg_tuples")
                            continue
                        one_case(ctx, pair, root, box, raised, snd, rcv)
                        if rng.random() < .3 and type(raised).__module__ == "builtins" and not isinstance(raised, (SystemExit, KeyboardInterrupt, BaseExceptionGroup)):
                            # (exception groups: the first crossing already fails - the listed known finding)
                            second_hand_case(ctx, root, raised, type(raised), snd, rcv)
                        if rng.random() < .35 and not (issubclass(cls, StopIteration) and not args):
                            # (an argument-less StopIteration travels as the published one-integer short form: see ASSUMPTIONS)
                            # the same class again, this instance carrying data attributes of its own (set after construction,
                            # as code that annotates an exception before re-raising does)
                            try:
                                again = cls(*args)
                                again.code = rng.randrange(100)
                                again.detail = ("ctx", rng.randrange(9), None)
                                again.payload = [1, 2]          # not immutable: not part of the comparison
                            except Exception:
                                ctx.count("classes_without_instance_attributes")
                            else:
                                ctx.count("instances_with_own_attributes")
                                one_case(ctx, pair, root, box, again, snd, rcv)
                        if ctx.enough():
                            return
                # an exception whose arguments the serializer cannot encode: the requester gets the encoding error instead (C08);
                # what is disclosed with it must still follow the sender's switches
                for big in (ValueError(10 ** (sys.get_int_max_str_digits() + 10), "x"), KeyError(("k", 10 ** (sys.get_int_max_str_digits() + 10)))):
                    one_case(ctx, pair, root, box, big, snd, rcv, custom="unencodable")
                # custom classes
                for kind in ("imported", "imported_base", "unknown"):
                    for args in [(), ("m", 2), ([1], gen.Obj(1))]:
                        if kind == "imported":
                            raised = CustomErr(*args)
                        elif kind == "imported_base":
                            raised = CustomBase(*args)
                        else:
                            k = type("Vanished", (Exception,), {"__module__": "rv_no_such_module_c09"})
                            raised = k(*args)
                        one_case(ctx, pair, root, box, raised, snd, rcv, custom=kind)
                root = None
            finally:
                box.clear()
                pair.close()
            if pair.server_exc is not None:
                ctx.violation("C09/server-died/%s" % type(pair.server_exc).__name__, "serving side died: %r" % (pair.server_exc,),
                              dict(snd=snd, rcv=rcv))


def switches_change_on_a_live_connection(ctx, rng, rounds):
    """the switches are read from the connection's configuration for EVERY exception: a configuration edited on a live connection
    (after exceptions have already crossed it in this direction) governs the next exception - disclosure by the sender's
    current switches, re-creation of custom classes by the receiver's current ones"""
    import rpyc
    base_snd = dict(propagate_KeyboardInterrupt_locally=False, propagate_SystemExit_locally=False, allow_public_attrs=True)
    for r in range(rounds):
        si, ri = rng.randrange(4), rng.randrange(4)
        snd = dict(base_snd, include_local_traceback=bool(si & 1), include_local_version=bool(si & 2))
        rcv = dict(instantiate_custom_exceptions=bool(ri & 1), import_custom_exceptions=bool(ri & 2))
        box = {}
        pair = vnet.ServedPair(rpyc.VoidService(), make_service(box)(), cfg_a=rcv, cfg_b=snd)
        try:
            root = pair.a.root
            for step in range(5):
                if step:
                    # edit the live configuration of both sides (each switch flips with probability one half)
                    for k in ("include_local_traceback", "include_local_version"):
                        if rng.random() < .5:
                            snd[k] = not snd[k]
                    for k in ("instantiate_custom_exceptions", "import_custom_exceptions"):
                        if rng.random() < .5:
                            rcv[k] = not rcv[k]
                    pair.b._config.update(snd)
                    pair.a._config.update(rcv)
                    ctx.count("configuration_edits_on_a_live_connection")
                for raised, custom in ((KeyError("k", step), None), (CustomErr("m", step), "imported"), (StopIteration(), None),
                                       (ValueError(("v", step)), None)):
                    one_case(ctx, pair, root, box, raised, dict(snd), dict(rcv), custom=custom)
            root = None
        finally:
            box.clear()
            pair.close()
        if ctx.enough():
            return


def second_hand_case(ctx, root, raised, cls, snd, rcv):
    """an exception that the peer itself received over the connection (raised by the requester's callback) and lets through:
    it still has to surface as the same built-in class with the same arguments"""
    def thrower():
        raise raised
    wit = dict(cls=cls.__name__, second_hand=True, sender=snd, receiver=rcv)
    try:
        root.bounce(thrower)
        e = None
    except BaseException as ex:
        e = ex
    ctx.count("second_hand_exceptions")
    if e is None or isinstance(e, vnet.Stalled):
        ctx.violation("C09/second-hand/no-exception/%s" % cls.__name__, "an exception raised by the requester's callback and not caught by the peer did not come back", wit)
        return
    if e is raised:
        return       # (cannot happen over a connection; kept so that a harness slip is not mistaken for fidelity)
    if not isinstance(e, cls) or type(e).__name__ != cls.__name__:
        ctx.violation("C09/second-hand/class/%s" % cls.__name__, "raised %s in the requester's callback; after crossing the connection twice it surfaces as %s.%s "
                      "(mro %s)" % (cls.__name__, type(e).__module__, type(e).__name__, [k.__name__ for k in type(e).__mro__][:4]), wit)
        return
    if not (issubclass(cls, StopIteration) and not raised.args) and rc.fingerprint(tuple(e.args)) != rc.fingerprint(normalise(normalise(raised.args))):
        ctx.violation("C09/second-hand/args/%s" % cls.__name__, "arguments differ after two crossings: got %r" % (e.args,), wit)


def one_case(ctx, pair, root, box, raised, snd, rcv, custom=None):
    import rpyc
    from rpyc.core import vinegar
    cls = type(raised)
    try:
        args_text = repr(raised.args)[:200]
    except Exception:
        args_text = "<%d arguments, not printable>" % len(raised.args)
    wit = dict(cls=cls.__name__, args=args_text, sender=snd, receiver=rcv, custom=custom)
    desc = (cls.__name__, argshape(raised.args), tuple(sorted(snd.items())), tuple(sorted(rcv.items())), custom)
    ctx.case(desc, nontrivial=bool(raised.args) or custom == "unencodable" or bool(plain_public_attrs(raised)))
    box["exc"] = raised
    try:
        import traceback
        traceback.format_exception(type(raised), raised, None)
    except Exception:
        wit["formattable"] = False      # the interpreter's own formatter rejects this instance: no traceback text can exist
        ctx.count("unformattable_exceptions")
    n_init = len(INIT_LOG)
    nframes0 = len(pair.net.pipe("B->A").writes)
    try:
        with canary.watch(all_threads=False) as sc, canary.ImportSpy() as spy:
            try:
                root.throw()
                e = None
            except BaseException as ex:
                e = ex
    finally:
        box.pop("exc", None)
    if e is None:
        ctx.violation("C09/no-exception/%s" % cls.__name__, "the peer raised %s but the call returned normally" % cls.__name__, wit)
        return
    if isinstance(e, vnet.Stalled):
        ctx.violation("C09/stalled/%s" % cls.__name__, "the request never completed", wit)
        return
    # the frame that carried the exception record, parsed by the independent codec
    frames, _ = pair.net.frames("B->A")
    frame_rec = None
    for m in reversed(frames):
        if m["kind"] == rc.MSG_EXCEPTION:
            frame_rec = m
            break
    ctx.count("exceptions_received")
    if len(INIT_LOG) != n_init:
        ctx.violation("C09/constructor-ran", "rebuilding the exception ran __init__ of %r" % (INIT_LOG[n_init:],), wit)
    if custom == "unencodable":
        ctx.count("unencodable_exception_records")
        if isinstance(e, (EOFError, TimeoutError)):
            ctx.violation("C09/unencodable/connection-lost", "an exception that cannot be encoded ended the connection (%s)" % type(e).__name__, wit)
            return
        judge_disclosure(ctx, e, snd, frame_rec, dict(wit, formattable=True))
        return
    if custom is None:
        if cls.__module__ != "builtins":
            return
        judge_builtin(ctx, e, raised, cls, snd, rcv, frame_rec, wit)
        return
    # custom classes
    if custom in ("imported", "imported_base"):
        real = rcv["instantiate_custom_exceptions"]
        if real:
            if not isinstance(e, cls):
                ctx.violation("C09/custom/not-rebuilt", "receiver allows custom exceptions but got %s" % type(e).__name__, wit)
        else:
            if isinstance(e, cls) or not isinstance(e, vinegar.GenericException):
                ctx.violation("C09/custom/rebuilt-without-permission", "receiver forbids custom exceptions but got %s (mro %s)" % (
                    type(e).__name__, [k.__name__ for k in type(e).__mro__][:4]), wit)
            elif type(e).__name__ != "%s.%s" % (cls.__module__, cls.__name__):
                ctx.violation("C09/custom/generic-name", "generic stand-in is named %r" % type(e).__name__, wit)
    else:
        if not isinstance(e, vinegar.GenericException) or type(e).__name__ != "rv_no_such_module_c09.Vanished":
            ctx.violation("C09/custom/unknown-class", "unknown class arrived as %s" % type(e).__name__, wit)
        if "rv_no_such_module_c09" in sys.modules:
            ctx.violation("C09/custom/module-appeared", "unknown module appeared in sys.modules", wit)
        tried = [n for n in spy.names if n == "rv_no_such_module_c09"]
        if tried and not rcv["import_custom_exceptions"]:
            ctx.violation("C09/import-without-permission", "receiver tried to import the module named by the payload", wit)
    if rc.fingerprint(tuple(e.args)) != rc.fingerprint(normalise(raised.args)):
        ctx.violation("C09/args/custom", "custom exception arguments differ: %r" % (e.args,), wit)
    judge_disclosure(ctx, e, snd, frame_rec, wit)


# ---------------------------------------------------------------- importable canary modules
def canary_import_cases(ctx, rng, n):
    import rpyc
    scratch = tempfile.mkdtemp(prefix="rv_c09_")
    sys.path.insert(0, scratch)
    marker = "RV_C09_IMPORT_LOG"
    setattr(builtins, marker, [])
    log = getattr(builtins, marker)
    made = []
    try:
        for i in range(n):
            ri = i % 4
            rcv = dict(instantiate_custom_exceptions=bool(ri & 1), import_custom_exceptions=bool(ri & 2))
            modname = "rv_c09_canarymod_%d_%d" % (os.getpid(), i)
            made.append(modname)
            with open(os.path.join(scratch, modname + ".py"), "w") as f:
                f.write("import builtins\nbuiltins.%s.append(%r)\nCTOR = []\n"
                        "class CanaryErr(Exception):\n    def __init__(self, *a):\n        CTOR.append(a)\n"
                        "        Exception.__init__(self, *a)\n" % (marker, modname))
            k = type("CanaryErr", (Exception,), {"__module__": modname})
            box = {"exc": k("payload", i)}
            snd = dict(include_local_traceback=True, include_local_version=True)
            pair = vnet.ServedPair(rpyc.VoidService(), make_service(box)(), cfg_a=rcv, cfg_b=snd)
            wit = dict(receiver=rcv, module=modname)
            ctx.case(("canary-import", ri, i if i < 8 else i % 8), nontrivial=True)
            try:
                try:
                    pair.a.root.throw()
                    e = None
                except BaseException as ex:
                    e = ex
            finally:
                box.clear()
                pair.close()
            imported = modname in log
            ctx.count("canary_import_cases")
            if imported and not rcv["import_custom_exceptions"]:
                ctx.violation("C09/import-without-permission", "a module named by the exception record was imported although import_custom_exceptions is off", wit)
            if not imported and rcv["import_custom_exceptions"]:
                ctx.violation("C09/import-not-performed", "import_custom_exceptions is on but the module was not imported", wit)
            mod = sys.modules.get(modname)
            real = mod is not None and isinstance(e, getattr(mod, "CanaryErr", ()))
            want_real = rcv["import_custom_exceptions"] and rcv["instantiate_custom_exceptions"]
            if real != want_real:
                ctx.violation("C09/custom/import-matrix", "real class rebuilt=%s but configuration says %s" % (real, want_real), wit)
            if mod is not None and mod.CTOR:
                ctx.violation("C09/constructor-ran", "rebuilding a custom exception ran its __init__", wit)
            if e is None or tuple(getattr(e, "args", ())) != ("payload", i):
                ctx.violation("C09/args/custom", "canary exception args arrived as %r" % (getattr(e, "args", None),), wit)
    finally:
        sys.path.remove(scratch)
        for m in made:
            sys.modules.pop(m, None)
        delattr(builtins, marker)
        shutil.rmtree(scratch, ignore_errors=True)


# ---------------------------------------------------------------- hostile payloads
def hostile_payloads(ctx, rng, n):
    import rpyc
    from rpyc.core.async_ import AsyncResult
    scratch = tempfile.mkdtemp(prefix="rv_c09h_")
    sys.path.insert(0, scratch)
    marker = "RV_C09_HOSTILE_LOG"
    setattr(builtins, marker, [])
    log = getattr(builtins, marker)
    modname = "rv_c09_hostilemod_%d" % os.getpid()
    with open(os.path.join(scratch, modname + ".py"), "w") as f:
        f.write("import builtins\nbuiltins.%s.append('executed')\nclass Evil(Exception):\n    def __init__(self, *a):\n"
                "        builtins.%s.append('ctor')\n" % (marker, marker))
    vocab = dict(canary_module=modname, ctor_class=(__name__, "CustomErr"))
    # a package that IS loaded and resolves attributes lazily (PEP 562), as many large packages do: asking it for a name runs code
    lazy = "rv_c09_lazypkg_%d" % os.getpid()
    os.mkdir(os.path.join(scratch, lazy))
    with open(os.path.join(scratch, lazy, "__init__.py"), "w") as f:
        f.write("import importlib\ndef __getattr__(name):\n    if name.startswith('__'):\n        raise AttributeError(name)\n"
                "    return importlib.import_module(__name__ + '.' + name)\n")
    with open(os.path.join(scratch, lazy, "heavy.py"), "w") as f:
        f.write("import builtins\nbuiltins.%s.append('lazy submodule executed')\nclass Boom(Exception):\n    pass\n" % marker)
    __import__(lazy)
    # records that name something in a module which is loaded here, without custom exceptions being allowed: module-level
    # aliases of built-in classes, ordinary library exception classes, a lazily resolved attribute
    aliases = [("os", "error"), ("socket", "timeout"), ("socket", "error"), ("select", "error"), ("json", "JSONDecodeError"), ("queue", "Empty"),
               ("subprocess", "CalledProcessError"), ("io", "UnsupportedOperation"), ("zlib", "error"), ("struct", "error"), (lazy, "heavy"),
               (lazy + ".heavy", "Boom"), ("rpyc.core.vinegar", "GenericException"), ("rpyc.core.async_", "AsyncResultTimeout")]
    for m, _ in aliases:
        if not m.startswith(lazy):
            try:
                __import__(m)
            except ImportError:
                pass
    # ... and classes that ANOTHER connection of this process, one that does allow custom exceptions, has legitimately received a
    # moment ago: what one connection was allowed to rebuild gives the others no permission
    box = {}
    trusting = vnet.ServedPair(rpyc.VoidService(), make_service(box)(), cfg_a=dict(instantiate_custom_exceptions=True, import_custom_exceptions=True))
    try:
        for raised in (CustomErr("legitimate", 1), CustomBase("legitimate", 2)):
            box["exc"] = raised
            try:
                trusting.a.root.throw()
            except BaseException as e:
                if isinstance(e, type(raised)):
                    ctx.count("custom_classes_received_by_a_trusting_connection_first")
                    aliases.append((type(raised).__module__, type(raised).__name__))
    finally:
        box.clear()
        trusting.close()
    forced = [((m, k), ("arg",), (), "tb") for (m, k) in aliases]
    pair = None
    try:
        for i in range(n + len(forced)):
            if pair is None or pair.a.closed:
                if pair is not None:
                    pair.close()
                    ctx.count("connections_ended_by_payload")
                pair = vnet.ServedPair(rpyc.VoidService(), rpyc.VoidService())
            payload = forced[i] if i < len(forced) else gen.gen_exc_payload(rng, vocab)
            try:
                raw = rc.msg(rc.MSG_EXCEPTION, 0, payload)
            except TypeError:
                continue
            a = pair.a
            seq = a._get_seq_id()
            res = AsyncResult(a)
            a._request_callbacks[seq] = res
            ctx.case(("payload", rc.encode(payload)), nontrivial=True)
            n_init = len(INIT_LOG)
            n_log = len(log)
            pair.net.b.write(rc.msg(rc.MSG_EXCEPTION, seq, payload))
            outcome = None
            with canary.watch() as sc, canary.ImportSpy() as spy:
                try:
                    res.set_expiry(5)
                    res.wait()
                    outcome = "ready"
                    try:
                        res.value
                    except BaseException as e2:
                        outcome = "raised:" + type(e2).__name__
                except BaseException as e1:
                    outcome = "dispatch-raised:" + type(e1).__name__
            ctx.count("hostile_payloads")
            ctx.count("hostile_" + outcome.split(":")[0])
            built = res._obj if res._is_ready and res._is_exc else None
            if built is not None and not isinstance(built, (BaseException, str)) and not (isinstance(built, type) and issubclass(built, BaseException)):
                ctx.violation("C09/hostile/non-exception-object-built", "a crafted exception record made the receiver build an instance of %s.%s, "
                              "which is not an exception" % (type(built).__module__, type(built).__mro__[1].__name__ if len(type(built).__mro__) > 1 else type(built).__name__),
                              dict(payload=repr(payload)[:300], outcome=outcome))
            wit = dict(payload=repr(payload)[:300], outcome=outcome)
            if i < len(forced) and isinstance(built, BaseException):
                # default configuration: nothing that is not named as a built-in may come back as a real class
                from rpyc.core import vinegar as _vin
                want = "%s.%s" % payload[0]
                if not isinstance(built, _vin.GenericException) or type(built).__name__ != want:
                    ctx.violation("C09/hostile/real-class-without-permission", "a record naming %s (a name in a loaded module, not a built-in) was rebuilt as %s.%s (mro %s) although "
                                  "custom exceptions are not allowed: expected the generic stand-in named %r" % (want, type(built).__module__, type(built).__name__,
                                                                                                                 [k.__name__ for k in type(built).__mro__][:4], want), wit)
                ctx.count("alias_records")
            if len(log) != n_log:
                ctx.violation("C09/hostile/module-executed", "a crafted exception record made the receiver import/execute a module (%r)" % (log[n_log:],), wit)
            if len(INIT_LOG) != n_init:
                ctx.violation("C09/hostile/constructor-ran", "a crafted exception record ran a constructor", wit)
            bad_imports = [x for x in spy.names if x == modname or x.startswith("rv_evil_")]
            if bad_imports:
                ctx.violation("C09/hostile/import-attempt", "receiver tried to import %r named by the payload" % (bad_imports[:2],), wit)
            if i < 2:
                ctx.sample({"hostile payload": repr(payload)[:200], "outcome": outcome})
    finally:
        if pair is not None:
            pair.close()
        sys.path.remove(scratch)
        sys.modules.pop(modname, None)
        for m in [m for m in sys.modules if m == lazy or m.startswith(lazy + ".")]:
            sys.modules.pop(m, None)
        delattr(builtins, marker)
        shutil.rmtree(scratch, ignore_errors=True)


def run(ctx):
    rng = ctx.rng
    classes = [c for c in builtin_exception_classes()]
    ctx.extra["builtin_exception_classes_enumerated"] = len(classes)
    if ctx.shard[0] != 0:
        rng.shuffle(classes)
    # thorough: every shard walks the whole class x switch matrix with its own argument samples (8 per class and switch setting)
    run_matrix(ctx, rng, classes, per_class=2 if ctx.quick else 8)
    if not ctx.enough():
        switches_change_on_a_live_connection(ctx, rng, ctx.budget(12, 2400))
    if not ctx.enough():
        canary_import_cases(ctx, rng, ctx.budget(16, 3200))
    if not ctx.enough():
        hostile_payloads(ctx, rng, ctx.budget(2500, 400000))
    ctx.sample({"classes": [c.__name__ for c in classes[:12]]})
    if not ctx.counters["exceptions_received"]:
        ctx.inconclusive("no exception was observed")

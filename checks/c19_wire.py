"""C19 - bytes on the wire are those of the published 5.x protocol.

Monitors:  (1) protocol constants vs. frozen literals        (2) golden vectors (frozen file + docstring vector)
           (3) dump(v) == reference encoding, load(reference encoding) means v    (values sampled)
           (4) frames produced by the real Channel.send vs. the reference frame layout; reference frames
               (any zlib level, any fragmentation of writes) accepted by the real Channel.recv
           (5) conversations: reference client <-> real serving Connection, real client Connection <->
               reference server; every frame of the real side is checked field by field by the reference side.
"""
import json
import os
import random
import struct
import threading
import zlib

from rv import gen, refcodec as rc, refpeer, vnet
from rv.verdict import VERIF

PROPERTY = "C19"
LEVEL = "exploration"
RULE = ("constants and golden vectors compared exactly; values: boundary list + seeded plain values restricted to the "
        "format's domain (UTF-8-encodable text); packets: sizes around the compression threshold and the I/O chunk, "
        "compressible and not, compression on/off; conversations: seeded scripts of GETROOT/GETATTR/CALL/CALLATTR with "
        "kwargs/callback/DEL/exception/PING/CLOSE in both directions. distinct = distinct encoding bytes / packet size "
        "class / conversation script; non-trivial = value is not a bare singleton, conversation crosses the wire >= 4 times")
ASSUMPTIONS = ["lib/rv/refcodec.py and golden/brine_vectors.json are the published 5.x format (trusted base); the only "
               "external cross-check is the byte string printed in the brine module docstring",
               "iteration order of multi-element frozensets is not part of the format: their encodings are compared as "
               "decoded values, not bytes"]
SHARDS = {"quick": 1, "thorough": 16}
MIN_DISTINCT = {"quick": 3000, "thorough": 100000}


def F(bits):
    return struct.unpack(">d", struct.pack(">Q", bits))[0]


NS = dict(frozenset=frozenset, slice=slice, Ellipsis=Ellipsis, NotImplemented=NotImplemented, F=F, complex=complex)


def has_multi_fset(v):
    if type(v) is frozenset:
        return len(v) > 1 or any(has_multi_fset(x) for x in v)
    if type(v) is tuple:
        return any(has_multi_fset(x) for x in v)
    if type(v) is slice:
        return any(has_multi_fset(x) for x in (v.start, v.stop, v.step))
    return False


def has_surrogate(v):
    if type(v) is str:
        return any(0xd800 <= ord(c) <= 0xdfff for c in v)
    if type(v) in (tuple, frozenset):
        return any(has_surrogate(x) for x in v)
    if type(v) is slice:
        return has_surrogate((v.start, v.stop, v.step))
    return False


def check_constants(ctx):
    from rpyc.core import consts, channel, brine
    for name, val in rc.PUBLISHED_CONSTS.items():
        ctx.count("constants_compared")
        got = getattr(consts, name, "<missing>")
        if got != val:
            ctx.violation("C19/constant/%s" % name, "consts.%s is %r, published value is %r" % (name, got, val))
    ch = channel.Channel
    for name, got, want in [("COMPRESSION_THRESHOLD", ch.COMPRESSION_THRESHOLD, 3000),
                            ("FRAME_HEADER.format", ch.FRAME_HEADER.format, "!LB"),
                            ("FLUSHER", ch.FLUSHER, b"\n")]:
        ctx.count("constants_compared")
        if got != want:
            ctx.violation("C19/constant/Channel.%s" % name, "Channel.%s is %r, published %r" % (name, got, want))


def check_value(ctx, brine, v, origin):
    want = rc.encode(v)
    fpv = rc.fingerprint(v)
    trivial = len(want) <= 1
    ctx.case(want, nontrivial=not trivial)
    try:
        got = brine.dump(v)
    except Exception as e:
        ctx.violation("C19/dump-raises/%s" % type(e).__name__, "dump raised on a value of the format's domain",
                      dict(origin=origin, value=repr(v)[:200]))
        return
    if has_multi_fset(v):
        ctx.count("frozenset_compared_by_value")
        try:
            if rc.fingerprint(rc.decode(got)) != fpv:
                ctx.violation("C19/encoding-differs/frozenset", "reference decoder reads rpyc's bytes as another value",
                              dict(origin=origin, value=repr(v)[:200], got=got[:100]))
        except rc.DecodeError as e:
            ctx.violation("C19/encoding-differs/undecodable", "reference decoder rejects rpyc's bytes: %s" % e,
                          dict(origin=origin, value=repr(v)[:200], got=got[:100]))
    elif got != want:
        ctx.violation("C19/encoding-differs/%s" % _first_diff_type(v, brine),
                      "dump(v) differs from the published encoding",
                      dict(origin=origin, value=repr(v)[:200], got=got[:100], want=want[:100]))
    try:
        back = brine.load(want)
    except Exception as e:
        ctx.violation("C19/reference-bytes-rejected/%s" % type(e).__name__, "load() rejects a conforming encoding",
                      dict(origin=origin, value=repr(v)[:200], data=want[:100]))
        return
    if rc.fingerprint(back) != fpv:
        ctx.violation("C19/reference-bytes-misread/%s" % type(v).__name__, "load() reads a conforming encoding as another value",
                      dict(origin=origin, value=repr(v)[:200], back=repr(back)[:200], data=want[:100]))
    ctx.count("values_compared")


def _first_diff_type(v, brine):
    """smallest sub-value whose own encoding differs (for a mechanism key)"""
    try:
        if type(v) in (tuple, frozenset):
            for x in v:
                if not has_multi_fset(x) and brine.dump(x) != rc.encode(x):
                    return _first_diff_type(x, brine)
        if type(v) is slice:
            for x in (v.start, v.stop, v.step):
                if brine.dump(x) != rc.encode(x):
                    return _first_diff_type(x, brine)
    except Exception:
        pass
    t = type(v).__name__
    if type(v) in (str, bytes, tuple):
        n = len(v)
        t += "/len%s" % (n if n <= 5 else ("<256" if n < 256 else ">=256"))
    elif type(v) is int:
        t += "/imm" if -48 <= v < 160 else "/long"
    return t


def check_golden(ctx, brine):
    gold = json.load(open(os.path.join(VERIF, "golden", "brine_vectors.json")))
    for e, hx in gold:
        v = eval(e, dict(NS))
        want = bytes.fromhex(hx)
        ctx.count("golden_vectors")
        if rc.encode(v) != want:
            ctx.inconclusive("reference codec disagrees with its own frozen golden vector %s" % e[:60])
            continue
        ctx.case(("gold", hx), nontrivial=len(want) > 1)
        got = brine.dump(v)
        if got != want:
            ctx.violation("C19/golden/%s" % _first_diff_type(v, brine), "dump(v) differs from the frozen golden vector",
                          dict(expr=e[:200], got=got[:100], want=want[:100]))
        try:
            if rc.fingerprint(brine.load(want)) != rc.fingerprint(v):
                ctx.violation("C19/golden-load/%s" % type(v).__name__, "load(golden bytes) is another value", dict(expr=e[:200]))
        except Exception as ex:
            ctx.violation("C19/golden-load-raises/%s" % type(ex).__name__, "load(golden bytes) raised", dict(expr=e[:200]))
    doc = bytes.fromhex(rc.DOCSTRING_VECTOR_HEX)
    v = (b"he", 7, "llo", 8, (), 900, None, True, Ellipsis, 18.2, 18.2j + 13, slice(1, 2, 3), frozenset([5, 6, 7]),
         NotImplemented)
    ctx.count("golden_vectors")
    try:
        if rc.fingerprint(brine.load(doc)) != rc.fingerprint(v):
            ctx.violation("C19/docstring-vector", "the byte string published in the brine docstring no longer decodes to its value")
    except Exception as e:
        ctx.violation("C19/docstring-vector", "the docstring byte string is rejected: %r" % e)
    if rc.fingerprint(rc.decode(doc)) != rc.fingerprint(v):
        ctx.inconclusive("reference decoder misreads the docstring vector")
    # prefix up to (not including) the multi-element frozenset is order independent: compare bytes
    head = v[:12]
    if brine.dump(head)[2:] != doc[2:2 + len(brine.dump(head)) - 2] or rc.encode(head) != brine.dump(head):
        ctx.violation("C19/docstring-vector-prefix", "dump of the docstring example (order-independent part) differs from the published bytes")


class RecStream(object):
    """minimal recording stream under the real Channel"""
    MAX_IO_CHUNK = 64000

    def __init__(self, data=b"", sizes=None):
        self.writes = []
        self.buf = bytearray(data)
        self.closed = False

    def write(self, data):
        self.writes.append(bytes(data))

    def read(self, count):
        if len(self.buf) < count:
            raise EOFError("short")
        d = bytes(self.buf[:count])
        del self.buf[:count]
        return d

    def close(self):
        self.closed = True


def check_frames(ctx, rng, n):
    from rpyc.core.channel import Channel
    sizes = [0, 1, 2, 100, 2999, 3000, 3001, 3002, 5000, 63993, 63994, 63995, 63996, 64000, 64001, 70000, 127999, 128000,
             128001, 200000]
    # every listed size with and without compression, and incompressible payloads whose COMPRESSED body lands on each length around
    # the I/O chunk (the frame's second write is then empty, one byte, two bytes ...)
    fixed = [(sz, False, None) for sz in sizes] + [(sz, True, None) for sz in sizes]
    for target in range(63990, 64003):
        nbytes = target - 26
        for _ in range(10):
            pl = random.Random("c19/zc/%d" % nbytes).randbytes(nbytes)
            c = len(zlib.compress(pl, 1))
            if c == target:
                fixed.append((nbytes, True, pl))
                ctx.count("frames_whose_compressed_body_is_at_the_chunk_boundary")
                break
            nbytes += target - c
    for i in range(n + len(fixed)):
        forced_payload = None
        if i < len(fixed):
            size, compress, forced_payload = fixed[i]
            compressible = (i % 2 == 0) and not compress
        else:
            size = max(0, rng.choice(sizes) + rng.randrange(-3, 4))
            compressible = rng.random() < .5
            compress = rng.random() < .7
        payload = forced_payload if forced_payload is not None else ((b"ab" * (size // 2 + 1))[:size] if compressible else rng.randbytes(size))
        ctx.case(("frame", size, compressible, compress))
        st = RecStream()
        Channel(st, compress).send(payload)
        raw = b"".join(st.writes)
        ctx.count("frames_sent_by_real_channel")
        key = None
        if len(raw) < 6:
            key, why = "short", "frame shorter than header+newline"
        else:
            ln, flag = struct.unpack(">IB", raw[:5])
            body, tail = raw[5:-1], raw[-1:]
            if ln != len(body):
                key, why = "length-field", "length field %d but %d payload bytes follow" % (ln, len(body))
            elif tail != b"\n":
                key, why = "newline", "frame does not end with a newline"
            elif flag not in (0, 1):
                key, why = "flag", "flag byte %r" % flag
            elif flag == 1 and (not compress or size <= 3000):
                key, why = "compressed-below-threshold", "compressed a %d-byte payload (compress=%s)" % (size, compress)
            elif flag == 0 and compress and size > 3000:
                key, why = "not-compressed-above-threshold", "did not compress a %d-byte payload" % size
            elif flag == 0 and body != payload:
                key, why = "payload-altered", "uncompressed payload altered"
            elif flag == 1:
                try:
                    if zlib.decompress(body) != payload:
                        key, why = "payload-altered", "compressed payload decompresses to something else"
                except zlib.error as e:
                    key, why = "zlib", "payload is not valid zlib: %s" % e
        if key:
            ctx.violation("C19/frame/%s" % key, why, dict(size=size, compress=compress, head=raw[:16]))
        # reference frames (any zlib level) must be accepted
        level = rng.choice([1, 6, 9])
        ref = rc.frame(payload, compress=rng.random() < .7, level=level)
        st2 = RecStream(ref + ref)
        ch = Channel(st2, compress)
        try:
            a, b = ch.recv(), ch.recv()
            if a != payload or b != payload:
                ctx.violation("C19/frame-recv/altered", "real Channel.recv returns other bytes for a conforming frame",
                              dict(size=size, level=level))
        except Exception as e:
            ctx.violation("C19/frame-recv/%s" % type(e).__name__, "real Channel.recv rejects a conforming frame",
                          dict(size=size, level=level, error=repr(e)))
        ctx.count("reference_frames_received")


# ---------------------------------------------------------------- conversations
def _exc_names():
    import builtins
    out = []
    for n in sorted(dir(builtins)):
        k = getattr(builtins, n)
        if isinstance(k, type) and issubclass(k, Exception) and k.__name__ == n and not issubclass(k, (UnicodeError, BaseExceptionGroup)):
            try:
                k()
                k("why")
                k("x", 3)
            except Exception:
                continue
            out.append(n)
    return out


EXC_NAMES = _exc_names()


def _service():
    import rpyc

    class Svc(rpyc.Service):
        def __init__(self):
            self.log = []

        def exposed_add(self, a, b=0, **kw):
            self.log.append(("add", a, b, tuple(sorted(kw.items()))))
            return a + b + sum(kw.values())

        def exposed_boom(self, msg):
            raise ValueError(msg, 7)

        def exposed_apply(self, fn, x):
            self.log.append(("apply", x))
            return fn(x) * 2

        def exposed_echo(self, *a):
            return a

        def exposed_raise_named(self, name, args):
            import builtins
            raise getattr(builtins, name)(*args)

        def exposed_stop(self):
            raise StopIteration()
    return Svc


def convo_ref_client(ctx, rng, idx):
    """reference client <-> real serving Connection"""
    Svc = _service()
    svc = Svc()
    net = vnet.Net()
    from rpyc.core.channel import Channel
    compress = rng.random() < .5
    conn = svc._connect(Channel(net.b, compress), {})
    exc = []

    def serve():
        try:
            conn.serve_all()
        except BaseException as e:
            exc.append(e)
    th = threading.Thread(target=serve, daemon=True, name="rv-server-conv")
    th.start()
    peer = refpeer.RefPeer(net.a, root=None, compress=rng.random() < .5)
    H = rc.HANDLERS
    bad = []

    def expect(cond, key, what, **wit):
        if not cond:
            bad.append((key, what, wit))
    steps = 0
    try:
        m = peer.request(H["GETROOT"])
        steps += 1
        expect(m["kind"] == rc.MSG_REPLY and type(m["args"]) is tuple and m["args"][0] == rc.LABEL_REMOTE_REF,
               "getroot-reply", "GETROOT is not answered by a REMOTE_REF reply", got=repr(m["args"])[:200])
        root_id = tuple(m["args"][1])
        expect(len(root_id) == 3 and type(root_id[0]) is str and type(root_id[1]) is int and root_id[2] == id(svc),
               "id-pack-layout", "id pack is not (name, class id, instance id)", got=repr(root_id))
        root = refpeer.PeerRef(root_id)
        script = [rng.choice(["callattr", "getattr_call", "kwargs", "exception", "callback", "ping", "echo", "stop", "exception_class", "exception_class"])
                  for _ in range(rng.randrange(3, 9))]
        forced = []
        if idx == 0:
            # the first conversation raises EVERY built-in exception class once without and once with arguments
            forced = [(n, a) for n in EXC_NAMES for a in ((), ("why",))]
            script = ["exception_class"] * len(forced) + script
        for op in script:
            steps += 1
            if op == "callattr":
                a, b = rng.randrange(-2 ** 70, 2 ** 70), rng.choice([0, 1, -49, 160, 10 ** 300, rng.randrange(-2 ** 40, 2 ** 40)])
                m = peer.request(H["CALLATTR"], root, "add", (a, b), ())
                expect(m["kind"] == rc.MSG_REPLY and m["args"] == (rc.LABEL_VALUE, a + b), "callattr-reply",
                       "CALLATTR add: wrong reply", got=repr(m["args"])[:200])
            elif op == "getattr_call":
                m = peer.request(H["GETATTR"], root, "add")
                expect(m["kind"] == rc.MSG_REPLY and m["args"][0] == rc.LABEL_REMOTE_REF, "getattr-reply",
                       "GETATTR of a method is not a REMOTE_REF", got=repr(m["args"])[:200])
                if m["kind"] == rc.MSG_REPLY and m["args"][0] == rc.LABEL_REMOTE_REF:
                    meth = refpeer.PeerRef(tuple(m["args"][1]))
                    m2 = peer.request(H["CALL"], meth, (5, 6), ())
                    expect(m2["args"] == (rc.LABEL_VALUE, 11), "call-reply", "CALL of bound method: wrong reply",
                           got=repr(m2["args"])[:200])
                    m3 = peer.request(H["DEL"], meth, 1)
                    expect(m3["kind"] == rc.MSG_REPLY and m3["args"] == (rc.LABEL_VALUE, None), "del-reply",
                           "DEL not acknowledged with None", got=repr(m3["args"])[:200])
                    m4 = peer.request(H["CALL"], meth, (5, 6), ())
                    expect(m4["kind"] == rc.MSG_EXCEPTION, "del-effect", "object still callable after its only reference was released",
                           got=repr(m4["args"])[:200])
            elif op == "kwargs":
                m = peer.request(H["CALLATTR"], root, "add", (1,), (("b", 2), ("zz", 40)))
                expect(m["args"] == (rc.LABEL_VALUE, 43), "kwargs-reply", "keyword arguments not honoured",
                       got=repr(m["args"])[:200])
            elif op == "exception":
                m = peer.request(H["CALLATTR"], root, "boom", ("xy",), ())
                ok = (m["kind"] == rc.MSG_EXCEPTION and type(m["args"]) is tuple and len(m["args"]) == 4
                      and m["args"][0] == ("builtins", "ValueError") and m["args"][1] == ("xy", 7)
                      and type(m["args"][2]) is tuple and type(m["args"][3]) is str)
                expect(ok, "exception-record", "exception record layout differs from ((module, name), args, attrs, traceback)",
                       got=repr(m["args"])[:300])
            elif op == "stop":
                m = peer.request(H["CALLATTR"], root, "stop", (), ())
                expect(m["kind"] == rc.MSG_EXCEPTION and m["args"] == rc.EXC_STOP_ITERATION, "stopiteration",
                       "StopIteration is not sent as the published short form", got=repr(m["args"])[:100])
            elif op == "callback":
                calls = []

                def cb(p, a, kw, calls=calls):
                    calls.append(a)
                    return a[0] + 1
                fn = refpeer.ToyObject("builtins.function", 1000 + idx, 5000 + steps, call=cb)
                x = rng.randrange(100)
                m = peer.request(H["CALLATTR"], root, "apply", (fn, x), ())
                expect(calls == [(x,)], "callback-invoked", "callback not invoked exactly once with the argument", got=repr(calls))
                expect(m["args"] == (rc.LABEL_VALUE, (x + 1) * 2), "callback-reply", "wrong result after callback",
                       got=repr(m["args"])[:200])
            elif op == "exception_class":
                # the payload of MSG_EXCEPTION has two published shapes: the integer 1 for an argument-less StopIteration,
                # the record ((module, name), args, attributes, traceback text) for everything else
                if forced:
                    name, eargs = forced.pop()
                else:
                    name = rng.choice(EXC_NAMES)
                    eargs = rng.choice([(), (), ("why",), ("x", 3)])
                m = peer.request(H["CALLATTR"], root, "raise_named", (name, eargs), ())
                pl = m["args"]
                if name == "StopIteration" and not eargs:
                    ok = m["kind"] == rc.MSG_EXCEPTION and pl == 1 and type(pl) is int
                else:
                    ok = (m["kind"] == rc.MSG_EXCEPTION and type(pl) is tuple and len(pl) == 4 and pl[0] == ("builtins", name)
                          and pl[1] == eargs and type(pl[2]) is tuple and type(pl[3]) is str)
                expect(ok, "exception-payload/%s" % ("no-args" if not eargs else "args"), "a %s%r raised by a handler travels as %s, which is not a published "
                       "MSG_EXCEPTION payload" % (name, eargs, repr(pl)[:120]), got=repr(pl)[:200])
                ctx.count("exception_classes_on_the_wire")
            elif op == "ping":
                data = gen.gen_text(rng, surrogates=False)
                m = peer.request(H["PING"], data)
                expect(m["args"] == (rc.LABEL_VALUE, data), "ping", "PING does not echo")
            elif op == "echo":
                v = gen.gen_plain(rng, 2, surrogates=False)
                m = peer.request(H["CALLATTR"], root, "echo", (v, 1), ())
                expect(m["kind"] == rc.MSG_REPLY and m["args"][0] == rc.LABEL_VALUE and
                       rc.fingerprint(m["args"][1]) == rc.fingerprint((v, 1)), "echo", "value not echoed as LABEL_VALUE tuple",
                       got=repr(m["args"])[:200])
        peer.w.send(rc.MSG_REQUEST, 99999, (H["CLOSE"], (rc.LABEL_VALUE, ())))
        th.join(10)
        expect(not th.is_alive() and conn.closed, "close", "CLOSE request does not end the serving connection")
    except vnet.Stalled:
        # the reference client waits for the response to its last request. Verdict by state: the serving thread has consumed
        # every byte sent to it and is parked waiting for more input, and no frame bearing that number was transmitted
        last = peer.log[-1] if peer.log else None
        frames, _ = net.frames("B->A")
        answered = any(m["kind"] in (rc.MSG_REPLY, rc.MSG_EXCEPTION) and m["seq"] == peer.seq for m in frames)
        if th.is_alive() and not answered and vnet.idle_in_poll(th, net.b):
            bad.append(("request-not-answered/%s" % (last[1] if last else "?",), "a %s request of a peer speaking the published protocol is "
                        "never answered: the serving side consumed it and went back to waiting for input" % (last[1] if last else "?",), {}))
        else:
            ctx.inconclusive("reference-client conversation stalled in a state that is not decisive (thread alive=%s answered=%s)" % (th.is_alive(), answered))
    except Exception as e:
        bad.append(("conversation-error/%s" % type(e).__name__, "conversation with the reference client broke: %r" % (e,), {}))
    finally:
        net.a.close()
        th.join(5)
    for p in peer.problems:
        bad.append(("frame/" + p.split(" ")[0], p, {}))
    for key, what, wit in bad:
        ctx.violation("C19/refclient/%s" % key, what, dict(script=script if "script" in dir() else None, **wit))
    ctx.case(("refclient", tuple(script) if "script" in dir() else idx), nontrivial=steps >= 4)
    ctx.count("conversations_ref_client")
    ctx.count("frames_checked_field_by_field", len(peer.w.received))
    return script if "script" in dir() else None


def convo_ref_server(ctx, rng, idx):
    """real client Connection <-> reference server"""
    import rpyc
    from rpyc.core.channel import Channel
    net = vnet.Net()
    seen = []

    def add(p, a, kw):
        seen.append(("add", a, tuple(sorted(kw.items()))))
        return sum(a) + sum(kw.values())

    def boom(p, a, kw):
        raise refpeer.ToyError("builtins", "KeyError", (a[0],))

    def give(p, a, kw):
        return refpeer.ToyObject("builtins.list", 77, 9000 + idx, methods=(("__len__", None),))

    def twice(p, a, kw):
        fn = a[0]
        m = p.request(rc.HANDLERS["CALL"], fn, (a[1],), ())
        if m["kind"] != rc.MSG_REPLY:
            raise refpeer.ToyError("builtins", "RuntimeError", ("callback failed",))
        return m["args"][1] * 2
    methods = {}
    for i, (name, f) in enumerate([("add", add), ("boom", boom), ("give", give), ("twice", twice)]):
        methods["exposed_" + name] = refpeer.ToyObject("builtins.method", 50, 600 + i, call=f)
        methods[name] = methods["exposed_" + name]
    root = refpeer.ToyObject("toy.Root", 4242, 4343, methods=tuple((n, None) for n in methods), attrs=methods)
    peer = refpeer.RefPeer(net.b, root=root, compress=rng.random() < .5)
    exc = []

    def serve():
        try:
            peer.serve_until_closed()
        except BaseException as e:
            exc.append(e)
    th = threading.Thread(target=serve, daemon=True, name="rv-server-conv")
    th.start()
    conn = rpyc.VoidService()._connect(Channel(net.a, rng.random() < .5), {})
    bad = []
    script = [rng.choice(["add", "kwargs", "boom", "give", "twice", "ping"]) for _ in range(rng.randrange(3, 8))]
    try:
        r = conn.root
        for op in script:
            if op == "add":
                a, b = rng.randrange(-2 ** 70, 2 ** 70), rng.choice([0, 1, -49, 160, 10 ** 300, rng.randrange(-2 ** 40, 2 ** 40)])
                if r.add(a, b) != a + b:
                    bad.append(("add", "wrong sum through reference server"))
            elif op == "kwargs":
                if r.add(1, k=2, zz=3) != 6:
                    bad.append(("kwargs", "keyword arguments lost"))
                if seen[-1] != ("add", (1,), (("k", 2), ("zz", 3))):
                    bad.append(("kwargs-wire", "keyword arguments arrive as %r" % (seen[-1],)))
            elif op == "boom":
                try:
                    r.boom("k1")
                    bad.append(("boom", "exception message from the reference server did not raise"))
                except KeyError as e:
                    if e.args != ("k1",):
                        bad.append(("boom-args", "exception args %r" % (e.args,)))
            elif op == "give":
                o = r.give()
                if not isinstance(o, rpyc.BaseNetref) or o.____id_pack__ != ("builtins.list", 77, 9000 + idx):
                    bad.append(("give", "REMOTE_REF reply is not a proxy with that id pack"))
                del o
            elif op == "twice":
                x = rng.randrange(50)
                if r.twice(lambda v: v + 3, x) != (x + 3) * 2:
                    bad.append(("twice", "callback through the reference server gives a wrong result"))
            elif op == "ping":
                conn.ping("hello")
        del r
        conn.close()
        th.join(10)
        if th.is_alive() or not peer.closed:
            bad.append(("close", "real client's close() is not seen as a CLOSE request"))
    except Exception as e:
        bad.append(("conversation-error/%s" % type(e).__name__, "conversation with the reference server broke: %r" % (e,)))
    finally:
        net.a.close()
        net.b.close()
        th.join(5)
    if exc:
        bad.append(("server-error/%s" % type(exc[0]).__name__, "reference server could not parse the real client's bytes: %r" % (exc[0],)))
    # field-by-field validation of every frame the real client produced
    for m in peer.w.received:
        ctx.count("frames_checked_field_by_field")
        if m["kind"] == rc.MSG_REQUEST:
            ok = (type(m["args"]) is tuple and len(m["args"]) == 2 and type(m["args"][0]) is int and
                  m["args"][0] in rc.HANDLER_NAMES and type(m["args"][1]) is tuple and len(m["args"][1]) == 2
                  and m["args"][1][0] in (rc.LABEL_VALUE, rc.LABEL_TUPLE))
            if not ok:
                bad.append(("request-layout", "request %r is not (handler, boxed args)" % (m["args"],)))
        elif m["kind"] not in (rc.MSG_REPLY, rc.MSG_EXCEPTION):
            bad.append(("message-kind", "unknown message kind %r" % (m["kind"],)))
    for p in peer.problems:
        bad.append(("frame/" + p.split(" ")[0], p))
    for key, what in bad:
        ctx.violation("C19/refserver/%s" % key, what, dict(script=script))
    ctx.case(("refserver", tuple(script)), nontrivial=len(peer.w.received) >= 4)
    ctx.count("conversations_ref_server")
    return script


def check_beyond_text_limit(ctx, brine):
    """integers with more decimal digits than the interpreter converts (sys.get_int_max_str_digits(), 4300 by default): the
    published format writes integers outside the immediate range as ASCII decimal digits and nothing else. The real encoder
    may refuse such a value (nothing is transmitted, the requester gets an exception) - but whatever it does emit must be
    what a 5.x peer can read: tag, length, decimal digits."""
    import sys as _sys
    limit = _sys.get_int_max_str_digits() if hasattr(_sys, "get_int_max_str_digits") else 0
    if not limit:
        ctx.count("int_text_limit_disabled")
        return
    for v in (10 ** (limit + 7), -(10 ** (limit + 700)), (1 << (4 * limit)) + 12345, (-(1 << 20000), "in a tuple")):
        try:
            data = brine.dump(v)
        except (ValueError, OverflowError):
            ctx.count("beyond_text_limit_refused")
            continue
        except Exception as e:
            ctx.violation("C19/beyond-text-limit/%s" % type(e).__name__, "dump() of an integer beyond the text limit raised %s" % type(e).__name__, {})
            continue
        ctx.count("beyond_text_limit_encoded")
        # find the integer's digits: TAG_INT_L4 (0x17) + 4-byte length + text
        i = data.find(b"\x17")
        body = data[i + 5:i + 5 + 64] if i >= 0 else data[:64]
        if i < 0 or not all(c in b"-0123456789" for c in body):
            ctx.violation("C19/beyond-text-limit/not-decimal", "an integer beyond the interpreter's text limit is transmitted as %r..., which is not "
                          "tag + length + ASCII decimal digits: no published 5.x peer can read it" % (data[max(i, 0):max(i, 0) + 24],), {})


def run(ctx):
    from rv import suiterun
    suiterun.for_check(ctx, PROPERTY, ['dump_compared_bytewise', 'payloads_sent'])
    from rpyc.core import brine
    rng = ctx.rng
    if ctx.shard[0] == 0:
        check_constants(ctx)
        check_golden(ctx, brine)
        check_beyond_text_limit(ctx, brine)
        for i, v in enumerate(gen.boundary_values(surrogates=False)):
            check_value(ctx, brine, v, "boundary[%d]" % i)
    for i in range(ctx.budget(12000, 10000000)):
        if ctx.enough():
            return
        v = gen.gen_plain(rng, surrogates=False)
        check_value(ctx, brine, v, "plain#%d" % i)
        if i < 2:
            ctx.sample({"value": repr(v)[:160], "hex": rc.encode(v)[:40].hex()})
    if ctx.enough():
        return
    check_frames(ctx, rng, ctx.budget(80, 16000))
    for i in range(ctx.budget(100, 100000)):
        if ctx.enough():
            return
        s = convo_ref_client(ctx, rng, i)
        if i < 2:
            ctx.sample({"reference client script": s})
    for i in range(ctx.budget(100, 100000)):
        if ctx.enough():
            return
        s = convo_ref_server(ctx, rng, i)
        if i < 1:
            ctx.sample({"reference server script": s})
    if not ctx.counters["frames_checked_field_by_field"]:
        ctx.inconclusive("no conversation frame was observed")

"""C08 - every request gets exactly one response, delivered to its own requester.

Offline checker over the frame ledger of an in-memory link between two real Connections (frames re-parsed by
the independent codec) + client-side (seq, token) correlation + handler invocation tokens.
"""
import sys

from rv import refcodec as rc, vnet

PROPERTY = "C08"
LEVEL = "exploration"
RULE = ("seeded request streams of 4-30 requests mixing synchronous, asynchronous (<= 16 outstanding, collected in "
        "seeded order) and nested (callback into the requester, depth <= 3) requests; handler outcomes: value, reference, "
        "exception, result the serializer rejects while encoding (integer beyond the interpreter's text limit, nesting "
        "beyond the recursion limit, lone-surrogate text), exception whose arguments cannot be encoded, arguments that "
        "cannot be decoded (unknown local reference, invalid label, wrong arity, unknown handler); plus runs in which 2-3 threads "
        "serve one connection at once (serve_threaded style) under the controlled scheduler with pre-emption inside _send and "
        "_dispatch_request, a third of them with a second thread serving the REQUESTER's connection too (pre-emption inside "
        "_async_request and _seq_request_callback). distinct = sequence of (mode, outcome) pairs / switch trace; non-trivial = contains at least one anomalous "
        "outcome or nesting / a pre-emption")
ASSUMPTIONS = ["in-memory transport; peer B served by one thread running the real serve_all(), peer A single driver thread",
               "frames are parsed by lib/rv/refcodec.py, not by rpyc"]
SHARDS = {"quick": 1, "thorough": 16}
MIN_DISTINCT = {"quick": 100, "thorough": 5000}

WAIT = 5      # wall-clock bound on waiting for one response; its firing alone is never the verdict (the ledger is)
OUTCOMES = ["value", "value", "ref", "exc", "unenc_bigint", "unenc_deep", "surrogate", "exc_unenc_args", "exc_custom",
            "exc_unformattable", "nested", "nested_exc", "bad_localref", "bad_label", "bad_arity", "bad_handler", "stopiter",
            "exc_base", "exc_base_custom"]
ANOMALOUS = {"exc_unformattable", "unenc_bigint", "unenc_deep", "exc_unenc_args", "bad_localref", "bad_label", "bad_arity", "bad_handler",
             "surrogate", "nested", "nested_exc", "exc_base", "exc_base_custom"}


def make_service(log):
    import rpyc

    class Weird(Exception):
        pass

    class Abort(BaseException):
        """an application's own 'unwind everything' signal"""

    class Svc(rpyc.Service):
        def exposed_work(self, token, outcome, cb=None, depth=0):
            log.append(token)
            if outcome == "value":
                return ("v", token)
            if outcome == "ref":
                return [token]
            if outcome == "exc":
                raise KeyError(token)
            if outcome == "stopiter":
                raise StopIteration()
            if outcome == "unenc_bigint":
                return 10 ** (sys.get_int_max_str_digits() + 10)
            if outcome == "unenc_deep":
                d = ()
                for _ in range(5000):
                    d = (d,)
                return d
            if outcome == "surrogate":
                return ("\udc80" + token, token)
            if outcome == "exc_unenc_args":
                raise ValueError(10 ** (sys.get_int_max_str_digits() + 10), token)
            if outcome == "exc_unformattable":
                raise IndentationError((1, token), "b  abb")      # the interpreter's own traceback formatter raises on this
            if outcome == "exc_custom":
                raise Weird(token)
            if outcome == "exc_base":
                raise GeneratorExit(token)            # a failure that is not an Exception subclass (as CancelledError is)
            if outcome == "exc_base_custom":
                raise Abort(token)
            if outcome in ("nested", "nested_exc"):
                if depth <= 0:
                    if outcome == "nested_exc":
                        raise LookupError(token)
                    return ("v", token)
                return ("n", cb(token, outcome, depth - 1))
            raise AssertionError(outcome)
    return Svc


def expected(outcome, token):
    """what the requester must observe: ('value', v) | ('exc', class-or-None) | ('any-exc',)"""
    if outcome == "value":
        return ("value", ("v", token))
    if outcome == "ref":
        return ("ref", [token])
    if outcome == "exc":
        return ("exc", KeyError)
    if outcome == "stopiter":
        return ("exc", StopIteration)
    if outcome == "exc_base":
        return ("exc", GeneratorExit)
    if outcome == "exc_base_custom":
        return ("any-exc",)
    if outcome == "surrogate":
        return ("value", ("\udc80" + token, token))
    if outcome in ("unenc_bigint", "unenc_deep", "exc_unenc_args", "exc_custom", "exc_unformattable", "bad_localref", "bad_label", "bad_arity",
                   "bad_handler"):
        return ("any-exc",)
    raise AssertionError(outcome)


def run_stream(ctx, rng, idx):
    import rpyc
    from rpyc.core.async_ import AsyncResult
    from rpyc.core import consts
    log = []
    Svc = make_service(log)
    n = rng.randrange(4, 31)
    plan = []
    for i in range(n):
        mode = rng.choice(["sync", "sync", "async"])
        outcome = rng.choice(OUTCOMES)
        plan.append((mode, outcome))
    desc = tuple(plan)
    bad = []          # (key, what)
    # every other stream: the serving side has a logger configured, as every connection made by a Server has (log records are
    # built - their arguments evaluated - whatever the level)
    cfg_b = {}
    if idx % 2:
        import logging
        lg = logging.getLogger("rv-c08-quiet")
        lg.propagate = False
        lg.setLevel(logging.CRITICAL + 1)
        cfg_b = {"logger": lg}
        ctx.count("streams_with_a_logger_on_the_serving_side")
    pair = vnet.ServedPair(rpyc.VoidService(), Svc(), cfg_a={"sync_request_timeout": WAIT}, cfg_b=cfg_b)
    a, b, net = pair.a, pair.b, pair.net
    pending = []      # (token, outcome, AsyncResult)
    timeouts = []
    cb_log = []
    counter = [0]

    def judge(token, outcome, kind, val):
        exp = expected_for(outcome, token)
        if kind == "exc" and isinstance(val, TimeoutError):
            timeouts.append(token)
            return
        if exp[0] == "value":
            if kind != "value" or rc.fingerprint(val) != rc.fingerprint(exp[1]):
                bad.append(("wrong-result/%s" % outcome, "request %s (%s) completed with %s %r, expected %r" % (token, outcome, kind, val, exp[1])))
        elif exp[0] == "ref":
            try:
                ok = kind == "value" and list(val) == exp[1]
            except Exception:
                ok = False
            if not ok:
                bad.append(("wrong-result/ref", "request %s returned %s %r, expected a reference to %r" % (token, kind, val, exp[1])))
        elif exp[0] == "exc":
            if kind != "exc" or not (isinstance(val, exp[1]) or val is exp[1]):
                bad.append(("wrong-exception/%s" % outcome, "request %s (%s) completed with %s %r, expected %s" % (token, outcome, kind, val, exp[1].__name__)))
        elif exp[0] == "any-exc":
            if kind != "exc":
                bad.append(("no-exception/%s" % outcome, "request %s (%s) completed with %s %r, expected an exception" % (token, outcome, kind, val)))
            elif isinstance(val, TimeoutError):
                timeouts.append(token)
            elif isinstance(val, EOFError):
                bad.append(("connection-lost/%s" % outcome, "request %s (%s) ended with %s: the connection did not survive" % (token, outcome, type(val).__name__)))

    def expected_for(outcome, token):
        if outcome == "nested":
            return ("value", nested_value(token, depth_of[token]))
        if outcome == "nested_exc":
            return ("exc", LookupError)
        return expected(outcome, token)

    def nested_value(token, depth):
        v = ("v", token)
        for _ in range(depth):
            v = ("n", v)
        return v
    depth_of = {}

    def callback(token, outcome, depth):
        cb_log.append((token, depth))
        return root.work(token, outcome, callback, depth)

    def raw_request(kind_of_bad, token):
        """hand-crafted request frame whose arguments cannot be decoded; answered through the real receive path"""
        seq = a._get_seq_id()
        res = AsyncResult(a)
        a._request_callbacks[seq] = res
        H = rc.HANDLERS
        if kind_of_bad == "bad_localref":
            boxed = (rc.LABEL_TUPLE, ((rc.LABEL_LOCAL_REF, ("no.such", 12345, 67890)), (rc.LABEL_VALUE, token)))
            args = (H["GETATTR"], boxed)
        elif kind_of_bad == "bad_label":
            args = (H["PING"], (rc.LABEL_TUPLE, ((99, token),)))
        elif kind_of_bad == "bad_arity":
            args = (H["PING"], (rc.LABEL_VALUE, (token, token, token)))
        else:
            args = (777, (rc.LABEL_VALUE, (token,)))
        net.a.write(rc.msg(rc.MSG_REQUEST, seq, args))
        res.set_expiry(WAIT)
        return res

    def collect(token, outcome, res):
        try:
            v = res.value
            judge(token, outcome, "value", v)
        except BaseException as e:
            if isinstance(e, vnet.Stalled):
                bad.append(("stalled/%s" % outcome, "request %s (%s) never completed" % (token, outcome)))
            else:
                judge(token, outcome, "exc", e)

    try:
        root = a.root
        awork = rpyc.async_(root.work)
        for i, (mode, outcome) in enumerate(plan):
            counter[0] += 1
            token = "t%d_%d" % (idx, counter[0])
            if outcome in ("nested", "nested_exc"):
                depth_of[token] = rng.randrange(1, 4)
            if outcome.startswith("bad_"):
                res = raw_request(outcome, token)
            elif outcome in ("nested", "nested_exc"):
                if mode == "async":
                    res = awork(token, outcome, callback, depth_of[token])
                    res.set_expiry(WAIT)
                else:
                    res = None
            else:
                res = awork(token, outcome)
                res.set_expiry(WAIT)
            if res is None:
                try:
                    v = root.work(token, outcome, callback, depth_of[token])
                    judge(token, outcome, "value", v)
                except BaseException as e:
                    judge(token, outcome, "exc", e)
            elif mode == "sync":
                collect(token, outcome, res)
            else:
                pending.append((token, outcome, res))
                if len(pending) >= 16 or rng.random() < .3:
                    rng.shuffle(pending)
                    while pending and rng.random() < .8:
                        collect(*pending.pop())
            if timeouts:
                break
            if outcome in ANOMALOUS or rng.random() < .1:
                # sentinel: the connection must remain usable
                counter[0] += 1
                st = "s%d_%d" % (idx, counter[0])
                try:
                    if root.work(st, "value") != ("v", st):
                        bad.append(("sentinel-wrong", "sentinel request after %s returned a wrong value" % outcome))
                except BaseException as e:
                    bad.append(("sentinel-failed/%s" % outcome, "connection unusable after a %s request: %s" % (outcome, type(e).__name__)))
                    break
        rng.shuffle(pending)
        while pending and not timeouts:
            collect(*pending.pop())
    except BaseException as e:
        bad.append(("stream-aborted/%s" % type(e).__name__, "request stream aborted: %r" % (e,)))
    # drop every proxy the harness holds before the ledger is judged (DEL requests are requests too)
    root = awork = None
    pending = None
    try:
        a.ping()
    except Exception:
        pass
    was_open = not a.closed and not b.closed
    pair.close()
    if pair.server_exc is not None:
        bad.append(("server-died/%s" % type(pair.server_exc).__name__, "serving side terminated with %r" % (pair.server_exc,)))
    # ---- offline ledger check
    for req_dir, resp_dir in (("A->B", "B->A"), ("B->A", "A->B")):
        reqs, fp1 = net.frames(req_dir)
        resps, fp2 = net.frames(resp_dir)
        if fp1.errors or fp2.errors:
            bad.append(("ledger-frame-error", "malformed frame on the wire: %r" % ((fp1.errors + fp2.errors)[:2],)))
        by_seq = {}
        for m in resps:
            if m["kind"] in (rc.MSG_REPLY, rc.MSG_EXCEPTION):
                by_seq.setdefault(m["seq"], []).append(m)
        seen_seq = set()
        for m in reqs:
            if m["kind"] != rc.MSG_REQUEST:
                continue
            ctx.count("request_frames")
            if m["seq"] in seen_seq:
                bad.append(("seq-reused", "sequence number %r used by two requests in %s" % (m["seq"], req_dir)))
            seen_seq.add(m["seq"])
            if m.get("handler") == rc.HANDLERS["CLOSE"]:
                continue
            got = by_seq.get(m["seq"], [])
            if len(got) == 0 and was_open:
                bad.append(("no-response/%s" % rc.HANDLER_NAMES.get(m.get("handler"), "other"),
                            "request seq %r (%s) in %s has no response frame" % (m["seq"], rc.HANDLER_NAMES.get(m.get("handler"), m.get("handler")), req_dir)))
            elif len(got) > 1:
                bad.append(("duplicate-response", "request seq %r has %d response frames" % (m["seq"], len(got))))
            ctx.count("responses_matched", len(got))
        for seq in by_seq:
            if seq not in seen_seq:
                bad.append(("unsolicited-response", "response with seq %r that no request used (%s)" % (seq, resp_dir)))
    dup = [t for t in set(log) if log.count(t) > 1 and not t_in_nested(t, depth_of)]
    if dup:
        bad.append(("handler-ran-twice", "handler invoked more than once for %r" % (dup[:3],)))
    for t, d in depth_of.items():
        if log.count(t) > d + 1:
            bad.append(("handler-ran-twice", "nested handler chain for %s ran %d times, expected <= %d" % (t, log.count(t), d + 1)))
    ctx.count("handler_invocations", len(log))
    ctx.count("callbacks_into_requester", len(cb_log))
    if timeouts and not bad:
        ctx.inconclusive("a request timed out after %ss although the ledger shows its response (slow machine?)" % WAIT)
    ctx.count("requests_timed_out", len(timeouts))
    for key, what in bad:
        ctx.violation("C08/" + key, what, dict(stream=[list(p) for p in plan]))
    ctx.case(desc, nontrivial=any(o in ANOMALOUS for _, o in plan))
    return plan


def t_in_nested(t, depth_of):
    return t in depth_of


def threaded_serving_run(ctx, seed, policy, nthreads, nreq, p_switch, client_bg=False, unenc=None):
    """the serving side answers from several threads at once (what serve_threaded does): under the controlled scheduler, with
    pre-emption inside _send and _dispatch_request, every request must still get exactly one response.
    client_bg: a second thread serves the REQUESTER's connection as well (what BgServingThread does), with pre-emption inside
    _async_request: every response must still reach the request with its number"""
    import rpyc
    from rpyc.core.channel import Channel
    from rpyc.core import consts
    from rpyc.core.protocol import Connection
    from rv import vsched
    log = []
    Svc = make_service(log)
    sched = vsched.Sched(seed=seed, policy=policy, p_switch=p_switch, max_steps=120000)
    net = vnet.Net(waiter=vsched.SchedWaiter(sched))
    b = Svc()._connect(Channel(net.b), {"sync_request_timeout": None})
    # with a second thread on the requester's side every wait is bounded in VIRTUAL time: a waiter that is woken late
    # (C14's subject, a listed finding there) then still collects its result and the pairing verdict stays meaningful
    a = rpyc.VoidService()._connect(Channel(net.a), {"sync_request_timeout": 30 if client_bg else None})
    vsched.simulate_connection(a, sched, "A")
    vsched.simulate_connection(b, sched, "B")
    results = {}
    arbox = []
    state = dict(done=False)

    teardown_exc = []

    def server():
        try:
            while not state["done"] and not b.closed:
                b.serve(0.5)
        except EOFError:
            pass
        except Exception as e:
            # Several threads serving one connection can meet its end at the same moment (one reads the peer's close request,
            # another reads the end of stream): what they raise while tearing down is not about request/response pairing
            # and is only counted here (see DESIGN.md 7.7)
            if state["done"] or b.closed:
                teardown_exc.append(type(e).__name__)
            else:
                raise

    def client():
        try:
            root = a.root
            work = rpyc.async_(root.work)
            state["setup"] = True          # from here on only asynchronous requests with plain results are in flight
            # unenc: the result of that one request cannot be encoded (an integer beyond the interpreter's text limit): its requester
            # gets an exception response, and every other request - answered by other threads meanwhile - its own value
            ars = [(i, work("m%d" % i, "unenc_bigint" if i == unenc else "value")) for i in range(nreq)]
            arbox.extend(ars)
            for i, ar in ars:
                if client_bg:
                    # bounded wait in virtual time: a waiter that is woken late (C14's subject) still gets its result here
                    ar.set_expiry(30)
                try:
                    results[i] = ar.value
                except rpyc.AsyncResultTimeout:
                    results[i] = ("expired although ready" if ar._is_ready else "expired: no response was delivered to this request",)
                except Exception as e:
                    results[i] = ("raised", type(e).__name__)
            del ars, work, root
        finally:
            state["done"] = True
            a.close()
    def client_bg_thread():
        # joins once the requester holds its proxies: synchronous requests issued while two threads serve one connection can
        # expire although answered (the late wake-up that C14 decides and lists); the asynchronous ones below cannot
        sched.block(lambda: state.get("setup") or state["done"], None, ("wait-setup",))
        try:
            while not state["done"] and not a.closed:
                a.serve(0.5)
        except EOFError:
            pass
        except Exception as e:
            if state["done"] or a.closed:
                teardown_exc.append(type(e).__name__)
            else:
                raise
    codes = sched.instrument([Connection._send.__code__, Connection._dispatch_request.__code__] +
                             ([Connection._async_request.__code__, Connection._seq_request_callback.__code__] if client_bg else []))
    try:
        with vsched.patched_time(sched, spawn=False):
            sched.spawn(client, name="client")
            if client_bg:
                sched.spawn(client_bg_thread, name="client-bg")
                ctx.count("threaded_serving_runs_with_second_thread_on_requester_side")
            for k in range(nthreads):
                sched.spawn(server, name="srv%d" % k)
            ok = sched.run(watchdog=40)
    finally:
        vsched.Sched.uninstrument(codes)
    ctx.case(("threaded-serving", nthreads, nreq, sched.trace_hash()), nontrivial=sched.preemptions > 0)
    ctx.count("threaded_serving_runs")
    ctx.count("threaded_serving_teardown_exceptions", len(teardown_exc))
    ctx.count("threaded_serving_preemptions", sched.preemptions)
    wit = dict(mode="threaded-serving", seed=list(seed) if isinstance(seed, tuple) else seed, policy=policy, nthreads=nthreads, nreq=nreq, client_bg=client_bg, unenc=unenc)
    if not ok:
        ctx.inconclusive("wall-clock watchdog in threaded-serving run")
        return
    reqs, _ = net.frames("A->B")
    resps, _ = net.frames("B->A")
    answered = {}
    for m in resps:
        if m["kind"] in (rc.MSG_REPLY, rc.MSG_EXCEPTION):
            answered[m["seq"]] = answered.get(m["seq"], 0) + 1
    nrequests = sum(1 for m in reqs if m["kind"] == rc.MSG_REQUEST and m.get("handler") == rc.HANDLERS["CALL"])
    if (sched.deadlock or sched.aborting) and not b._send_queue and nrequests and all(
            answered.get(m["seq"], 0) == 1 for m in reqs if m["kind"] == rc.MSG_REQUEST and m.get("handler") == rc.HANDLERS["CALL"]):
        missing = [i for i, ar in arbox if not ar._is_ready]
        del arbox[:]
        if not missing:
            ctx.count("threaded_serving_runs_ending_in_a_late_wake_up_only")      # C14's subject, not a pairing matter
            return
        ctx.violation("C08/threaded-serving/response-delivered-to-nobody", "every request was answered once on the wire, yet the requester still waits "
                      "for %r: a response was not delivered to the request with its number (%s)" % (
                          missing, sched.deadlock or sched.abort_reason), wit)
        return
    if sched.deadlock:
        stranded = len(b._send_queue)
        ctx.violation("C08/threaded-serving/request-never-answered", "requester waits forever: %d response(s) stranded in the serving side's send queue; "
                      "blocked: %r" % (stranded, sched.deadlock), wit)
        return
    if sched.aborting:
        if b._send_queue:
            ctx.violation("C08/threaded-serving/request-never-answered", "the requester waits while %d response(s) sit stranded in the serving "
                          "side's send queue with no sender left to transmit them" % len(b._send_queue), wit)
        else:
            ctx.violation("C08/threaded-serving/livelock", "run aborted: %s" % sched.abort_reason, wit)
        return
    for t in sched.tasks:
        if t.exc is not None:
            ctx.violation("C08/threaded-serving/task-raised/%s" % type(t.exc).__name__, "task %s raised %r" % (t.name, t.exc), wit)
    for m in reqs:
        # release notices sent while the requester tears down may legitimately be cut off by its own close()
        if m["kind"] == rc.MSG_REQUEST and m.get("handler") not in (rc.HANDLERS["CLOSE"], rc.HANDLERS["DEL"]):
            n = answered.get(m["seq"], 0)
            if n != 1:
                ctx.violation("C08/threaded-serving/%s" % ("no-response" if n == 0 else "duplicate-response"),
                              "request seq %r got %d responses" % (m["seq"], n), wit)
    if unenc is not None:
        ctx.count("threaded_serving_runs_with_an_unencodable_result")
    for i in range(nreq):
        if i == unenc:
            if not (isinstance(results.get(i), tuple) and results[i][0] == "raised"):
                ctx.violation("C08/threaded-serving/unencodable-result-not-answered-with-an-exception", "request m%d, whose result cannot be encoded, "
                              "completed with %r" % (i, results.get(i)), wit)
            continue
        if results.get(i) != ("v", "m%d" % i):
            ctx.violation("C08/threaded-serving/wrong-result", "request m%d completed with %r" % (i, results.get(i)), wit)
    if len(set(log)) != len(log):
        ctx.violation("C08/threaded-serving/handler-ran-twice", "a handler ran twice", wit)


def run(ctx):
    from rv import suiterun
    suiterun.for_check(ctx, PROPERTY, ['requests_handled', 'results_completed'])
    rng = ctx.rng
    for i in range(ctx.budget(400, 60000)):
        threaded_serving_run(ctx, (ctx.seed, ctx.shard[0], i), "random" if i % 3 else "pct", rng.choice([2, 3]) if i % 4 else 1, rng.choice([2, 3, 5]),
                             rng.choice([0.1, 0.3, 0.6]), client_bg=(i % 4 == 0 or i % 7 == 0), unenc=(rng.randrange(2) if i % 3 == 1 else None))
        if ctx.enough():
            return
    for i in range(ctx.budget(250, 30000)):
        plan = run_stream(ctx, rng, i)
        if i < 3:
            ctx.sample({"stream": [list(p) for p in plan]})
        if ctx.enough():
            break
    if ctx.counters["responses_matched"] == 0:
        ctx.inconclusive("ledger matched no response")

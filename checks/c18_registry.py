"""C18 - the registry reflects exactly the live registrations and cannot be knocked over.

Runtime monitoring of the real rpyc.utils.registry servers against a reference membership model.

(a) in-process histories: a real UDPRegistryServer / TCPRegistryServer object (loop not running) is driven through
    cmd_register / cmd_unregister / cmd_query with the module's clock replaced by a virtual one; after every step the
    reply and the added/removed notification log are compared with the model (lib-independent, ~50 lines below).
(b) real loops: start() of both servers in a thread on loopback; after EACH hostile datagram / TCP client a well-formed
    QUERY for a pre-registered name must be answered with the unchanged reply.  A missing answer is a verdict only when
    the server thread has terminated or three probes in a row fail; one slow probe alone is never the verdict.
"""
import gc
import logging
import os
import socket
import threading
import time as _time

from rv import gen, refcodec as rc

PROPERTY = "C18"
LEVEL = "exploration"
RULE = ("(a) seeded histories of 4-25 register / unregister / query / clock-advance events (plus a closing query per "
        "name) over a per-history universe of 1-3 hosts x 1-3 ports x 1-3 service names in mixed case, 1-3 aliases per "
        "registration, pruning interval 1000 ticks, every event advances the virtual clock by 1..1400 ticks and never "
        "lands on the pruning boundary; distinct = sequence of step shapes (operation, aliases / servers replied / stale "
        "entries / entries removed); non-trivial = at least one query whose reply lists a server. "
        "(b) hostile inputs sent over real loopback UDP and TCP to the running loops, each followed by a well-formed "
        "query: arbitrary bytes, truncated / garbled requests, every boundary value and seeded plain values in place "
        "of each of (magic, command, args), wrong arity, non-text / undecodable names, wrong argument types, huge alias "
        "lists, unknown commands, flawed requests that name the pre-registered entries (wrong magic, extra arguments), TCP "
        "clients that stay silent, send half a request, or disconnect at once, batches of malformed TCP requests with "
        "socket bookkeeping; distinct = (transport, input class, type and size class of the substituted value)")
ASSUMPTIONS = ["in-process histories call cmd_* directly on a real server object whose loop is not running; the module "
               "global 'time' of rpyc.utils.registry is replaced by a virtual clock for their duration",
               "names are compared case-insensitively with str.casefold on names for which casefold and upper agree",
               "lazy pruning is accepted: a stale entry must be absent from every reply and its 'removed' must have fired "
               "by the end of the first query for its name after it went stale (earlier is accepted), exactly once",
               "real-loop part: host kernel loopback delivers datagrams; 'unanswered' = three probes in a row without a "
               "reply (UDP 3 s each, TCP above the server's own socket timeout) or a terminated server thread",
               "TCP descriptor bookkeeping is judged by the server's _connected_sockets table (when present) and by the "
               "number of entries in /proc/self/fd after gc.collect()"]
SHARDS = {"quick": 1, "thorough": 16}
MIN_DISTINCT = {"quick": 3000, "thorough": 100000}

PRUNE = 1000
HOSTS = ["10.0.0.1", "10.0.0.2", "registry-host-c"]
PORTS = [18861, 18862, 40000]
NAME_GROUPS = [["foo", "Foo", "FOO", "fOo"], ["bar", "BAR", "Bar"], ["calc", "CALC", "cAlC"], ["caf\xe9", "CAF\xc9"]]

QUIET = logging.getLogger("rv.c18.quiet")
QUIET.propagate = False
QUIET.addHandler(logging.NullHandler())
QUIET.setLevel(logging.CRITICAL + 10)


def fold(name):
    return name.casefold() if isinstance(name, str) else name


# ------------------------------------------------------------------ reference model (from the statement)
class Model(object):
    def __init__(self, interval):
        self.interval = interval
        self.members = {}                     # folded name -> {(host, port): time of last refresh}

    def has(self, key):
        return key[1] in self.members.get(key[0], {})

    def stale(self, key, now):
        return now - self.members[key[0]][key[1]] > self.interval

    def drop(self, key):
        del self.members[key[0]][key[1]]

    def entries(self):
        return set((n, a) for n, m in self.members.items() for a in m)

    def register(self, host, names, port, now):
        for n in names:
            self.members.setdefault(fold(n), {})[(host, port)] = now

    def unregister(self, host, port):
        for m in self.members.values():
            m.pop((host, port), None)

    def stale_under(self, name, now):
        m = self.members.get(fold(name), {})
        return [(fold(name), a) for a in m if now - m[a] > self.interval]

    def query(self, name, now):
        """live servers, oldest refresh first; stale ones have left by now at the latest"""
        for key in self.stale_under(name, now):
            self.drop(key)
        m = self.members.get(fold(name), {})
        return tuple(sorted(m, key=m.get))

    def on_boundary(self, now):
        return any(now - t == self.interval for m in self.members.values() for t in m.values())


class VClock(object):
    def __init__(self):
        self.now = 1000000.0

    def time(self):
        return self.now

    def __getattr__(self, name):
        return getattr(_time, name)


# ------------------------------------------------------------------ real servers with a notification log
_classes = {}


def server_class(registry, kind):
    base = registry.UDPRegistryServer if kind == "udp" else registry.TCPRegistryServer
    if (kind, base) not in _classes:
        class Logged(base):
            def on_service_added(self, name, addrinfo):
                self.rv_log.append(("added", name, addrinfo))

            def on_service_removed(self, name, addrinfo):
                self.rv_log.append(("removed", name, addrinfo))
        _classes[(kind, base)] = Logged
    return _classes[(kind, base)]


def new_server(registry, kind, pruning_timeout):
    srv = server_class(registry, kind)(host="127.0.0.1", port=0, pruning_timeout=pruning_timeout, logger=QUIET)
    srv.rv_log = []
    return srv


class Part(object):
    """each part stops early once its own verdict is decided (so that every part still runs on a defective tree)"""

    def __init__(self, ctx):
        self.ctx = ctx
        self.start = ctx.counters["violations_raw"]

    def enough(self, n=25):
        return self.ctx.counters["violations_raw"] - self.start >= n


# ------------------------------------------------------------------ (a) in-process histories
def gen_history(rng):
    hosts = rng.sample(HOSTS, rng.choice([1, 2, 2, 3]))
    ports = rng.sample(PORTS, rng.choice([1, 2, 3, 3]))
    groups = rng.sample(NAME_GROUPS, rng.choice([1, 2, 2, 3]))
    steps = []

    def dt():
        return rng.randrange(1, 250) if rng.random() < .85 else rng.randrange(400, 1400)
    for _ in range(rng.randrange(4, 26)):
        r = rng.random()
        if r < .42:
            names = [rng.choice(rng.choice(groups)) for _ in range(rng.choice([1, 1, 2, 3]))]
            steps.append([dt(), "register", rng.choice(hosts), names, rng.choice(ports)])
        elif r < .78:
            steps.append([dt(), "query", rng.choice(hosts), rng.choice(rng.choice(groups))])
        elif r < .92:
            steps.append([dt(), "unregister", rng.choice(hosts), rng.choice(ports)])
        else:
            steps.append([dt(), "advance"])
    for g in groups:
        steps.append([rng.randrange(1, 60), "query", rng.choice(hosts), rng.choice(g)])
    return steps


def judge_notifications(model, notified, delta, step, now):
    """consume the notifications one event produced; returns [(key, what)]. Mutates model only for lazy pruning."""
    bad = []
    op = step[1]
    named = set()
    if op == "register":
        named = set((fold(n), (step[2], step[4])) for n in step[3])
    for kind, name, addr in delta:
        key = (fold(name), tuple(addr) if isinstance(addr, (tuple, list)) else addr)
        if kind == "removed":
            if key not in notified:
                bad.append(("notify/removed-without-membership",
                            "'removed' fired for %r %r which is not a member (never registered under that name, or already "
                            "reported removed) during %s" % (name, addr, op)))
                continue
            notified.discard(key)
            if model.has(key) and model.stale(key, now):
                model.drop(key)                                   # pruned (the statement leaves the moment open)
            elif op == "unregister" and key[1] == (step[2], step[3]) and model.has(key):
                pass                                              # leaves through model.unregister below
            else:
                bad.append(("notify/removed-while-member", "'removed' fired for %r %r during %s although it is still a "
                            "live member" % (name, addr, op)))
        else:
            if key in notified:
                bad.append(("notify/added-without-change", "'added' fired for %r %r during %s although it already is a "
                            "member (no membership change)" % (name, addr, op)))
                continue
            notified.add(key)
            if key not in named:
                bad.append(("notify/added-without-registration", "'added' fired for %r %r during %s which does not "
                            "register it" % (name, addr, op)))
    return bad


def execute_history(ctx, registry, clock, steps, kind):
    """returns (shape, nontrivial, [(key, what, failing step index)])"""
    srv = new_server(registry, kind, PRUNE)
    model = Model(PRUNE)
    notified = set()
    bad = []
    shape = []
    nontrivial = False
    pos = 0
    try:
        for i, step in enumerate(steps):
            clock.now += step[0]
            while model.on_boundary(clock.now):
                clock.now += 1
            now = clock.now
            op = step[1]
            reply = None
            try:
                if op == "register":
                    reply = srv.cmd_register(step[2], tuple(step[3]), step[4])
                elif op == "unregister":
                    reply = srv.cmd_unregister(step[2], step[3])
                elif op == "query":
                    reply = srv.cmd_query(step[2], step[3])
            except Exception as e:
                bad.append(("cmd-raised/%s/%s" % (op, type(e).__name__), "cmd_%s raised %r" % (op, e), i))
                break
            delta = srv.rv_log[pos:]
            pos = len(srv.rv_log)
            stale = model.stale_under(step[3], now) if op == "query" else []
            ctx.count("notifications_checked", len(delta))
            step_bad = judge_notifications(model, notified, delta, step, now)
            if op == "register":
                fresh = len(set(fold(n) for n in step[3] if not model.has((fold(n), (step[2], step[4])))))
                for k in set((fold(x), (step[2], step[4])) for x in step[3]):
                    if model.has(k):
                        ctx.count("reregistered_stale_unpruned" if model.stale(k, now) else "keepalives")
                model.register(step[2], step[3], step[4], now)
                shape.append(("R", len(step[3]), fresh))
                if reply != "OK":
                    step_bad.append(("register-reply", "cmd_register returned %r, not 'OK'" % (reply,)))
            elif op == "unregister":
                n = sum(1 for k in model.entries() if k[1] == (step[2], step[3]))
                model.unregister(step[2], step[3])
                shape.append(("U", n))
                if reply != "OK":
                    step_bad.append(("unregister-reply", "cmd_unregister returned %r, not 'OK'" % (reply,)))
            elif op == "query":
                expected = model.query(step[3], now)
                ctx.count("queries_compared")
                ctx.count("stale_entries_at_query", len(stale))
                ctx.maximum("servers_in_one_reply", len(expected))
                shape.append(("Q", len(expected), len(stale)))
                if expected:
                    nontrivial = True
                    ctx.count("queries_with_nonempty_reply")
                if type(reply) is not tuple or list(reply) != list(expected):
                    got = list(reply) if isinstance(reply, (tuple, list)) else None
                    if got is not None and len(got) == len(expected) and set(got) == set(expected):
                        step_bad.append(("order", "reply %r lists the right servers but not oldest refresh first %r"
                                         % (reply, expected)))
                    elif got is not None and set(got) - set(expected) and set(got) - set(expected) <= set(a for _, a in stale):
                        step_bad.append(("reply-lists-stale-entry", "reply %r lists a server not refreshed within the pruning "
                                         "interval; expected %r" % (reply, expected)))
                    elif got is not None and set(got) < set(expected):
                        step_bad.append(("reply-omits-live-entry", "reply %r omits a live registration; expected %r"
                                         % (reply, expected)))
                    else:
                        step_bad.append(("query-reply-differs", "reply %r differs from the model's %r" % (reply, expected)))
            else:
                shape.append(("A",))
            entries = model.entries()
            for key in entries - notified:
                step_bad.append(("notify/missing-added", "%r became a member during %s but no 'added' fired" % (key, op)))
            for key in notified - entries:
                step_bad.append(("notify/missing-removed", "%r stopped being a member (by %s) but no 'removed' fired"
                                 % (key, op)))
            if step_bad:
                bad.extend((k, w, i) for k, w in step_bad)      # the first failing step ends the history: one report per cause
                break
    finally:
        try:
            srv.sock.close()
        except Exception:
            pass
    return tuple(shape), nontrivial, bad


def part_histories(ctx, registry, n):
    rng = ctx.subrng("histories")
    part = Part(ctx)
    clock = VClock()
    real = registry.time
    registry.time = clock
    try:
        for i in range(n):
            steps = gen_history(rng)
            kind = "udp" if i % 3 else "tcp"
            shape, nontrivial, bad = execute_history(ctx, registry, clock, steps, kind)
            ctx.case(("hist", shape), nontrivial=nontrivial)
            ctx.count("histories")
            ctx.count("history_steps", len(steps))
            for key, what, at in bad:
                ctx.violation("C18/" + key, what, dict(history=steps, failing_step=at, server=kind))
            if i < 2:
                ctx.sample({"history": steps})
            if part.enough():
                break
    finally:
        registry.time = real


# ------------------------------------------------------------------ (b) real loops
LOCAL = "127.0.0.1"
PRE = [(("alpha", "Beta"), 41001), (("ALPHA",), 41002)]
EXPECT = {"alpha": ((LOCAL, 41001), (LOCAL, 41002)), "ALPHA": ((LOCAL, 41001), (LOCAL, 41002)),
          "AlPhA": ((LOCAL, 41001), (LOCAL, 41002)), "beta": ((LOCAL, 41001),), "BETA": ((LOCAL, 41001),)}
PRE_KEYS = ("alpha", "beta")


def enc(v):
    """request bytes for a value (None if this interpreter cannot even write it down)"""
    try:
        return rc.encode(v)
    except UnicodeEncodeError:
        try:
            from rpyc.core import brine
            return brine.dump(v)
        except Exception:
            return None
    except (ValueError, RecursionError):
        return None


def request(kind, port, payload, timeout, alive=None):
    """one client exchange; returns (status, data), status in ok | timeout | closed | refused | error.
    The wait for the reply ends early only when alive() turns false (the server thread is gone)."""
    s = socket.socket(socket.AF_INET, socket.SOCK_DGRAM if kind == "udp" else socket.SOCK_STREAM)
    s.settimeout(timeout)
    deadline = _time.time() + timeout
    try:
        try:
            if kind == "udp":
                s.sendto(payload, (LOCAL, port))
            else:
                s.connect((LOCAL, port))
                if payload:
                    s.sendall(payload)
            while True:
                s.settimeout(max(0.01, min(0.2, deadline - _time.time())))
                try:
                    data = s.recvfrom(65535)[0] if kind == "udp" else s.recv(65535)
                    break
                except socket.timeout:
                    if _time.time() >= deadline or (alive is not None and not alive()):
                        return "timeout", None
            if not data and kind == "tcp":
                return "closed", None
            return "ok", data
        except socket.timeout:
            return "timeout", None
        except ConnectionRefusedError:
            return "refused", None
        except OSError as e:
            return "error:" + type(e).__name__, None
    finally:
        s.close()


def fire(kind, port, payload):
    """deliver a hostile input without waiting for anything; returns the still-open TCP socket (or None)"""
    if kind == "udp":
        s = socket.socket(socket.AF_INET, socket.SOCK_DGRAM)
        try:
            s.sendto(payload, (LOCAL, port))
        except OSError:
            pass
        finally:
            s.close()
        return None
    s = socket.socket(socket.AF_INET, socket.SOCK_STREAM)
    s.settimeout(2)
    try:
        s.connect((LOCAL, port))
        if payload:
            s.sendall(payload)
    except OSError:
        pass
    return s


class Live(object):
    """a real registry server running start() in a thread, with the well-known registrations made by real clients"""

    def __init__(self, registry, kind):
        self.kind = kind
        self.srv = new_server(registry, kind, 86400)
        self.port = self.srv.port
        self.exc = None
        self.probe_timeout = 3.0 if kind == "udp" else float(getattr(self.srv, "TIMEOUT", 3.0)) + 2.5
        self.thread = threading.Thread(target=self._main, name="c18-" + kind, daemon=True)
        self.thread.start()
        t0 = _time.time()
        while not self.srv.active and self.thread.is_alive() and _time.time() - t0 < 5:
            _time.sleep(0.001)
        self.base_log = 0

    def _main(self):
        try:
            self.srv.start()
        except BaseException as e:
            self.exc = e

    def alive(self):
        return self.thread.is_alive()

    def setup(self):
        """well-formed registrations; False if the registry does not even serve well-formed clients"""
        for names, port in PRE:
            for attempt in range(3):
                st, data = request(self.kind, self.port, rc.encode(("RPYC", "REGISTER", (names, port))), self.probe_timeout,
                                   self.alive)
                if st == "ok":
                    break
                if not self.alive():
                    return False
            else:
                return False
            try:
                if rc.decode(data) != "OK":
                    return False
            except rc.DecodeError:
                return False
        self.base_log = len(self.srv.rv_log)
        return True

    def stop(self):
        try:
            self.srv.close()
        except ValueError:
            pass
        s = fire(self.kind, self.port, b"")          # wake the loop so that it notices
        if s is not None:
            s.close()
        self.thread.join(10)
        return not self.thread.is_alive()


def hexw(payload):
    return payload[:600].hex() + ("..." if len(payload) > 600 else "")


class Prober(object):
    """sends hostile inputs to a Live server and judges the well-formed query that follows each"""

    def __init__(self, ctx, registry, kind, rng):
        self.ctx, self.registry, self.kind, self.rng = ctx, registry, kind, rng
        self.live = None
        self.broken = False
        self.stale = False

    def ensure(self):
        if self.live is not None and self.live.alive() and not self.stale:
            return True
        self.stale = False
        if self.live is not None:
            self.live.stop()
        self.live = Live(self.registry, self.kind)
        if not self.live.setup():
            exc = self.live.exc
            if not self.live.alive():
                self.ctx.violation("C18/loop-died/%s" % (type(exc).__name__ if exc else "returned"),
                                   "%s registry loop terminated while serving well-formed REGISTER requests: %r" % (self.kind, exc),
                                   dict(transport=self.kind, input="well-formed REGISTER"))
            else:
                self.ctx.violation("C18/well-formed-request-unanswered/%s" % self.kind,
                                   "a well-formed REGISTER sent to a fresh %s registry got no 'OK' in three attempts" % self.kind,
                                   dict(transport=self.kind))
            self.broken = True
            return False
        return True

    def restart(self):
        """the next input goes to a fresh registry (the current one is stopped then, when no client of ours holds it)"""
        self.stale = True

    def probe(self, cls, witness, unresponsive_key=None):
        """True if the registry answered a well-formed query correctly; records the violation otherwise"""
        ctx, live = self.ctx, self.live
        last = None
        for attempt in range(3):
            name = self.rng.choice(sorted(EXPECT))
            st, data = request(self.kind, live.port, rc.encode(("RPYC", "QUERY", (name,))), live.probe_timeout, live.alive)
            last = st
            if st == "ok":
                try:
                    reply = rc.decode(data)
                except rc.DecodeError:
                    reply = data
                if reply == "OK" and self.kind == "udp" and attempt < 2:
                    # datagrams carry no request number: the acknowledgement of an earlier (hostile but accepted) REGISTER /
                    # UNREGISTER that was sent from a socket whose port number this one happens to have inherited. Not an answer
                    # to the query - ask again (three in a row are judged below like any wrong answer)
                    ctx.count("stale_acknowledgements_skipped")
                    continue
                if reply != EXPECT[name]:
                    ctx.violation("C18/registration-altered", "after a %s input the query for %r is answered %r instead of %r"
                                  % (cls, name, reply, EXPECT[name]), witness)
                    self.restart()
                    return False
                ctx.count("liveness_probes_answered")
                if attempt:
                    ctx.count("probes_answered_only_on_retry")
                return self.check_log(cls, witness)
            ctx.count("probe_attempts_without_answer")
            if st != "timeout":
                live.thread.join(1.0)         # refused / reset: the loop may be on its way out; let it finish before judging
            if not live.alive():
                break
        if not live.alive():
            exc = live.exc
            ctx.violation("C18/loop-died/%s" % (type(exc).__name__ if exc is not None else "returned"),
                          "the %s registry loop terminated (%r) after a %s input; well-formed queries go unanswered"
                          % (self.kind, exc, cls), witness)
        else:
            ctx.violation(unresponsive_key or "C18/unresponsive/%s" % self.kind,
                          "after a %s input three well-formed %s queries in a row got no reply (last: %s) although the "
                          "loop is running" % (cls, self.kind, last), witness)
        self.restart()
        return False

    def check_log(self, cls, witness):
        """hostile inputs never name the pre-registered services: no notification about them may appear"""
        log = self.live.srv.rv_log
        extra = [e for e in log[self.live.base_log:] if fold(e[1]) in PRE_KEYS]
        if extra:
            self.live.base_log = len(log)
            kind = extra[0][0]
            member = (extra[0][2] in EXPECT[fold(extra[0][1])]) if isinstance(extra[0][2], tuple) else False
            key = ("notify/removed-without-membership" if kind == "removed" and not member else "notify/%s-by-unrelated-request" % kind)
            self.ctx.violation("C18/" + key, "a %s input that does not name %r made the registry fire %r" % (cls, extra[0][1], extra[0]),
                               witness)
            return False
        return True

    def hostile(self, cls, payload, shape=()):
        """one hostile input followed by the liveness probe"""
        ctx = self.ctx
        if not self.ensure():
            return
        witness = dict(transport=self.kind, input_class=cls, datagram_hex=hexw(payload), length=len(payload))
        s = fire(self.kind, self.live.port, payload)
        if s is not None and not payload:
            s.close()                     # nothing to say: connect and leave (staying silent is a scenario of its own)
        ctx.count("hostile_inputs_%s" % self.kind)
        ctx.case((self.kind, cls) + tuple(shape))
        try:
            self.probe(cls, witness)
        finally:
            if s is not None:
                s.close()


def size_class(n):
    for lim in (0, 4, 64, 255, 1400, 1500, 20000):
        if n <= lim:
            return lim
    return 10 ** 6


def shape_of(v):
    try:
        n = len(v)
    except TypeError:
        n = -1
    return (type(v).__name__, size_class(n) if n >= 0 else -1)


def hostile_corpus(rng, n_random, first_shard, maxlen):
    """yields (class, payload, shape). The deterministic part is sent by the first shard only."""
    q_alpha = ("RPYC", "QUERY", ("alpha",))
    valid = [rc.encode(q_alpha), rc.encode(("RPYC", "REGISTER", (("evil", "twin"), 5))),
             rc.encode(("RPYC", "UNREGISTER", (5,))), rc.encode(("RPYC", "register", (("x",) * 40, 77)))]

    def out(cls, v, shape=None):
        data = enc(v)
        if data is None or len(data) > maxlen:
            return None
        return (cls, data, shape_of(v) if shape is None else shape)

    fixed = []
    if first_shard:
        fixed.append(("bytes/empty", b"", ()))
        for k in (1, 2, 5, len(valid[0]) - 1, len(valid[1]) - 3):
            fixed.append(("brine/truncated", valid[k % 2][:k], (k,)))
        top = [None, 5, "RPYC", (), ("RPYC",), ("RPYC", "QUERY"), ("RPYC", "QUERY", ("alpha",), "x"),
               ("RPYC", "UNREGISTER", (41001,), None), ("RPYC", "QUERY", ("alpha",), 1, 2), "abc", b"xyz",
               frozenset(["RPYC", "QUERY", ("alpha",)]), (("RPYC", "QUERY", ("alpha",)),), slice("RPYC", "QUERY", ("alpha",)),
               ("RPYC", ("QUERY", ("alpha",))), 1.5, (None, None, None), ((), (), ())]
        for v in top:
            fixed.append(out("arity/%s" % (len(v) if type(v) is tuple else type(v).__name__), v))
        # flawed requests that otherwise name the pre-registered entries: nothing of theirs may change
        for magic in ("rpyc", b"RPYC", "RPYC ", "RPYC\x00", "XPYC", "", None, 0, ("RPYC",)):
            fixed.append(out("magic/wrong-naming-registered", (magic, "UNREGISTER", (41001,)), ("unreg", type(magic).__name__, repr(magic)[:8])))
            fixed.append(out("magic/wrong-naming-registered", (magic, "REGISTER", (("alpha", "beta"), 41009)), ("reg", type(magic).__name__, repr(magic)[:8])))
        for args in ((41001, 41002), (41001, None), ((41001,),), ("41001",), (b"41001",), ((LOCAL, 41001),), ()):
            fixed.append(out("args/flawed-unregister-naming-registered", ("RPYC", "UNREGISTER", args), (len(args), repr(args)[:12])))
        for args in ((("alpha",),), (("alpha",), 41009, 1), ("alpha",), (), (41009, ("alpha",), 3)):
            fixed.append(out("args/flawed-register-naming-registered", ("RPYC", "REGISTER", args), (len(args), repr(args)[:12])))
        for cmd in ("", "FROBNICATE", "query ", " QUERY", "que\x00ry", "__init__", "work", "QUERIES", "cmd_query", "close", "start",
                    "QUERY\udc80", "ſtart", "unregister_", "q" * 300):
            fixed.append(out("command/unknown-text", ("RPYC", cmd, ("alpha",)), ("cmd", cmd[:6], len(cmd))))
        for cmd in (0, 1, -1, 2 ** 70, None, True, 1.5, 1j, b"QUERY", b"", ("QUERY",), (), frozenset(["QUERY"]), slice(1, 2, 3),
                    Ellipsis, NotImplemented, (("QUERY",),)):
            fixed.append(out("command/non-text", ("RPYC", cmd, ("alpha",)), ("cmd", type(cmd).__name__, repr(cmd)[:8])))
            fixed.append(out("command/non-text", ("RPYC", cmd, (("evil",), 5)), ("cmd2", type(cmd).__name__, repr(cmd)[:8])))
        for names in ((5,), (None, "x"), (b"\xff\xfe",), ("ok", 5, "late"), 5, None, (("nested",),), ((),), (1.5, "y"),
                      frozenset(["s1", "s2"]), "astring", b"bytes", (slice(1, 2),), ("a\udc80b",), ("\x00",), ("",)):
            fixed.append(out("names/non-text", ("RPYC", "REGISTER", (names, 7)), ("reg", repr(names)[:14])))
        for name in (5, None, b"\xff", b"alpha", ("alpha",), 1.5, (), frozenset(), "a\udc80", "", "\x00", "x" * 1300, slice(None)):
            fixed.append(out("names/non-text-query", ("RPYC", "QUERY", (name,)), ("q", repr(name)[:14])))
        for port in ("port", None, (1, 2), 1.5, b"1", -1, 2 ** 80, ("x", ("y", ("z",))), frozenset([1]), float("nan")):
            fixed.append(out("args/port-type", ("RPYC", "REGISTER", (("evil",), port)), ("port", type(port).__name__)))
            fixed.append(out("args/port-type", ("RPYC", "UNREGISTER", (port,)), ("uport", type(port).__name__)))
        for args in ((), ("alpha", "x"), (("alpha",),), None, 5, "alpha", ("alpha", None, None)):
            fixed.append(out("args/query-arity-or-type", ("RPYC", "QUERY", args), ("qa", repr(args)[:14])))
        # undecodable text payloads: a text tag over bytes that are not UTF-8
        for bad in (b"\xff\xfe\xfd\xfc", b"\xc3\x28ab", b"\x80\xbf\x80\xbf", b"\xf8\x88\x80\x80"):
            raw = rc.encode(("RPYC", "QUERY", ("ZZZZ",))).replace(b"ZZZZ", bad)
            fixed.append(("names/undecodable", raw, ("q", bad.hex())))
            raw = rc.encode(("RPYC", "REGISTER", (("ZZZZ", "alpha"), 41009))).replace(b"ZZZZ", bad)
            fixed.append(("names/undecodable", raw, ("r", bad.hex())))
            raw = rc.encode(("RPYC", "ZZZZ", ("alpha",))).replace(b"ZZZZ", bad)
            fixed.append(("command/undecodable", raw, ("c", bad.hex())))
            raw = rc.encode(("ZZZZ", "UNREGISTER", (41001,))).replace(b"ZZZZ", bad)
            fixed.append(("magic/undecodable", raw, ("m", bad.hex())))
        fixed.append(out("register/huge-alias-list", ("RPYC", "REGISTER", (tuple("e%d" % i for i in range(200)), 9)), ("fits",)))
        fixed.append(out("register/huge-alias-list", ("RPYC", "REGISTER", (tuple("e%d" % i for i in range(5000)), 9)), ("oversize",)))
        fixed.append(out("register/huge-alias-list", ("RPYC", "REGISTER", (("e",) * 700, 9)), ("same",)))
        for i, v in enumerate(gen.boundary_values()):
            fixed.append(out("magic/" + type(v).__name__, (v, "QUERY", ("alpha",)), ("b", i)))
            fixed.append(out("command/" + type(v).__name__, ("RPYC", v, ("alpha",) if i % 2 else (("evil",), 5)), ("b", i)))
            fixed.append(out("args/" + type(v).__name__, ("RPYC", ("QUERY", "REGISTER", "UNREGISTER")[i % 3], v), ("b", i)))
    for item in fixed:
        if item is not None:
            yield item
    for i in range(n_random):
        c = rng.randrange(8)
        if c == 0:
            data = bytes(rng.getrandbits(8) for _ in range(rng.randrange(0, 80)))
            yield ("bytes/random", data, (size_class(len(data)), data[:2].hex()))
        elif c == 1:
            data = gen.gen_hostile_bytes(rng, valid)[:maxlen]
            yield ("brine/garbled", data, (size_class(len(data)), data[:6].hex()))
        elif c in (2, 3, 4):
            v = gen.gen_plain(rng)
            pos = ("magic", "command", "args")[c - 2]
            cmd = rng.choice(["QUERY", "REGISTER", "UNREGISTER", "query"])
            req = {"magic": (v, cmd, ("alpha",)), "command": ("RPYC", v, rng.choice([("alpha",), (("evil",), 5), (5,)])),
                   "args": ("RPYC", cmd, v)}[pos]
            if pos == "command" and type(v) is str and v.lower() in ("query", "register", "unregister"):
                continue
            item = out("%s/%s" % (pos, type(v).__name__), req, (pos,) + shape_of(v) + (cmd if pos == "args" else "",))
            if item:
                yield item
        elif c == 5:
            v = tuple(gen.gen_plain(rng, 2) for _ in range(rng.choice([0, 1, 2, 4, 5, 6])))
            item = out("arity/%d" % len(v), v, ("rand",) + tuple(type(x).__name__ for x in v))
            if item:
                yield item
        elif c == 6:
            names = tuple(gen.gen_plain(rng, 3) for _ in range(rng.randrange(1, 4)))
            item = out("names/non-text", ("RPYC", "REGISTER", (names, gen.gen_plain(rng, 3))), ("rand",) + tuple(type(x).__name__ for x in names))
            if item:
                yield item
        else:
            v = gen.gen_plain(rng, 3)
            item = out("args/port-type", ("RPYC", rng.choice(["UNREGISTER", "unregister"]), (v,)), ("rand",) + shape_of(v))
            if item and v not in (41001, 41002):
                yield item


def part_udp(ctx, registry, n_random):
    rng = ctx.subrng("udp")
    part = Part(ctx)
    p = Prober(ctx, registry, "udp", rng)
    try:
        sampled = 0
        for cls, payload, shape in hostile_corpus(rng, n_random, ctx.shard[0] == 0, 60000):
            p.hostile(cls, payload, shape)
            if sampled < 1 and cls.startswith("command/"):
                ctx.sample({"udp_datagram": hexw(payload), "class": cls})
                sampled += 1
            if p.broken or part.enough():
                break
    finally:
        if p.live is not None:
            if not p.live.stop():
                ctx.count("server_thread_did_not_stop")


def fd_count():
    gc.collect()
    return len(os.listdir("/proc/self/fd"))


def connected(srv):
    t = getattr(srv, "_connected_sockets", None)
    try:
        return len(t) if t is not None else None
    except TypeError:
        return None


def tcp_silent(ctx, p, variant):
    """a client that connects and sends nothing (or half a request) and stays; another client's query must be answered"""
    if not p.ensure():
        return
    half = rc.encode(("RPYC", "QUERY", ("alpha",)))[:7] if variant == "half-request" else b""
    cls = "tcp/" + variant
    witness = dict(transport="tcp", input_class=cls, datagram_hex=half.hex())
    ctx.case(("tcp", cls))
    ctx.count("hostile_inputs_tcp")
    ctx.count("tcp_silent_clients")
    s = fire("tcp", p.live.port, half)
    try:
        p.probe(cls, witness, unresponsive_key="C18/tcp-silent-client-blocks")
    finally:
        s.close()


def tcp_leak_batch(ctx, p, rng, n):
    """n malformed requests in a row (clients gone afterwards): the server must hold no socket of theirs"""
    if not p.ensure():
        return
    before_fds = fd_count()
    before_tab = connected(p.live.srv)
    pool = [b"", b"\xff\xff", rc.encode(("XXXX", "QUERY", ("alpha",))), rc.encode(("RPYC", "NOPE", ())),
            rc.encode(("RPYC", "QUERY", (5,))), rc.encode(("RPYC", "QUERY", ())), rc.encode(("RPYC", "QUERY")),
            rc.encode(("RPYC", "REGISTER", ((5,), 1))), rc.encode(("RPYC", None, ()))[:-1], b"\x08\x0b\xff\xfe"]
    sent = []
    for i in range(n):
        payload = pool[i % len(pool)] if i < len(pool) else rng.choice(pool)
        s = fire("tcp", p.live.port, payload)
        if not payload:
            s.close()
        sent.append(s)
        ctx.count("hostile_inputs_tcp")
        if len(sent) >= 8:              # stay below the listen backlog
            if not p.probe("tcp/malformed-batch", dict(transport="tcp", input_class="tcp/malformed-batch", sent=i + 1)):
                for x in sent:
                    x.close()
                return
            for x in sent:
                x.close()
            sent = []
    ok = p.probe("tcp/malformed-batch", dict(transport="tcp", input_class="tcp/malformed-batch", sent=n))
    for x in sent:
        x.close()
    if not ok:
        return
    ctx.case(("tcp", "tcp/malformed-batch", n))
    ctx.count("tcp_leak_batches")
    tab = connected(p.live.srv)
    after_fds = fd_count()
    ctx.maximum("fd_growth_after_malformed_batch", max(0, after_fds - before_fds))
    grew = after_fds - before_fds
    if (tab is not None and tab > (before_tab or 0)) or grew >= max(3, n // 4):
        ctx.violation("C18/tcp-socket-leak",
                      "after %d malformed TCP requests (all clients gone, a later well-formed query answered) the registry still "
                      "holds %s client sockets in its table (before: %s) and the process has %d more open descriptors"
                      % (n, tab, before_tab, grew),
                      dict(transport="tcp", requests=n, payloads_hex=[x.hex() for x in pool], table_before=before_tab,
                           table_after=tab, fds_before=before_fds, fds_after=after_fds))
        p.restart()


def part_tcp(ctx, registry, n_random, n_silent, n_batch):
    rng = ctx.subrng("tcp")
    part = Part(ctx)
    p = Prober(ctx, registry, "tcp", rng)
    try:
        if not p.ensure():
            return
        sampled = 0
        for cls, payload, shape in hostile_corpus(rng, n_random, ctx.shard[0] == 0, 40000):
            p.hostile(cls, payload, shape)
            if sampled < 1 and cls.startswith("args/"):
                ctx.sample({"tcp_request": hexw(payload), "class": cls})
                sampled += 1
            if p.broken:
                return
            if part.enough():
                break
        if p.ensure():
            s = fire("tcp", p.live.port, b"")          # connect and leave at once
            s.close()
            ctx.count("hostile_inputs_tcp")
            ctx.case(("tcp", "tcp/connect-and-leave"))
            p.probe("tcp/connect-and-leave", dict(transport="tcp", input_class="tcp/connect-and-leave"))
        tcp_leak_batch(ctx, p, rng, n_batch)
        tcp_silent(ctx, p, "half-request")
        for i in range(n_silent):
            if p.broken or any(v["key"] == "C18/tcp-silent-client-blocks" for v in ctx.violations):
                break
            tcp_silent(ctx, p, "silent")
        if not p.broken:
            tcp_leak_batch(ctx, p, rng, max(10, n_batch // 3))
    finally:
        if p.live is not None:
            if not p.live.stop():
                ctx.count("server_thread_did_not_stop")


def run(ctx):
    from rpyc.utils import registry
    part_histories(ctx, registry, ctx.budget(5000, 5000000))
    part_udp(ctx, registry, ctx.budget(300, 120000))
    part_tcp(ctx, registry, ctx.budget(150, 12000), ctx.budget(2, 48), ctx.budget(30, 4800))
    c = ctx.counters
    if not ctx.violations:
        if c["queries_with_nonempty_reply"] == 0 or c["notifications_checked"] == 0:
            ctx.inconclusive("histories compared no non-empty reply / no notification")
        if c["liveness_probes_answered"] == 0:
            ctx.inconclusive("no liveness probe was answered")
        if c["probes_answered_only_on_retry"] > 3:
            ctx.inconclusive("%d liveness probes were answered only on retry (slow machine?)" % c["probes_answered_only_on_retry"])


def replay(ctx, w):
    from rpyc.utils import registry
    wit = w.get("witness") or {}
    if isinstance(wit, dict) and "history" in wit:
        clock = VClock()
        real = registry.time
        registry.time = clock
        try:
            _, _, bad = execute_history(ctx, registry, clock, wit["history"], wit.get("server", "udp"))
        finally:
            registry.time = real
        for key, what, at in bad:
            ctx.violation("C18/" + key, what, dict(failing_step=at))
        return
    if isinstance(wit, dict) and (wit.get("requests") or wit.get("input_class") in ("tcp/silent", "tcp/half-request")):
        p = Prober(ctx, registry, "tcp", ctx.subrng("replay"))
        try:
            if wit.get("requests"):
                tcp_leak_batch(ctx, p, ctx.subrng("replay-batch"), int(wit["requests"]))
            else:
                tcp_silent(ctx, p, wit["input_class"][4:])
        finally:
            if p.live is not None:
                p.live.stop()
        return
    if isinstance(wit, dict) and wit.get("datagram_hex") is not None and not wit["datagram_hex"].endswith("..."):
        p = Prober(ctx, registry, wit["transport"], ctx.subrng("replay"))
        try:
            p.hostile(wit.get("input_class", "replayed"), bytes.fromhex(wit["datagram_hex"]))
        finally:
            if p.live is not None:
                p.live.stop()
        return
    ctx.tier, ctx.seed = w.get("tier", "quick"), w.get("seed", 0)
    run(ctx)

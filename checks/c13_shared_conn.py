"""C13 - threads sharing a connection never cross, duplicate or lose replies.

Controlled scheduler; 2-3 client tasks (1-3 sync/async requests each, value and reference replies) + optional real
BgServingThread share one real Connection against a scripted reference peer that answers in seeded permuted order at
seeded virtual times. Pre-emption at every source line of serve / _dispatch / _seq_request_callback / _async_request /
AsyncResult.__call__ / AsyncResult.wait and at every INSTRUCTION of _get_seq_id.
Oracle: every request completes exactly once with the reply to that very request; every incoming frame is dispatched
exactly once; sequence numbers are unique on the wire; no deadlock; no lost wake-up (the virtual clock may not jump
while a reply sits unread and a waiter sleeps on the condition with nobody polling).
"""
from rv import sharedconn

PROPERTY = "C13"
LEVEL = "exploration"
RULE = ("configurations: 2-3 client tasks x 1-3 requests (sync / async, value / reference replies) with and without a "
        "BgServingThread; peer answers in seeded permuted order with seeded virtual delays. schedules: census run + every "
        "placement of ONE delay over its yield points (systematic), seeded random and PCT schedules. distinct = hash of the "
        "switch trace; non-trivial = at least one pre-emption taken")
ASSUMPTIONS = ["line granularity in the listed functions, instruction granularity in _get_seq_id; elsewhere only lock operations and "
               "transport calls are yield points; sampled interleavings, not all",
               "runs in which a waiter is stalled in poll() after its reply was processed by another thread (the known C14 finding) are "
               "judged for safety only; that stall is C14's verdict, counted here as 'tainted_by_c14'",
               "requests carry the default 30 s expiry in VIRTUAL time, so a lost reply surfaces as TimeoutError, a lost thread as deadlock"]
SHARDS = {"quick": 1, "thorough": 16}
SHARD_TIMEOUT = {"thorough": 7200}
MIN_DISTINCT = {"quick": 300, "thorough": 20000}


def configs():
    out = []
    for with_bg in (False, True, "poller"):
        out.append((2, (("s",), ("s",)), with_bg))
        out.append((2, (("s", "s"), ("a", "s")), with_bg))
        out.append((2, (("sr", "s"), ("a", "ar", "s")), with_bg))
        out.append((3, (("s",), ("a", "s"), ("s", "sr")), with_bg))
        out.append((3, (("a", "a", "s"), ("s", "s"), ("ar",)), with_bg))
        # one thread's request fails while it is being put together, between the other threads' requests
        out.append((2, (("a", "f", "s"), ("a", "s", "s")), with_bg))
        out.append((3, (("f", "s"), ("a", "s"), ("s", "f", "a")), with_bg))
    return out


def judge(ctx, obs):
    bad = []
    st = sharedconn.stalls(obs)
    # the known C14 mechanism: the waiter re-entered serve() after its reply was processed by another thread and now sits in
    # poll(), or waits on the condition behind a thread that sits in poll()
    c14_like = [s for s in st if s[2] and all(tag in (("poll", "A"), ("cond-wait", "behind-poller")) for tag in s[2])]
    tainted = bool(c14_like)
    if not obs["ok"]:
        ctx.inconclusive("wall-clock watchdog")
        return bad, tainted
    # ---- safety (always judged)
    for token, out, t_ret, t_done, ci in obs["outcomes"]:
        if out[0] == "value":
            if out[1] != sharedconn.expected_value(token):
                bad.append(("crossed-reply", "request %s completed with %r (the reply to another request)" % (token, out[1])))
        n_cb = len(obs["callbacks"].get(token, ()))
        if n_cb > 1:
            bad.append(("completed-twice", "request %s completed %d times" % (token, n_cb)))
        if out[0] == "value" and n_cb == 0:
            bad.append(("completion-without-callback", "request %s has a value but its callback never ran" % token))
    if obs["half_published"]:
        bad.append(("ready-before-value", "an asynchronous result reported ready before its value was stored (seen at yield point %r)" % (obs["half_published"][0],)))
    for data, n in obs["dispatch_counts"].items():
        if n != 1:
            bad.append(("frame-dispatched-%s" % ("twice" if n > 1 else "never"), "an incoming frame was dispatched %d times" % n))
    if len(set(obs["seqs"])) != len(obs["seqs"]) or obs["peer_dup_seq"]:
        bad.append(("sequence-number-reused", "a sequence number was used by two requests: %r" % (sorted(obs["seqs"]),)))
    for e in obs["errors"]:
        bad.append(("task-raised/%s" % e[1], "task %s raised %s" % (e[0], e[-1])))
    # ---- liveness (not judged when the run is tainted by the C14 stall)
    if obs["deadlock"]:
        waiting_in_poll = [d for d in obs["deadlock"] if d[2] == ("poll", "A")]
        bad.append(("deadlock", "threads deadlocked: %r" % (obs["deadlock"],)))
    elif obs["aborted"]:
        # the step budget is a bound on the run, not a verdict. A livelock spins without the virtual clock moving; a run in
        # which waiters sit out long (listed, C14) stalls while a polling thread keeps turning merely takes many steps.
        if obs["now"] >= 5.0:
            ctx.count("runs_cut_by_step_budget_during_long_virtual_waits")
            tainted = True
        else:
            bad.append(("livelock", "run aborted at virtual time %.3g s: %s" % (obs["now"], obs["aborted"])))
    if not tainted:
        for token, out, t_ret, t_done, ci in obs["outcomes"]:
            if out[0] == "exc":
                bad.append(("request-lost/%s" % out[1], "request %s ended with %s although the peer answered every request" % (token, out[1])))
        if obs["unread_at_jump"]:
            bad.append(("lost-wake-up", "the clock had to advance while a reply sat unread and waiters slept on the condition: %r" % (obs["unread_at_jump"][:2],)))
        cond_stalls = [s for s in st if any(tag == ("cond-wait", "nobody-polling") for tag in s[2])]
        if cond_stalls:
            bad.append(("slept-through-wake-up", "a waiter slept on the condition %.3g s after its reply was processed" % cond_stalls[0][1]))
    return bad, tainted


def record(ctx, obs):
    bad, tainted = judge(ctx, obs)
    ctx.case(("trace", obs["cfg"][0], obs["cfg"][2], obs["trace"]), nontrivial=obs["preemptions"] > 0)
    ctx.count("runs")
    ctx.count("preemptions_taken", obs["preemptions"])
    ctx.count("requests_completed", sum(1 for o in obs["outcomes"] if o[1][0] == "value"))
    ctx.count("frames_dispatched", len(obs["dispatch_counts"]))
    ctx.count("requests_that_failed_while_being_put_together", obs.get("failed_requests", 0))
    if tainted:
        ctx.count("tainted_by_c14")
    for key, what in bad:
        ctx.violation("C13/" + key, what, dict(cfg=obs["cfg"], seed=obs["seed"], policy=obs["policy"], script=obs["script"]))
    return bad


def real_thread_stress(ctx, rng, seconds, nthreads=8):
    """complementary free-running stress: real threads, real socketpair, tiny GIL switch interval; same history oracle.
    Bytecode-level pre-emption everywhere (not only at the instrumented lines), but schedules are whatever the OS produces."""
    import select
    import socket
    import struct
    import sys
    import threading
    import time
    import zlib
    import rpyc
    from rpyc.core import consts
    from rpyc.core.stream import SocketStream
    from rpyc.utils.helpers import BgServingThread
    from rv import refcodec as rc
    s1, s2 = socket.socketpair()
    conn = rpyc.connect_stream(SocketStream(s1), config={"sync_request_timeout": 6})
    counts, clock = {}, threading.Lock()
    orig = conn._dispatch

    def counted(data):
        with clock:
            counts[data] = counts.get(data, 0) + 1
        return orig(data)
    conn._dispatch = counted
    stop = threading.Event()
    seqs = []
    prng = __import__("random").Random(repr(("stress-peer", ctx.seed, ctx.shard[0])))

    def peer():
        buf = bytearray()
        held = []
        s2.setblocking(False)
        while not stop.is_set() or held:
            r, _, _ = select.select([s2], [], [], 0.002)
            if r:
                try:
                    chunk = s2.recv(65536)
                except (BlockingIOError, InterruptedError):
                    chunk = None
                except OSError:
                    return
                if chunk == b"":
                    return
                if chunk:
                    buf.extend(chunk)
            while len(buf) >= 5:
                n, flag = struct.unpack(">IB", buf[:5])
                if len(buf) < 5 + n + 1:
                    break
                body = bytes(buf[5:5 + n])
                del buf[:5 + n + 1]
                m = rc.parse_message(zlib.decompress(body) if flag else body)
                if m["kind"] == rc.MSG_REQUEST:
                    seqs.append(m["seq"])
                    if m["args"][0] == rc.HANDLERS["CLOSE"]:
                        return
                    held.append(m)
            prng.shuffle(held)
            k = prng.randrange(0, len(held) + 1)
            for m in held[:k]:
                handler, boxed = m["args"]
                val = ("r", boxed[1][0]) if handler == rc.HANDLERS["PING"] else None
                data = rc.msg(rc.MSG_REPLY, m["seq"], (rc.LABEL_VALUE, val))
                s2.setblocking(True)
                try:
                    s2.sendall(data)
                except OSError:
                    return
                finally:
                    s2.setblocking(False)
            del held[:k]
    results = []
    rlock = threading.Lock()

    def client(ci):
        i = 0
        crng = __import__("random").Random(repr(("stress-client", ctx.seed, ci)))
        while not stop.is_set():
            i += 1
            token = "x%d_%d" % (ci, i)
            try:
                if crng.random() < .5:
                    v = conn.sync_request(consts.HANDLE_PING, token)
                    n_cb = 1
                else:
                    ar = conn.async_request(consts.HANDLE_PING, token, timeout=6)
                    cbs = []
                    ar.add_callback(lambda r, cbs=cbs: cbs.append(1))
                    v = ar.value
                    n_cb = cbs          # judged after the run: the dispatching thread may still be about to run it
                out = ("value", v, n_cb)
            except BaseException as e:
                out = ("exc", type(e).__name__, 0)
            with rlock:
                results.append((token, out))
    old = sys.getswitchinterval()
    sys.setswitchinterval(1e-5)
    pt = threading.Thread(target=peer, daemon=True, name="rv-stress-peer")
    pt.start()
    bg = BgServingThread(conn)
    threads = [threading.Thread(target=client, args=(ci,), daemon=True) for ci in range(nthreads)]
    try:
        for t in threads:
            t.start()
        time.sleep(seconds)
        stop.set()
        for t in threads:
            t.join(60)
        stuck = [t for t in threads if t.is_alive()]
    finally:
        sys.setswitchinterval(old)
        try:
            bg.stop()
        except Exception:
            pass
        conn.close()
        pt.join(10)
        s1.close()
        s2.close()
    wit = dict(mode="real-thread-stress", threads=nthreads, seconds=seconds)
    ctx.case(("real-thread-stress", nthreads, len(results) // 1000), nontrivial=True)
    ctx.count("stress_requests_completed", len(results))
    ctx.count("stress_frames_dispatched", len(counts))
    if stuck:
        ctx.inconclusive("real-thread stress: %d client threads did not finish within 60 s" % len(stuck))
    for token, out in results:
        if out[0] == "value" and out[1] != ("r", token):
            ctx.violation("C13/stress/crossed-reply", "request %s completed with %r" % (token, out[1]), wit)
        elif out[0] == "value" and (len(out[2]) if isinstance(out[2], list) else out[2]) != 1:
            n = len(out[2]) if isinstance(out[2], list) else out[2]
            ctx.violation("C13/stress/completed-%d-times" % n, "request %s ran its callback %d times" % (token, n), wit)
        elif out[0] == "exc" and out[1] not in ("TimeoutError",):
            ctx.violation("C13/stress/request-failed/%s" % out[1], "request %s ended with %s" % (token, out[1]), wit)
        elif out[0] == "exc":
            ctx.count("stress_timeouts_(c14_stall_or_load)")
    for data, n in counts.items():
        if n != 1:
            ctx.violation("C13/stress/frame-dispatched-%d-times" % n, "an incoming frame was dispatched %d times" % n, wit)
    if len(set(seqs)) != len(seqs):
        ctx.violation("C13/stress/sequence-number-reused", "a sequence number was used twice on the wire", wit)


def run(ctx):
    from rv import suiterun
    suiterun.for_check(ctx, PROPERTY, ['sequence_numbers_issued'])
    rng = ctx.rng
    cfgs = configs()
    real_thread_stress(ctx, rng, 2.5 if ctx.quick else 20)
    if ctx.enough():
        return
    if ctx.shard[0] == 0:
        n_sys = 0
        for cfg in ([cfgs[1], cfgs[6], cfgs[11]] if ctx.quick else cfgs):
            cen = sharedconn.run_shared(cfg, 0, "scripted", census=True)
            record(ctx, cen)
            points = [(name, nth) for (name, nth, tag) in cen["census"] if name.startswith("c") or name.startswith("spawned")]
            ctx.maximum("census_yield_points", len(points))
            step = 2 if ctx.quick else 1
            for (name, nth) in points[::step]:
                for d in ((40,) if ctx.quick else (2, 40)):
                    record(ctx, sharedconn.run_shared(cfg, 0, "scripted", script=[(name, nth, d)]))
                    n_sys += 1
                if ctx.enough():
                    return
        ctx.count("systematic_delay_runs", n_sys)
    for i in range(ctx.budget(800, 600000)):
        cfg = rng.choice(cfgs)
        policy = "random" if i % 4 else "pct"
        obs = sharedconn.run_shared(cfg, (ctx.seed, ctx.shard[0], i), policy, p_switch=rng.choice([0.05, 0.2, 0.5]))
        record(ctx, obs)
        if i < 2:
            ctx.sample({"cfg": cfg, "policy": policy, "outcomes": [list(map(str, o[:3])) for o in obs["outcomes"]][:6]})
        if ctx.enough():
            break
    if not ctx.counters["preemptions_taken"]:
        ctx.inconclusive("no pre-emption taken")
    if ctx.counters["runs"] and ctx.counters["tainted_by_c14"] > 0.9 * ctx.counters["runs"]:
        ctx.inconclusive("almost every run was tainted by the C14 stall: liveness was hardly judged")
    if ctx.counters["runs"] and ctx.counters["runs_cut_by_step_budget_during_long_virtual_waits"] > 0.02 * ctx.counters["runs"]:
        ctx.inconclusive("more than 2 % of the runs were cut by the step budget")


def replay(ctx, w):
    wit = w["witness"]
    cfg = wit["cfg"]
    cfg = (cfg[0], tuple(tuple(m) for m in cfg[1]), cfg[2])
    seed = tuple(wit["seed"]) if isinstance(wit["seed"], list) else wit["seed"]
    record(ctx, sharedconn.run_shared(cfg, seed, wit["policy"], script=[tuple(x) for x in wit["script"]]))

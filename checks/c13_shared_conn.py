"""C13 - threads sharing a connection never cross, duplicate or lose replies.

Controlled scheduler; 2-3 client tasks (1-3 sync/async requests each, value and reference replies) + optional real
BgServingThread share one real Connection against a scripted reference peer that answers in seeded permuted order at
seeded virtual times. Pre-emption at every source line of serve / _dispatch / _seq_request_callback / _async_request /
AsyncResult.__call__ / AsyncResult.wait and at every INSTRUCTION of _get_seq_id.
Oracle: every request completes exactly once with the reply to that very request; every incoming frame is dispatched
exactly once; sequence numbers are unique on the wire; no deadlock; no lost wake-up (the virtual clock may not jump
while a reply sits unread and a waiter sleeps on the condition with nobody polling).
"""
from rv import sharedconn

PROPERTY = "C13"
LEVEL = "exploration"
RULE = ("configurations: 2-3 client tasks x 1-3 requests (sync / async, value / reference replies) with and without a "
        "BgServingThread; peer answers in seeded permuted order with seeded virtual delays. schedules: census run + every "
        "placement of ONE delay over its yield points (systematic), seeded random and PCT schedules. distinct = hash of the "
        "switch trace; non-trivial = at least one pre-emption taken")
ASSUMPTIONS = ["line granularity in the listed functions, instruction granularity in _get_seq_id; elsewhere only lock operations and "
               "transport calls are yield points; sampled interleavings, not all",
               "runs in which a waiter is stalled in poll() after its reply was processed by another thread (the known C14 finding) are "
               "judged for safety only; that stall is C14's verdict, counted here as 'tainted_by_c14'",
               "requests carry the default 30 s expiry in VIRTUAL time, so a lost reply surfaces as TimeoutError, a lost thread as deadlock"]
SHARDS = {"quick": 1, "thorough": 16}
MIN_DISTINCT = {"quick": 300, "thorough": 20000}


def configs():
    out = []
    for with_bg in (False, True):
        out.append((2, (("s",), ("s",)), with_bg))
        out.append((2, (("s", "s"), ("a", "s")), with_bg))
        out.append((2, (("sr", "s"), ("a", "ar", "s")), with_bg))
        out.append((3, (("s",), ("a", "s"), ("s", "sr")), with_bg))
        out.append((3, (("a", "a", "s"), ("s", "s"), ("ar",)), with_bg))
    return out


def judge(ctx, obs):
    bad = []
    st = sharedconn.stalls(obs)
    # the known C14 mechanism: the waiter re-entered serve() after its reply was processed by another thread and now sits in
    # poll(), or waits on the condition behind a thread that sits in poll()
    c14_like = [s for s in st if s[2] and all(tag in (("poll", "A"), ("cond-wait", "behind-poller")) for tag in s[2])]
    tainted = bool(c14_like)
    if not obs["ok"]:
        ctx.inconclusive("wall-clock watchdog")
        return bad, tainted
    # ---- safety (always judged)
    for token, out, t_ret, t_done, ci in obs["outcomes"]:
        if out[0] == "value":
            if out[1] != sharedconn.expected_value(token):
                bad.append(("crossed-reply", "request %s completed with %r (the reply to another request)" % (token, out[1])))
        n_cb = len(obs["callbacks"].get(token, ()))
        if n_cb > 1:
            bad.append(("completed-twice", "request %s completed %d times" % (token, n_cb)))
        if out[0] == "value" and n_cb == 0:
            bad.append(("completion-without-callback", "request %s has a value but its callback never ran" % token))
    if obs["half_published"]:
        bad.append(("ready-before-value", "an asynchronous result reported ready before its value was stored (seen at yield point %r)" % (obs["half_published"][0],)))
    for data, n in obs["dispatch_counts"].items():
        if n != 1:
            bad.append(("frame-dispatched-%s" % ("twice" if n > 1 else "never"), "an incoming frame was dispatched %d times" % n))
    if len(set(obs["seqs"])) != len(obs["seqs"]) or obs["peer_dup_seq"]:
        bad.append(("sequence-number-reused", "a sequence number was used by two requests: %r" % (sorted(obs["seqs"]),)))
    for e in obs["errors"]:
        bad.append(("task-raised/%s" % e[1], "task %s raised %s" % (e[0], e[-1])))
    # ---- liveness (not judged when the run is tainted by the C14 stall)
    if obs["deadlock"]:
        waiting_in_poll = [d for d in obs["deadlock"] if d[2] == ("poll", "A")]
        bad.append(("deadlock", "threads deadlocked: %r" % (obs["deadlock"],)))
    elif obs["aborted"]:
        bad.append(("livelock", "run aborted: %s" % obs["aborted"]))
    if not tainted:
        for token, out, t_ret, t_done, ci in obs["outcomes"]:
            if out[0] == "exc":
                bad.append(("request-lost/%s" % out[1], "request %s ended with %s although the peer answered every request" % (token, out[1])))
        if obs["unread_at_jump"]:
            bad.append(("lost-wake-up", "the clock had to advance while a reply sat unread and waiters slept on the condition: %r" % (obs["unread_at_jump"][:2],)))
        cond_stalls = [s for s in st if any(tag == ("cond-wait", "nobody-polling") for tag in s[2])]
        if cond_stalls:
            bad.append(("slept-through-wake-up", "a waiter slept on the condition %.3g s after its reply was processed" % cond_stalls[0][1]))
    return bad, tainted


def record(ctx, obs):
    bad, tainted = judge(ctx, obs)
    ctx.case(("trace", obs["cfg"][0], obs["cfg"][2], obs["trace"]), nontrivial=obs["preemptions"] > 0)
    ctx.count("runs")
    ctx.count("preemptions_taken", obs["preemptions"])
    ctx.count("requests_completed", sum(1 for o in obs["outcomes"] if o[1][0] == "value"))
    ctx.count("frames_dispatched", len(obs["dispatch_counts"]))
    if tainted:
        ctx.count("tainted_by_c14")
    for key, what in bad:
        ctx.violation("C13/" + key, what, dict(cfg=obs["cfg"], seed=obs["seed"], policy=obs["policy"], script=obs["script"]))
    return bad


def run(ctx):
    rng = ctx.rng
    cfgs = configs()
    if ctx.shard[0] == 0:
        n_sys = 0
        for cfg in (cfgs[:4] if ctx.quick else cfgs):
            cen = sharedconn.run_shared(cfg, 0, "scripted", census=True)
            record(ctx, cen)
            points = [(name, nth) for (name, nth, tag) in cen["census"] if name.startswith("c") or name.startswith("spawned")]
            ctx.maximum("census_yield_points", len(points))
            step = 1
            for (name, nth) in points[::step]:
                for d in ((40,) if ctx.quick else (2, 40)):
                    record(ctx, sharedconn.run_shared(cfg, 0, "scripted", script=[(name, nth, d)]))
                    n_sys += 1
                if ctx.enough():
                    return
        ctx.count("systematic_delay_runs", n_sys)
    for i in range(ctx.budget(1200, 1000000)):
        cfg = rng.choice(cfgs)
        policy = "random" if i % 4 else "pct"
        obs = sharedconn.run_shared(cfg, (ctx.seed, ctx.shard[0], i), policy, p_switch=rng.choice([0.05, 0.2, 0.5]))
        record(ctx, obs)
        if i < 2:
            ctx.sample({"cfg": cfg, "policy": policy, "outcomes": [list(map(str, o[:3])) for o in obs["outcomes"]][:6]})
        if ctx.enough():
            break
    if not ctx.counters["preemptions_taken"]:
        ctx.inconclusive("no pre-emption taken")
    if ctx.counters["runs"] and ctx.counters["tainted_by_c14"] > 0.9 * ctx.counters["runs"]:
        ctx.inconclusive("almost every run was tainted by the C14 stall: liveness was hardly judged")


def replay(ctx, w):
    wit = w["witness"]
    cfg = wit["cfg"]
    cfg = (cfg[0], tuple(tuple(m) for m in cfg[1]), cfg[2])
    seed = tuple(wit["seed"]) if isinstance(wit["seed"], list) else wit["seed"]
    record(ctx, sharedconn.run_shared(cfg, seed, wit["policy"], script=[tuple(x) for x in wit["script"]]))

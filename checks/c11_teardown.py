"""C11 - every way a connection can end leaves both sides clean, once, and nobody hanging.

Fault enumeration under the controlled scheduler (deterministic 'run until blocked' policy, all timeouts infinite so a
lost request is a detected deadlock, not a timeout): each workload of the family is first run as a census that counts
every transport poll/read/write call of both sides; then it is re-run once per (side, call index, fault kind), once per
byte offset inside the first packets of each direction, and under seeded random schedules for the close orderings.
Oracle: closed flags, disconnect-hook counters, tables of lent objects, outcome of every request (right value /
EOFError / never a foreign value), double close, deadlock detector.
"""
from rv import refcodec as rc, vnet, vsched

PROPERTY = "C11"
LEVEL = "fault_enumeration"
RULE = ("workloads: sync calls; async calls collected after the fault; callbacks nested 3 deep; references held in both directions; "
        "server pushing to the client; two threads of one side waiting at once (one polling, one on the condition); a peer that does "
        "not serve while the other side closes; close by A / by B inside a handler / by both at once / with a before_closed hook that "
        "talks to the peer; a close request served before the end-of-stream is delivered (held delivery). faults: for every workload EVERY individual transport call (poll, read, write) of either side fails once "
        "(kinds: transport error at the call; peer vanished just before the call), every byte offset of the first 160 bytes of "
        "each direction is cut once, with EPIPE semantics on and off; plus the operating system's own end-of-stream: a victim on a real "
        "PipeStream pair / socketpair whose peer (raw descriptors) vanishes by close or half-shutdown while the victim is idle in "
        "serve_all() or inside a handler waiting for the peer (verdict on state and on the number of polls after the peer is gone). distinct = (workload, side, call index, operation, kind) "
        "or (workload, direction, offset); non-trivial = the fault fired")
ASSUMPTIONS = ["in-memory transport faults stand for socket/pipe failures (the real streams turn those into close + EOFError: C05)",
               "every request is issued with an infinite timeout, so 'hangs' is decided by the scheduler's deadlock detector",
               "both peers' drivers call close() at the end of the workload (as applications do in finally blocks)"]
SHARDS = {"quick": 1, "thorough": 16}
MIN_DISTINCT = {"quick": 1500, "thorough": 5000}


def make_service(stats, name):
    import rpyc

    class Svc(rpyc.Service):
        def __init__(self):
            self.kept = []

        def on_connect(self, conn):
            stats[name + ".connect"] = stats.get(name + ".connect", 0) + 1

        def on_disconnect(self, conn):
            stats[name + ".disconnect"] = stats.get(name + ".disconnect", 0) + 1
            stats[name + ".closed_at_hook"] = conn.closed

        def exposed_echo(self, token):
            return ("ok", token)

        def exposed_big(self, token):
            return ("ok", token, b"z" * 5000)

        def exposed_nest(self, token, cb, depth):
            if depth <= 0:
                return ("leaf", token)
            return ("n", cb(token, depth - 1))

        def exposed_keep(self, obj):
            self.kept.append(obj)
            return [len(self.kept)]

        def exposed_push(self, token, cb):
            import rpyc as _r
            acb = _r.async_(cb)
            self.kept.append(acb)
            acb(("pushed", token))
            return ("ok", token)

        def exposed_shutdown(self, token):
            stats["conn." + name].close()
            return ("ok", token)

        def exposed_bye(self):
            return "bye"

        def exposed_nap(self, token, d):
            import rpyc.lib
            rpyc.lib.time.sleep(d)          # virtual time under the scheduler
            return ("ok", token)
    return Svc


def expected(kind, token, depth=0):
    if kind == "echo":
        return ("ok", token)
    if kind == "big":
        return ("ok", token, b"z" * 5000)
    if kind in ("push", "nap"):
        return ("ok", token)
    if kind == "nest":
        v = ("leaf", token)
        for _ in range(depth):
            v = ("n", v)
        return v
    return None


class Run(object):
    def __init__(self, workload, fault=None, cut=None, epipe=False, policy="scripted", seed=0):
        import rpyc
        self.workload = workload
        self.sched = vsched.Sched(seed=seed, policy=policy, max_steps=80000)
        self.stats = {}
        self.plan = vnet.FaultPlan(*fault) if fault else vnet.FaultPlan()
        self.net = vnet.Net(waiter=vsched.SchedWaiter(self.sched), fault=self.plan, epipe=epipe)
        if cut:
            self.net.pipe(cut[0]).cut_at = cut[1]
        from rpyc.core.channel import Channel
        cfg = {"sync_request_timeout": None, "allow_public_attrs": True}
        cfg_a = dict(cfg)
        if workload == "before_closed":
            def before_closed(root):
                self.bc_calls += 1
                self.outcomes.append(("bc", "bye", self._try(lambda: root.bye()), 0))
            cfg_a["before_closed"] = before_closed
        self.b = make_service(self.stats, "B")()._connect(Channel(self.net.b), dict(cfg))
        self.a = make_service(self.stats, "A")()._connect(Channel(self.net.a), cfg_a)
        self.stats["conn.A"], self.stats["conn.B"] = self.a, self.b
        vsched.simulate_connection(self.a, self.sched, "A")
        vsched.simulate_connection(self.b, self.sched, "B")
        self.closed_after = []
        self.close_outcome = None
        self.bc_calls = 0
        self.a_close_returned = False
        self.outcomes = []        # (kind, token, ("value", v) | ("exc", name))
        self.pushed = []

    def _try(self, thunk):
        try:
            return ("value", thunk())
        except vsched.SchedAbort:
            raise
        except BaseException as e:
            return ("exc", type(e).__name__)

    def req(self, kind, token, thunk, depth=0):
        out = self._try(thunk)
        self.outcomes.append((kind, token, out, depth))
        self.closed_after.append((token, out, self.a.closed))
        return out

    # ---- the driver of side A
    def drive_a(self):
        import rpyc
        a = self.a
        w = self.workload
        try:
            if w == "peer_not_serving":
                return
            got = self._try(lambda: a.root)
            if got[0] != "value":
                self.outcomes.append(("root", "root", got, 0))
                return
            r = got[1]
            if w == "peer_not_serving":
                return
            if w == "two_waiters":
                # two threads of this side wait on the connection at once: one polls holding the receive lock, the other
                # waits to be notified; whatever ends the connection must end BOTH waits
                state = dict(done=False)

                def second():
                    try:
                        self.req("nap", "w2", lambda: r.nap("w2", 2.0))
                    finally:
                        state["done"] = True
                self.sched.spawn(second, name="A2")
                self.req("nap", "w1", lambda: r.nap("w1", 1.0))
                self.sched.block(lambda: state["done"], None, ("join-A2",))
            if w == "sync":
                for i in range(3):
                    self.req("echo", "s%d" % i, lambda i=i: r.echo("s%d" % i))
                self.req("big", "sb", lambda: r.big("sb"))
            elif w == "async":
                aecho = rpyc.async_(r.echo)
                ars = [(i, self._try(lambda i=i: aecho("a%d" % i))) for i in range(3)]
                for i, ar in ars:
                    if ar[0] == "value":
                        self.req("echo", "a%d" % i, lambda ar=ar: ar[1].value)
                    else:
                        self.outcomes.append(("echo", "a%d" % i, ar, 0))
                del ars, aecho
            elif w == "nested":
                def cb(token, depth):
                    return r.nest(token, cb, depth)
                self.req("nest", "n1", lambda: r.nest("n1", cb, 3), depth=3)
                self.req("echo", "n2", lambda: r.echo("n2"))
            elif w == "refs":
                mine = [["mine"], {"k": 1}]
                kept = [self.req("keep", "k%d" % i, lambda o=o: r.keep(o)) for i, o in enumerate(mine)]
                self.req("echo", "r1", lambda: r.echo("r1"))
                del kept
            elif w == "push":
                self.req("push", "p1", lambda: r.push("p1", self.pushed.append))
                self.req("echo", "p2", lambda: r.echo("p2"))
            elif w == "b_closes":
                self.req("shutdown", "x1", lambda: r.shutdown("x1"))
                self.req("echo", "x2", lambda: r.echo("x2"))
            elif w in ("both_close", "before_closed"):
                self.req("echo", "c1", lambda: r.echo("c1"))
            # a request issued afterwards must work (no fault) or fail with EOFError (after a fault)
            self.req("echo", "late", lambda: r.echo("late"))
            del r
        except vsched.SchedAbort:
            raise
        except BaseException as e:       # e.g. an attribute lookup on the root proxy after the fault
            self.outcomes.append(("body", "body", ("exc", type(e).__name__), 0))
        finally:
            self.close_outcome = self._try(a.close)
            self.a_close_returned = True

    def drive_b(self):
        b = self.b
        if self.workload == "peer_not_serving":
            # the peer is busy elsewhere and does not serve: close() on the other side must return by itself
            self.sched.block(lambda: self.a_close_returned, None, ("wait-for-A-close",))
            self._try(b.close)
            return
        if self.workload == "both_close":
            try:
                b.serve(None)
                b.serve(None)
            except BaseException as e:
                if isinstance(e, vsched.SchedAbort):
                    raise
            self._try(b.close)
            return
        try:
            b.serve_all()
        except vsched.SchedAbort:
            raise
        except BaseException as e:
            self.stats["B.serve_all_exc"] = type(e).__name__

    def run(self):
        s = self.sched
        with vsched.patched_time(s, spawn=False):
            s.spawn(self.drive_a, name="A")
            s.spawn(self.drive_b, name="B")
            self.ok = s.run(watchdog=30)
        return self

    # ---- the oracle
    def judge(self):
        bad = []
        s = self.sched
        faulted = self.plan.fired is not None or any(p.cut_at is not None and p.written >= p.cut_at for p in (self.net.ab, self.net.ba))
        if s.deadlock:
            bad.append(("hang", "a side hangs forever: %r" % (s.deadlock,)))
            return bad, faulted
        if s.aborting:
            bad.append(("livelock", "run aborted: %s" % s.abort_reason))
            return bad, faulted
        for t in s.tasks:
            if t.exc is not None:
                bad.append(("driver-raised/%s" % type(t.exc).__name__, "side %s raised %r" % (t.name, t.exc)))
        for name, conn in (("A", self.a), ("B", self.b)):
            n = self.stats.get(name + ".disconnect", 0)
            if not conn.closed:
                bad.append(("not-closed/" + name, "side %s is not closed at the end" % name))
            if n > 1:
                bad.append(("hook-ran-twice/" + name, "disconnect hook of side %s ran %d times" % (name, n)))
            if conn.closed and n == 0:
                bad.append(("hook-missing/" + name, "side %s reports closed but its disconnect hook never ran" % name))
            if self.stats.get(name + ".closed_at_hook") is False:
                bad.append(("hook-before-closed-flag/" + name, "disconnect hook ran while the connection did not yet report closed"))
            if conn._local_objects._dict:
                bad.append(("objects-kept/" + name, "side %s still holds %d objects lent to the peer" % (name, len(conn._local_objects._dict))))
            try:
                conn.close()
            except BaseException as e:
                bad.append(("second-close-raises/" + name, "closing again raised %r" % (e,)))
            if self.stats.get(name + ".disconnect", 0) != n:
                bad.append(("second-close-not-noop/" + name, "closing again ran the disconnect hook again"))
        if self.close_outcome is not None and self.close_outcome[0] == "exc":
            bad.append(("close-raises/%s" % self.close_outcome[1], "close() raised %s" % self.close_outcome[1]))
        if self.bc_calls > 1:
            bad.append(("close-reentered", "the before_closed hook ran %d times: close() was carried out twice" % self.bc_calls))
        for kind, token, out, depth in self.outcomes:
            if out[0] == "value":
                exp = expected(kind, token, depth)
                if exp is not None and out[1] != exp:
                    bad.append(("foreign-value/" + kind, "request %s returned %r, the peer would have sent %r" % (token, out[1], exp)))
                if kind == "keep" and not (hasattr(out[1], "____id_pack__")):
                    bad.append(("foreign-value/keep", "keep returned %r" % (out[1],)))
            elif out[1] == "EOFError":
                if not faulted and self.workload not in ("b_closes", "both_close", "peer_not_serving") and token != "late":
                    bad.append(("spurious-eof/" + kind, "request %s failed with EOFError although nothing went wrong" % token))
            elif out[1] == "Stalled":
                bad.append(("hang", "request %s never completed" % token))
            else:
                bad.append(("wrong-failure/%s/%s" % (kind, out[1]), "request %s failed with %s, expected EOFError" % (token, out[1])))
        fired = self.plan.fired
        if fired is not None and fired[0] == "A" and fired[1] in ("poll", "read") and self.plan.kind == "eof":
            # the failure met side A while it was serving (waiting for a reply): it must be closed from then on
            seen_fail = False
            for token, out, closed in self.closed_after:
                if out == ("exc", "EOFError"):
                    seen_fail = True
                if seen_fail and not closed:
                    bad.append(("not-closed-after-failure-while-serving", "side A met the failure while serving (request %s) but does not report closed" % token))
                    break
        for p in self.pushed:
            if p != ("pushed", "p1"):
                bad.append(("foreign-value/push", "the server pushed %r" % (p,)))
        if not faulted and self.workload not in ("b_closes", "both_close"):
            done = {t for _, t, out, _ in self.outcomes if out[0] == "value"}
            want = {"sync": {"s0", "s1", "s2", "sb"}, "async": {"a0", "a1", "a2"}, "nested": {"n1", "n2"}, "refs": {"k0", "k1", "r1"},
                    "push": {"p1", "p2"}, "before_closed": {"c1"}, "two_waiters": {"w1", "w2"}}.get(self.workload, set())
            if not want <= done:
                bad.append(("request-failed-without-fault", "requests %r did not complete in a fault-free run" % (sorted(want - done),)))
        return bad, faulted


WORKLOADS = ["sync", "async", "nested", "refs", "push", "b_closes", "before_closed", "peer_not_serving", "two_waiters"]


def record(ctx, r, desc, wit):
    bad, faulted = r.judge()
    if not r.ok:
        ctx.inconclusive("wall-clock watchdog fired in %r" % (desc,))
    ctx.case(desc, nontrivial=faulted or desc[0] in ("census", "order"))
    ctx.count("runs")
    if faulted:
        ctx.count("faults_fired")
    ctx.count("requests_judged", len(r.outcomes))
    ctx.count("eof_outcomes", sum(1 for o in r.outcomes if o[2] == ("exc", "EOFError")))
    for key, what in bad:
        ctx.violation("C11/%s/%s" % (desc[1] if len(desc) > 1 else "x", key), what, wit)
    return bad


def told_to_close(ctx):
    """the close request has arrived but the end-of-stream has not: the side that is told to close must become closed"""
    import rpyc
    stats = {}
    net, a, b = vnet.make_pair(make_service(stats, "A")(), make_service(stats, "B")(), held=True)
    net.hold_eof = True
    try:
        a.close()
    except vnet.Stalled as e:
        ctx.violation("C11/close-blocks", "close() waits for the peer instead of returning: %s" % (e,))
        return
    n = 0
    while net.deliver_frame("A->B") and n < 5:
        try:
            b.serve(0)
        except EOFError:
            pass
        n += 1
    ctx.case(("told-to-close", "held"), nontrivial=True)
    ctx.count("runs")
    if not b.closed:
        ctx.violation("C11/told-to-close/not-closed", "the peer's close request was served but the connection does not report closed (end-of-stream not yet seen)")
    elif stats.get("B.disconnect", 0) != 1:
        ctx.violation("C11/told-to-close/hook-count", "told to close: disconnect hook ran %d times" % stats.get("B.disconnect", 0))
    net.hold_eof = False
    net.deliver_eof("A->B")
    try:
        b.close()
    except Exception as e:
        ctx.violation("C11/told-to-close/second-close-raises", "close after being told to close raised %r" % (e,))
    if stats.get("B.disconnect", 0) > 1:
        ctx.violation("C11/told-to-close/hook-ran-twice", "disconnect hook ran twice")


def real_streams(ctx):
    """the same clauses over the operating system's own descriptors: a victim Connection on a PipeStream pair / a socketpair,
    its peer played by the harness on raw descriptors (independent codec), which VANISHES without a CLOSE request - descriptors
    closed, or (sockets) only the sending half shut down - while the victim is (a) idle in serve_all(), (b) inside a request
    handler that waits for the peer's answer to a callback. Verdicts are on state and on logical counts: after the peer is gone
    the victim must be closed after a bounded NUMBER of polls of its stream (a transport that keeps reporting 'nothing to
    read' at end-of-stream makes it spin for ever), its disconnect hook must have run once, nothing may stay lent, the serving
    thread must have ended. The wall clock only bounds the wait (inconclusive)."""
    import os
    import socket
    import threading
    import time
    import rpyc
    from rpyc.core import stream as stream_mod
    from rpyc.core.channel import Channel
    H = rc.HANDLERS
    for transport in ("pipes", "socketpair"):
        for state in ("idle", "in_callback"):
            for how in (("close",) if transport == "pipes" else ("close", "shutdown_wr")):
                stats = dict(connect=0, disconnect=0)

                class Svc(rpyc.Service):
                    def on_connect(self, conn):
                        stats["connect"] += 1

                    def on_disconnect(self, conn):
                        stats["disconnect"] += 1

                    def exposed_make(self):
                        return [1, 2, 3]

                    def exposed_call_me_back(self, fn):
                        try:
                            return fn(1)
                        except EOFError:
                            stats["callback_eof"] = stats.get("callback_eof", 0) + 1
                            raise
                if transport == "pipes":
                    r1, w1 = os.pipe()      # harness -> victim
                    r2, w2 = os.pipe()      # victim -> harness
                    vstream = stream_mod.PipeStream(os.fdopen(r1, "rb", 0), os.fdopen(w2, "wb", 0))
                    h_in, h_out = r2, w1
                    hsock = None
                else:
                    s1, hsock = socket.socketpair()
                    vstream = stream_mod.SocketStream(s1)
                    h_in = h_out = hsock.fileno()
                polls = dict(n=0, after=0, vanished=False)
                orig_poll = stream_mod.Stream.poll

                def counting_poll(self, timeout, _orig=orig_poll, _v=vstream, _p=polls):
                    if self is _v:
                        _p["n"] += 1
                        if _p["vanished"]:
                            _p["after"] += 1
                            if _p["after"] > 2000:
                                # enough evidence; stop the spin so that the process is not left with a busy thread
                                raise EOFError("harness: end of observation")
                    return _orig(self, timeout)
                stream_mod.Stream.poll = counting_poll
                victim = Svc()._connect(Channel(vstream), {"sync_request_timeout": None})
                end = []

                def serve(victim=victim, end=end):
                    try:
                        victim.serve_all()
                    except BaseException as e:
                        end.append(e)
                th = threading.Thread(target=serve, daemon=True, name="rv-real-victim")
                th.start()
                fp = rc.FrameParser()
                pending = []

                def h_send(kind, seq, args):
                    data = rc.msg(kind, seq, args)
                    while data:
                        n = os.write(h_out, data)
                        data = data[n:]

                def h_recv(deadline=10.0):
                    t0 = time.time()
                    import select
                    while True:
                        if pending:
                            return rc.parse_message(pending.pop(0)[0])
                        if time.time() - t0 > deadline:
                            return None
                        if select.select([h_in], [], [], 0.5)[0]:
                            chunk = os.read(h_in, 65536)
                            if not chunk:
                                return None
                            pending.extend(fp.feed(chunk))
                wit = dict(family="real-streams", transport=transport, victim_state=state, how=how)
                try:
                    h_send(rc.MSG_REQUEST, 1, (H["GETROOT"], (rc.LABEL_VALUE, ())))
                    m = h_recv()
                    if not m or m["kind"] != rc.MSG_REPLY:
                        ctx.inconclusive("real-streams: no GETROOT reply (%r)" % (m,))
                        continue
                    root = (rc.LABEL_LOCAL_REF, tuple(m["args"][1]))
                    h_send(rc.MSG_REQUEST, 2, (H["CALLATTR"], (rc.LABEL_TUPLE, (root, (rc.LABEL_VALUE, "make"), (rc.LABEL_VALUE, ()), (rc.LABEL_VALUE, ())))))
                    m = h_recv()       # the victim now lends a list to the peer
                    lent_before = len(victim._local_objects._dict)
                    if state == "in_callback":
                        fn = (rc.LABEL_REMOTE_REF, ("builtins.function", 4242, 4343))
                        h_send(rc.MSG_REQUEST, 3, (H["CALLATTR"], (rc.LABEL_TUPLE, (root, (rc.LABEL_VALUE, "call_me_back"),
                                                                         (rc.LABEL_TUPLE, (fn,)), (rc.LABEL_VALUE, ())))))
                        m = h_recv()   # the victim's CALL request for our function: never answered
                        if not m or m["kind"] != rc.MSG_REQUEST:
                            ctx.inconclusive("real-streams: victim did not call back (%r)" % (m,))
                    polls["vanished"] = True
                    if hsock is not None:
                        if how == "shutdown_wr":
                            hsock.shutdown(socket.SHUT_WR)
                        else:
                            hsock.close()
                            hsock = None
                    else:
                        os.close(h_out)
                        os.close(h_in)
                        h_in = h_out = None
                    t0 = time.time()
                    while time.time() - t0 < 20 and th.is_alive() and polls["after"] <= 2000:
                        time.sleep(0.01)
                    ctx.case(("real", transport, state, how), nontrivial=True)
                    ctx.count("real_stream_endings")
                    ctx.maximum("polls_after_peer_vanished", polls["after"])
                    if polls["after"] > 2000 or (polls["after"] > 50 and not victim.closed):
                        ctx.violation("C11/real/%s/%s/end-of-stream-never-noticed" % (transport, state), "the peer vanished (%s) and the victim polled its stream %d "
                                      "more times without ever meeting end-of-stream: it is not closed (closed=%s), hook ran %d times, %d objects still lent" % (
                                          how, polls["after"], victim.closed, stats["disconnect"], len(victim._local_objects._dict)), wit)
                        continue
                    if th.is_alive():
                        ctx.inconclusive("real-streams: victim thread still alive after 20 s with only %d polls (%s/%s/%s)" % (polls["after"], transport, state, how))
                        continue
                    if not victim.closed:
                        ctx.violation("C11/real/%s/%s/not-closed" % (transport, state), "serving ended (%r) but the connection does not report closed" % (end[:1],), wit)
                    if stats["disconnect"] != 1:
                        ctx.violation("C11/real/%s/%s/hook-count" % (transport, state), "disconnect hook ran %d times" % stats["disconnect"], wit)
                    if len(victim._local_objects._dict):
                        ctx.violation("C11/real/%s/%s/objects-still-lent" % (transport, state), "%d objects still lent after the end (before: %d)" % (
                            len(victim._local_objects._dict), lent_before), wit)
                    if state == "in_callback" and not stats.get("callback_eof"):
                        ctx.violation("C11/real/%s/%s/pending-request-not-failed" % (transport, state), "the handler waiting for the peer's answer did not get EOFError", wit)
                finally:
                    stream_mod.Stream.poll = orig_poll
                    for fd in (h_in, h_out) if hsock is None and transport == "pipes" else ():
                        if fd is not None:
                            try:
                                os.close(fd)
                            except OSError:
                                pass
                    if hsock is not None:
                        hsock.close()
                    try:
                        victim.close()
                    except BaseException:
                        pass
                    th.join(5)


def ended_stays_ended(ctx):
    """'every request that was pending ... or issued afterwards fails with EOFError' - and keeps failing that way when the process
    moves on: after a connection over real descriptors has ended, new descriptors are opened (they get the numbers just released,
    and stay idle); waiting for a request that was pending, serving, polling and issuing a new request on the ended connection must
    all fail with EOFError at once - not wait on somebody else's descriptor until a time limit runs out."""
    import socket
    import rpyc
    from rpyc.core import consts, stream as stream_mod
    from rpyc.core.channel import Channel
    for transport in ("socketpair", "pipes"):
        for ending in ("local-close", "peer-gone"):
            if transport == "socketpair":
                s1, s2 = socket.socketpair()
                vstream, other = stream_mod.SocketStream(s1), s2
            else:
                vstream, other = stream_mod.PipeStream.create_pair()
            victim = rpyc.VoidService()._connect(Channel(vstream), {"sync_request_timeout": 0.4})
            wit = dict(family="ended-stays-ended", transport=transport, ending=ending)
            spare = []
            try:
                victim.poll(0)                                   # the connection has been polled at least once while alive
                pending = victim.async_request(consts.HANDLE_PING, "never answered")
                pending.set_expiry(0.4)
                if ending == "local-close":
                    victim.close()
                else:
                    other.close()
                    try:
                        victim.serve(0.2)                        # meets end-of-stream while serving
                    except EOFError:
                        pass
                if not victim.closed:
                    ctx.violation("C11/real/%s/ended/not-closed" % transport, "after %s the connection does not report closed" % ending, wit)
                    continue
                # the process moves on: idle descriptors that take over the numbers just released
                for _ in range(3):
                    spare.extend(socket.socketpair())
                outcomes = {}
                for what, thunk in (("wait for the pending request", pending.wait), ("serve", lambda: victim.serve(0.4)), ("poll", lambda: victim.poll(0.4)),
                                    ("new request", lambda: victim.sync_request(consts.HANDLE_PING, "after the end"))):
                    try:
                        outcomes[what] = "returned %r" % (thunk(),)
                    except EOFError:
                        outcomes[what] = "EOFError"
                    except BaseException as e:
                        outcomes[what] = type(e).__name__
                ctx.case(("ended-stays-ended", transport, ending), nontrivial=True)
                ctx.count("ended_connection_probes", len(outcomes))
                wrong = {k: v for k, v in outcomes.items() if v != "EOFError"}
                if wrong:
                    ctx.violation("C11/real/%s/ended/later-use-does-not-fail-with-EOFError" % transport, "after %s, with new descriptors opened in the process, using the ended "
                                  "connection gave %r instead of EOFError" % (ending, wrong), wit)
            finally:
                for x in spare:
                    x.close()
                try:
                    other.close()
                except Exception:
                    pass
                try:
                    victim.close()
                except BaseException:
                    pass


def serving_loop_left_by_a_failure(ctx):
    """'a side that meets the failure while serving becomes closed': a thread sits in serve_all() on a real socketpair and the loop is
    left by something that is NOT an end-of-stream - (a) the transport's poll() fails with an OS error (EIO) while the side is idle
    or right after it has answered a request, (b) a handler raises KeyboardInterrupt, which the default configuration propagates
    locally, (c) the peer sends a packet that does not decode. Whatever comes out of serve_all(), once it has returned the side must
    report closed, its disconnect hook must have run exactly once, nothing may still be held for the peer, and closing again is a
    no-op. Verdict on state after the serving thread has ended (the join only bounds the observation)."""
    import errno
    import socket
    import threading
    import rpyc
    from rpyc.core import stream as stream_mod
    from rpyc.core.channel import Channel

    class FailingPollStream(stream_mod.SocketStream):
        __slots__ = ("armed", "npolls")

        def poll(self, timeout):
            from rpyc.lib import Timeout
            t = Timeout(timeout)
            while True:
                self.npolls = getattr(self, "npolls", 0) + 1
                if getattr(self, "armed", False):
                    raise OSError(errno.EIO, "Input/output error (injected into poll)")
                if stream_mod.SocketStream.poll(self, min(0.02, t.timeleft()) if t.finite else 0.02):
                    return True
                if t.expired():
                    return False

    for cause in ("poll-fails-idle", "poll-fails-after-reply", "handler-raises-KeyboardInterrupt", "undecodable-packet"):
        hooks = []

        class Svc(rpyc.Service):
            def on_disconnect(self, conn):
                hooks.append(1)

            def exposed_make(self):
                return [1, 2, 3]

            def exposed_interrupt(self):
                raise KeyboardInterrupt()
        s1, s2 = socket.socketpair()
        vstream = FailingPollStream(s1)
        victim = Svc()._connect(Channel(vstream), {})
        peer = rpyc.VoidService()._connect(Channel(stream_mod.SocketStream(s2)), {"sync_request_timeout": 5})
        out = {}

        def serve(victim=victim, out=out):
            try:
                victim.serve_all()
                out["left"] = "returned"
            except BaseException as e:
                out["left"] = type(e).__name__
        th = threading.Thread(target=serve, daemon=True, name="rv-serving-loop")
        th.start()
        wit = dict(family="serving-loop-left-by-a-failure", cause=cause)
        try:
            held = peer.root.make()            # the victim now holds an object for the peer
            if cause == "poll-fails-idle":
                vstream.armed = True
            elif cause == "poll-fails-after-reply":
                ar = rpyc.async_(peer.root.make)()
                ar.wait()
                vstream.armed = True
            elif cause == "handler-raises-KeyboardInterrupt":
                ar = rpyc.async_(peer.root.interrupt)()
            else:
                peer._channel.send(b"\xff\xfe this is not a message")
            th.join(10)
            ctx.case(("serving-loop-left", cause), nontrivial=True)
            ctx.count("serving_loops_left_by_a_failure")
            if th.is_alive():
                ctx.inconclusive("serving-loop scenario %s: serve_all() did not end within 10 s" % cause)
                continue
            wit["serve_all"] = out.get("left")
            if not victim.closed:
                ctx.violation("C11/real/serving-loop/%s/not-closed" % cause, "serve_all() was left (%s) by a failure that is not an end-of-stream, and the side "
                              "does not report closed (disconnect hook ran %d times, %d object(s) still held for the peer)" % (
                                  out.get("left"), len(hooks), len(victim._local_objects._dict) if victim._local_objects is not None else 0), wit)
                continue
            if len(hooks) != 1:
                ctx.violation("C11/real/serving-loop/%s/hook-count" % cause, "the disconnect hook ran %d times" % len(hooks), wit)
            try:
                victim.close()
            except Exception as e:
                ctx.violation("C11/real/serving-loop/%s/second-close-raises" % cause, "closing again raised %r" % (e,), wit)
            if len(hooks) > 1:
                ctx.violation("C11/real/serving-loop/%s/hook-ran-twice" % cause, "the disconnect hook ran %d times" % len(hooks), wit)
            # the peer: whatever it asks now fails with EOFError (or its own time limit), it does not hang and gets no value
            try:
                v = peer.root.make()
                ctx.violation("C11/real/serving-loop/%s/peer-got-a-value" % cause, "a request issued after the serving side had ended returned %r" % (v,), wit)
            except (EOFError, TimeoutError):
                pass
            except Exception as e:
                ctx.violation("C11/real/serving-loop/%s/peer-wrong-exception" % cause, "a request issued after the serving side had ended raised %r" % (e,), wit)
        except Exception as e:
            ctx.violation("C11/real/serving-loop/%s/aborted/%s" % (cause, type(e).__name__), "scenario aborted: %r" % (e,), wit)
        finally:
            held = ar = None
            for c in (peer, victim):
                try:
                    c.close()
                except BaseException:
                    pass
            th.join(3)


def local_close_wakes_waiters(ctx):
    """'every request that was blocked waiting fails with EOFError: none hangs' when the LOCAL side closes: a thread of the closing
    side sits in a request to a peer that stays silent (no time limit), another thread of the same side calls close(). Real
    SocketStream over a socketpair and real PipeStream pair (the kernel decides whether a sleeping poll() notices). Verdict on state: close() has returned,
    the stream is closed, yet the waiter is still inside poll(); the wall clock only bounds the observation."""
    import socket
    import sys as _sys
    import threading
    import time
    import rpyc
    from rpyc.core import consts, stream as stream_mod
    from rpyc.core.channel import Channel
    for transport, waiter_kind in (("socketpair", "sync-request"), ("socketpair", "serve_all"), ("pipes", "sync-request"), ("pipes", "serve_all")):
        if transport == "socketpair":
            s1, s2 = socket.socketpair()
            vstream = stream_mod.SocketStream(s1)
        else:
            vstream, s2 = stream_mod.PipeStream.create_pair()
        victim = rpyc.VoidService()._connect(Channel(vstream), {"sync_request_timeout": None})
        out = {}

        def waiter(victim=victim, out=out, waiter_kind=waiter_kind):
            try:
                if waiter_kind == "sync-request":
                    out["value"] = victim.sync_request(consts.HANDLE_PING, "anybody there?")
                else:
                    victim.serve_all()
                    out["value"] = "serve_all returned"
            except BaseException as e:
                out["exc"] = e
        th = threading.Thread(target=waiter, daemon=True, name="rv-local-close-waiter")
        th.start()
        wit = dict(family="local-close", transport=transport, waiter=waiter_kind)
        try:
            def in_poll():
                fr = _sys._current_frames().get(th.ident)
                while fr is not None:
                    if fr.f_code is stream_mod.Stream.poll.__code__:
                        return True
                    fr = fr.f_back
                return False
            t0 = time.time()
            while time.time() - t0 < 10 and not in_poll():
                time.sleep(0.01)
            if not in_poll():
                ctx.inconclusive("local-close: the waiter never reached poll()")
                continue
            time.sleep(0.05)
            victim.close()
            t_closed = time.time()
            while time.time() - t_closed < 3 and th.is_alive():
                time.sleep(0.01)
            ctx.case(("local-close", transport, waiter_kind), nontrivial=True)
            ctx.count("local_closes_with_a_blocked_thread")
            if th.is_alive():
                if in_poll() and victim.closed:
                    ctx.violation("C11/real/%s/local-close/blocked-%s-hangs" % (transport, waiter_kind), "close() returned %.1f s ago and the connection reports closed, "
                                  "but the thread that was blocked in a %s is still asleep inside poll() on the closed stream" % (time.time() - t_closed, waiter_kind), wit)
                else:
                    ctx.inconclusive("local-close: waiter still alive in an undecided state")
                continue
            if waiter_kind == "sync-request" and not isinstance(out.get("exc"), EOFError):
                ctx.violation("C11/real/%s/local-close/wrong-outcome" % transport, "the blocked request ended with %r, not EOFError" % (out.get("exc", out.get("value")),), wit)
        finally:
            try:
                s2.close()       # lets a sleeper go, whatever happened
            except OSError:
                pass
            try:
                victim.close()
            except BaseException:
                pass
            th.join(3)


def run(ctx):
    from rv import suiterun
    suiterun.for_check(ctx, PROPERTY, ['cleanups'])
    rng = ctx.rng
    jobs = []
    told_to_close(ctx)
    if ctx.shard[0] == 0:
        ended_stays_ended(ctx)
        local_close_wakes_waiters(ctx)
        serving_loop_left_by_a_failure(ctx)
        real_streams(ctx)
        if ctx.enough():
            return
    for w in WORKLOADS:
        for epipe in (False, True):
            cen = Run(w, epipe=epipe).run()
            record(ctx, cen, ("census", w, epipe), dict(workload=w, epipe=epipe))
            trace = list(cen.plan.trace)
            ctx.maximum("transport_calls_in_census", len(trace))
            per_side = {"A": 0, "B": 0}
            for side, op in trace:
                i = per_side[side]
                per_side[side] += 1
                for kind in ("eof", "peer_closed"):
                    jobs.append(("call", w, epipe, side, i, op, kind))
            for direction in ("A->B", "B->A"):
                total = cen.net.pipe(direction).written
                for off in range(0, min(total, 160)):
                    jobs.append(("cut", w, epipe, direction, off))
    ctx.extra["fault_points_enumerated"] = len(jobs)
    if ctx.quick:
        # every call-level point of every workload (EPIPE off) + a seeded third of the rest
        keep = [j for j in jobs if (j[0] == "call" and not j[2]) or rng.random() < .3]
        jobs = keep
    else:
        jobs = [j for i, j in enumerate(jobs) if i % ctx.shard[1] == ctx.shard[0]]
        ctx.extra["exhaustive"] = True
    for j in jobs:
        if j[0] == "call":
            _, w, epipe, side, i, op, kind = j
            r = Run(w, fault=(side, i, kind), epipe=epipe).run()
            fired = r.plan.fired
            record(ctx, r, ("call", w, epipe, side, i, op, kind), dict(workload=w, epipe=epipe, side=side, index=i, op=op, kind=kind))
            if fired is None:
                ctx.count("fault_points_not_reached")
        else:
            _, w, epipe, direction, off = j
            r = Run(w, cut=(direction, off), epipe=epipe).run()
            record(ctx, r, ("cut", w, epipe, direction, off), dict(workload=w, epipe=epipe, direction=direction, offset=off))
        if ctx.enough():
            return
    # close orderings under seeded random schedules (both sides closing at once, close inside a handler, ...)
    for i in range(ctx.budget(150, 8000)):
        w = rng.choice(["both_close", "b_closes", "before_closed", "sync", "push"])
        seed = (ctx.seed, ctx.shard[0], i)
        r = Run(w, policy="random", seed=seed, epipe=rng.random() < .5).run()
        record(ctx, r, ("order", w, r.sched.trace_hash()), dict(workload=w, seed=list(seed), policy="random"))
        if ctx.enough():
            return
    ctx.sample({"fault point": list(jobs[0]) if jobs else None})
    ctx.sample({"fault point": list(jobs[len(jobs) // 2]) if jobs else None})
    if not ctx.counters["faults_fired"]:
        ctx.inconclusive("no fault fired")

"""C15 - asynchronous results: one final outcome, callbacks once, timeouts exact.

Reference state machine stepped beside the real AsyncResult under the virtual clock (lib/rv/vsched.py): a driver task
executes a generated list of timed events (advance, ready / error / expired queries, add_callback, wait, .value) on a
real Connection while a scripted peer task delivers the reply (value or exception), unrelated requests and requests
whose handler sleeps across the expiry at scripted virtual instants.  Compared after every event: the answer, the
virtual instant at which the call returned / raised, and the callback log.
"""
import struct
import zlib

from rv import refcodec as rc, vnet, vsched

PROPERTY = "C15"
LEVEL = "exploration"
RULE = ("event lists over {reply (value | exception) at t | never, expiry in {none, 0, 0.001, 1, 30, -1}, unrelated peer requests, peer "
        "requests whose handler sleeps across the expiry, callbacks registered before / after readiness, ready / error / expired / "
        "value / wait at seeded instants}, created through async_request(timeout=), async_() + set_expiry, timed(), and sync_request "
        "with the configured timeout; plus enumerated boundary lists (reply at expiry -eps / exactly / +eps); plus schedules in which "
        "callbacks are registered by one thread while another thread dispatches the reply (line-level pre-emption inside "
        "add_callback and __call__). distinct = the event list / switch trace; non-trivial = at least one query after creation")
ASSUMPTIONS = ["'reply arrives' means 'is dispatched': bytes sitting unread in the buffer past the expiry are a late reply; `ready` serves "
               "at most what poll_all(0) serves (one transaction) and then answers",
               "a negative timeout means no expiry (rpyc.lib.Timeout defines it so; the statement is silent)",
               "a reply written at exactly the expiry instant may be taken either way, but the outcome must then stay final"]
SHARDS = {"quick": 1, "thorough": 16}
MIN_DISTINCT = {"quick": 5000, "thorough": 100000}
EPS = 1e-6


class Model(object):
    """reference: single-threaded owner of the connection serving an arrival queue"""

    def __init__(self, now, timeout, inbox):
        self.now = now
        self.E = None if timeout is None or timeout < 0 else now + timeout
        self.inbox = sorted(inbox)          # (arrival, kind, payload): kind reply / noise(d)
        self.ready = False
        self.is_exc = None
        self.value = None
        self.cbs = []
        self.cblog = []
        self.tie = False

    def set_expiry(self, timeout):
        self.E = None if timeout is None or timeout < 0 else self.now + timeout

    def expired_now(self):
        return self.E is not None and self.now >= self.E

    def _process(self, item):
        arrival, kind, payload = item
        if kind == "reply":
            if not self.ready and self.expired_now():
                return                       # late reply: discarded, no callbacks
            self.ready = True
            self.is_exc, self.value = payload
            self._drain()
        else:
            self.now += payload             # the handler runs (virtual sleep)

    def serve_one_available(self):
        if self.inbox and self.inbox[0][0] <= self.now:
            self._process(self.inbox.pop(0))
            return True
        return False

    def q_ready(self):
        if self.ready:
            return True
        if self.expired_now():
            return False
        self.serve_one_available()
        return self.ready

    def q_error(self):
        return bool(self.q_ready() and self.is_exc)

    def q_expired(self):
        return not self.ready and self.expired_now()

    def wait(self):
        """-> 'ok' | 'timeout' | 'hang'"""
        while not self.ready and not self.expired_now():
            nxt = self.inbox[0] if self.inbox else None
            if nxt is None or (self.E is not None and nxt[0] > self.E):
                if self.E is None:
                    return "hang"
                self.now = max(self.now, self.E)
                continue
            if self.E is not None and nxt[0] == self.E:
                self.tie = True
            self.now = max(self.now, nxt[0])
            self._process(self.inbox.pop(0))
        return "ok" if self.ready else "timeout"

    def add_callback(self, name, nested=False):
        self.cbs.append((name, nested))
        if self.ready:
            self._drain()

    def _drain(self):
        # registration order, each exactly once; a callback registered from inside a running callback queues behind the
        # ones registered before it and has run by the time the registering call returns
        while self.cbs:
            name, nested = self.cbs.pop(0)
            self.cblog.append(name)
            if nested:
                self.cbs.append((name + "/inner", False))


class Peer(object):
    """writes scripted frames at scripted virtual instants (after learning the request's seq)"""

    def __init__(self, sched, stream, script, sleeper_id):
        self.sched, self.s, self.script, self.sleeper_id = sched, stream, sorted(script), sleeper_id
        self.seq = None

    def run(self):
        s = self.s
        try:
            hdr = s.read(5)
            n, flag = struct.unpack(">IB", hdr)
            body = s.read(n)
            s.read(1)
            m = rc.parse_message(zlib.decompress(body) if flag else body)
            self.seq = m["seq"]
            k = 7000
            for (t, kind, payload) in self.script:
                if t > self.sched.now:
                    self.sched.time.sleep(t - self.sched.now)
                if kind == "reply_boxed":
                    s.write(rc.msg(rc.MSG_REPLY, self.seq, payload))
                elif kind == "reply":
                    is_exc, val = payload
                    if is_exc:
                        rec = (("builtins", "KeyError"), (val,), (("_remote_version", "5.0.1"),), "tb")
                        s.write(rc.msg(rc.MSG_EXCEPTION, self.seq, rec))
                    else:
                        s.write(rc.msg(rc.MSG_REPLY, self.seq, (rc.LABEL_VALUE, val)))
                else:
                    k += 1
                    boxed = (rc.LABEL_TUPLE, ((rc.LABEL_LOCAL_REF, self.sleeper_id), (rc.LABEL_VALUE, (payload,)), (rc.LABEL_VALUE, ())))
                    s.write(rc.msg(rc.MSG_REQUEST, k, (rc.HANDLERS["CALL"], boxed)))
            # swallow whatever the owner sends (responses to our requests, release notices) until it closes
            while True:
                s.read(1)
        except EOFError:
            return


def run_case(case):
    """case = dict(via, timeout, t0, script=[(t, kind, payload)], events=[(t, op, arg)]); returns (mismatches, info)"""
    import rpyc
    from rpyc.core.channel import Channel
    from rpyc.core import consts
    from rpyc.utils.helpers import async_, timed
    sched = vsched.Sched(seed=0, policy="scripted", max_steps=100000)
    net = vnet.Net(waiter=vsched.SchedWaiter(sched))
    via, timeout = case["via"], case["timeout"]
    # "sync, configured late": the limit is put into the connection's configuration after the connection object exists (what a
    # service's on_connect does, e.g. the classic service), not handed over at construction
    late = bool(case.get("late_config")) and via == "sync"
    cfg = {"sync_request_timeout": timeout if (via == "sync" and not late) else 30}
    conn = rpyc.VoidService()._connect(Channel(net.a), cfg)
    vsched.simulate_connection(conn, sched, "A")

    def sleeper(d):
        sched.time.sleep(d)
        return d
    sleeper_id = conn._box(sleeper)[1]
    peer = Peer(sched, net.b, case["script"], sleeper_id)
    log = []           # (event index, op, real answer, real now)
    cblog = []
    state = {}

    def driver():
        wrapper = None
        if via == "timed":
            # the wrapper is made first and used later (and, below, more than once): its limit counts from each CALL
            wproxy = conn._unbox((consts.LABEL_REMOTE_REF, ("builtins.function", 77, 78)))
            wrapper = timed(wproxy, timeout)
        sched.time.sleep(case["t0"])
        token = "tok"
        if via == "sync":
            if late:
                conn._config["sync_request_timeout"] = timeout
            t_start = sched.now
            try:
                v = conn.sync_request(consts.HANDLE_PING, token)
                log.append((0, "sync", ("ok", v), sched.now))
            except vsched.SchedAbort:
                raise
            except BaseException as e:
                log.append((0, "sync", ("exc", type(e).__name__), sched.now))
            conn.close()
            return
        if via == "async_request":
            ar = conn.async_request(consts.HANDLE_PING, token, timeout=timeout)
        else:
            proxy = conn._unbox((consts.LABEL_REMOTE_REF, ("builtins.function", 77, 78)))
            if via == "timed":
                ar = wrapper(token)
            else:
                ap = async_(proxy)
                ar = ap(token)
                ar.set_expiry(timeout)
            object.__setattr__(proxy, "____refcount__", 0) if False else None
        state["ar"] = ar
        for i, (t, op, arg) in enumerate(case["events"]):
            if t > sched.now:
                sched.time.sleep(t - sched.now)
            try:
                if op == "ready":
                    r = ("ok", ar.ready)
                elif op == "error":
                    r = ("ok", bool(ar.error))
                elif op == "expired":
                    r = ("ok", ar.expired)
                elif op == "wait":
                    ar.wait()
                    r = ("ok", None)
                elif op == "value":
                    r = ("ok", ar.value)
                elif op == "callback":
                    ar.add_callback(lambda res, arg=arg: cblog.append(arg))
                    r = ("ok", None)
                elif op == "callback_nested":
                    # a callback that registers a further callback on the same result while it runs
                    def outer(res, arg=arg):
                        cblog.append(arg)
                        res.add_callback(lambda r2, arg=arg: cblog.append(arg + "/inner"))
                    ar.add_callback(outer)
                    r = ("ok", None)
                elif op == "poll":
                    conn.poll_all(0)          # the owner serves the connection for unrelated reasons
                    r = ("ok", None)
                else:
                    r = ("ok", None)
            except vsched.SchedAbort:
                raise
            except BaseException as e:
                r = ("exc", type(e).__name__)
            log.append((i, op, r, sched.now, list(cblog)))
        conn.close()

    with vsched.patched_time(sched, spawn=False):
        sched.spawn(driver, name="driver")
        sched.spawn(peer.run, name="peer")
        ok = sched.run(watchdog=30)
    info = dict(ok=ok, deadlock=sched.deadlock, aborted=sched.abort_reason if sched.aborting else None,
                errors=[(t.name, repr(t.exc)[:200]) for t in sched.tasks if t.exc is not None], log=log, steps=sched.steps)
    try:
        conn.close()
    except BaseException:
        pass
    return info


def model_run(case):
    """the same event list on the reference model -> list of (op, answer, now, cblog)"""
    via, timeout = case["via"], case["timeout"]
    inbox = [(t, kind, payload) for (t, kind, payload) in case["script"]]
    m = Model(case["t0"], timeout, inbox)
    out = []
    if via == "sync":
        r = m.wait()
        if r == "ok":
            out.append(("sync", ("exc", "KeyError") if m.is_exc else ("ok", m.value), m.now, [], m.tie))
        else:
            out.append(("sync", ("exc", "TimeoutError"), m.now, [], m.tie))
        return out
    for (t, op, arg) in case["events"]:
        m.now = max(m.now, t)
        if op == "ready":
            r = ("ok", m.q_ready())
        elif op == "error":
            r = ("ok", m.q_error())
        elif op == "expired":
            r = ("ok", m.q_expired())
        elif op in ("wait", "value"):
            w = m.wait()
            if w == "timeout":
                r = ("exc", "TimeoutError")
            elif op == "value":
                r = ("exc", "KeyError") if m.is_exc else ("ok", m.value)
            else:
                r = ("ok", None)
        elif op == "callback":
            m.add_callback(arg)
            r = ("ok", None)
        elif op == "callback_nested":
            m.add_callback(arg, nested=True)
            r = ("ok", None)
        elif op == "poll":
            m.serve_one_available()
            r = ("ok", None)
        else:
            r = ("ok", None)
        out.append((op, r, m.now, list(m.cblog), m.tie))
    return out


def nested_request_expiry(ctx):
    """'a synchronous request behaves as an asynchronous one carrying the connection's configured timeout' - every synchronous
    request, also the one the connection issues itself while unboxing a reply (asking for the class of an object it has not seen
    yet). The scripted peer answers the caller's request with such a reference and never answers the question about its class:
    the wait must end with a time-out exactly the configured limit after that question was asked."""
    import rpyc
    from rpyc.core.channel import Channel
    from rpyc.core import consts
    for T, t_reply in ((3.0, 0.5), (1.0, 0.0), (5.0, 4.5)):
        sched = vsched.Sched(seed=0, policy="scripted", max_steps=100000)
        net = vnet.Net(waiter=vsched.SchedWaiter(sched))
        conn = rpyc.VoidService()._connect(Channel(net.a), {"sync_request_timeout": T})
        vsched.simulate_connection(conn, sched, "A")
        ref = (rc.LABEL_REMOTE_REF, ("rv_unknown_module.NeverSeen", 4321, 8765))
        peer = Peer(sched, net.b, [(t_reply, "reply_boxed", ref)], None)
        log = []

        def driver():
            try:
                v = conn.sync_request(consts.HANDLE_PING, "x")
                log.append(("ok", type(v).__name__, sched.now))
            except vsched.SchedAbort:
                raise
            except BaseException as e:
                log.append(("exc", type(e).__name__, sched.now))
            conn.close()
        with vsched.patched_time(sched, spawn=False):
            sched.spawn(driver, name="driver")
            sched.spawn(peer.run, name="peer")
            ok = sched.run(watchdog=40)
        ctx.case(("nested-request-expiry", T, t_reply), nontrivial=True)
        ctx.count("nested_request_expiries")
        wit = dict(family="nested-request-expiry", timeout=T, reply_at=t_reply)
        if not ok:
            ctx.inconclusive("wall-clock watchdog in nested-request-expiry")
            continue
        if sched.deadlock or sched.aborting or not log:
            ctx.violation("C15/nested-sync/never-expires", "the connection's own synchronous question about a class (limit %g s) was never answered and the wait never "
                          "ended: %r" % (T, sched.deadlock or sched.abort_reason), wit)
            continue
        kind, name, when = log[0]
        want = t_reply + T       # the caller's reply arrived in time; the question asked while unboxing it has the configured limit of its own
        if kind != "exc" or name != "TimeoutError" or abs(when - want) > 1e-6:
            ctx.violation("C15/nested-sync/expiry", "expected a time-out at t=%g, got %s %s at t=%g" % (want, kind, name, when), wit)


def gen_case(rng, idx):
    via = rng.choice(["async_request", "async_request", "async_", "timed", "sync"])
    timeout = rng.choice([None, 0, 0.001, 1, 1, 30, -1]) if via != "timed" else rng.choice([0, 0.001, 1, 30])
    if via == "sync":
        timeout = rng.choice([0.001, 1, 30, None])
    t0 = rng.randrange(0, 3) * 0.1
    finite = timeout is not None and timeout >= 0
    has_reply = rng.random() < .8 or not finite
    script = []
    if has_reply:
        if finite and rng.random() < .5:
            t_r = t0 + timeout * rng.choice([0.3, 0.9, 1.1, 2.5]) + rng.choice([0.013, 0.027])
        else:
            t_r = t0 + rng.choice([0.013, 0.33, 0.97, 1.03, 5.07, 29.93, 30.07])
        script.append((round(t_r, 6), "reply", (rng.random() < .3, ("v", idx))))
    for _ in range(rng.choice([0, 0, 1, 2])):
        t_n = t0 + rng.choice([0.011, 0.5, 0.95, 0.99, 1.5, 29.5]) + rng.choice([0.002, 0.004])
        script.append((round(t_n, 6), "noise", rng.choice([0.0, 0.0, 0.2, 2.0, 40.0])))
    events = []
    t = t0
    can_hang = not finite and not has_reply
    for j in range(rng.randrange(1, 9)):
        t = round(t + rng.choice([0.0, 0.1, 0.1, 0.4, 1.0, 10.0, 31.0]), 6)
        op = rng.choice(["ready", "ready", "error", "expired", "wait", "value", "callback", "callback", "callback_nested", "poll", "poll"])
        if can_hang and op in ("wait", "value"):
            op = "ready"
        events.append((t, op, "cb%d" % j))
    return dict(via=via, timeout=timeout, t0=t0, script=sorted(script), events=events if via != "sync" else [],
                late_config=(via == "sync" and rng.random() < .5))


def boundary_cases():
    out = []
    for via in ("async_request", "timed", "sync"):
        for T in (0.001, 1, 30):
            for off in (-EPS, 0.0, EPS):
                for exc in (False, True):
                    for first in ("wait", "value", "ready"):
                        ev = [(0.0, "callback_nested", "early0"), (0.0, "callback", "early"), (0.0, first, "x"), (T + 1.0, "ready", "x"), (T + 1.0, "poll", "x"), (T + 1.0, "expired", "x"), (T + 1.0, "callback", "late"), (T + 1.5, "poll", "x"),
                              (T + 2.0, "value", "x"), (T + 2.0, "error", "x")]
                        out.append(dict(via=via, timeout=T, t0=0.0, script=[(T + off, "reply", (exc, ("b", T)))], events=ev if via != "sync" else []))
    return out


def compare(ctx, case):
    info = run_case(case)
    want = model_run(case)
    wit = dict(case=case)
    desc = (case["via"], case["timeout"], tuple(case["script"]), tuple((t, op) for t, op, _ in case["events"]))
    ctx.case(desc, nontrivial=True)
    ctx.count("cases")
    if not info["ok"]:
        ctx.inconclusive("wall-clock watchdog")
        return
    key_via = case["via"]
    if info["deadlock"]:
        ctx.violation("C15/%s/hang" % key_via, "the waiting thread hangs: %r" % (info["deadlock"],), wit)
        return
    if info["aborted"]:
        ctx.violation("C15/%s/spin" % key_via, "run aborted (%s): a wait neither returns nor lets the clock advance" % info["aborted"], wit)
        return
    for name, err in info["errors"]:
        ctx.violation("C15/%s/task-raised" % key_via, "task %s raised %s" % (name, err), wit)
    got = info["log"]
    if len(got) != len(want):
        ctx.violation("C15/%s/event-count" % key_via, "executed %d events, model %d" % (len(got), len(want)), wit)
        return
    tie_seen = False
    for g, w in zip(got, want):
        op = w[0]
        g_ans, g_now = g[2], g[3]
        w_ans, w_now, w_cb, tie = w[1], w[2], w[3], w[4]
        ctx.count("events_compared")
        if tie:
            tie_seen = True
        if tie_seen:
            # reply written at exactly the expiry instant: either outcome is allowed; only finality is judged below
            ctx.count("tie_events")
            continue
        g_cmp = g_ans
        if g_ans[0] == "exc" and w_ans[0] == "exc":
            ok = g_ans[1] == w_ans[1]
        else:
            ok = g_cmp == w_ans
        if not ok:
            ctx.violation("C15/%s/%s/answer" % (key_via, op), "event %s at t=%s: real %r, model %r" % (op, g_now, g_ans, w_ans), dict(wit, got=repr(got)[:600], want=repr(want)[:600]))
            return
        if abs(g_now - w_now) > 1e-9:
            kind = "late" if g_now > w_now else "early"
            ctx.violation("C15/%s/%s/returns-%s" % (key_via, op, kind), "event %s returned at t=%.9g, model says t=%.9g" % (op, g_now, w_now),
                          dict(wit, got=repr(got)[:600], want=repr(want)[:600]))
            return
        if len(g) > 4 and g[4] != w_cb:
            ctx.violation("C15/%s/callbacks" % key_via, "callback log %r, model %r" % (g[4], w_cb), dict(wit, got=repr(got)[:600], want=repr(want)[:600]))
            return
    if tie_seen:
        # finality under a tie: answers of the same query kind must not flip from final to something else
        finals = [g[2] for g in got if g[1] == "value"]
        if len(set(map(repr, finals))) > 1:
            ctx.violation("C15/%s/not-final" % key_via, "after a tie the outcome changed between queries: %r" % (finals,), wit)
        cbs = got[-1][4] if got and len(got[-1]) > 4 else []
        if len(cbs) != len(set(cbs)):
            ctx.violation("C15/%s/callback-twice" % key_via, "a callback ran twice: %r" % (cbs,), wit)


def concurrent_registration(ctx, seed, policy, p_switch, ncb):
    """callbacks registered by one thread while ANOTHER thread (a background server) receives and dispatches the reply:
    line-level pre-emption inside add_callback and __call__; every callback must run exactly once, in registration order"""
    import rpyc
    from rpyc.core.channel import Channel
    from rpyc.core import consts
    from rpyc.core.async_ import AsyncResult
    sched = vsched.Sched(seed=seed, policy=policy, p_switch=p_switch, max_steps=60000)
    net = vnet.Net(waiter=vsched.SchedWaiter(sched))
    conn = rpyc.VoidService()._connect(Channel(net.a), {})
    vsched.simulate_connection(conn, sched, "A")
    peer = Peer(sched, net.b, [(0.0, "reply", (False, ("v", 1)))], None)
    ran = []
    state = dict(done=False, ar=None)

    def registrar():
        ar = conn.async_request(consts.HANDLE_PING, "tok", timeout=30)
        state["ar"] = ar
        for i in range(ncb):
            ar.add_callback(lambda res, i=i: ran.append(i))
        try:
            ar.wait()
        finally:
            state["done"] = True
            conn.close()

    def bg():
        while not state["done"]:
            try:
                conn.serve(0.05)
            except EOFError:
                return
    codes = sched.instrument([AsyncResult.add_callback.__code__, AsyncResult.__call__.__code__])
    try:
        with vsched.patched_time(sched, spawn=False):
            sched.spawn(registrar, name="registrar")
            sched.spawn(bg, name="bg")
            sched.spawn(peer.run, name="peer")
            ok = sched.run(watchdog=30)
    finally:
        vsched.Sched.uninstrument(codes)
        try:
            conn.close()
        except BaseException:
            pass
    ctx.case(("concurrent-registration", ncb, sched.trace_hash()), nontrivial=sched.preemptions > 0)
    ctx.count("concurrent_registration_runs")
    wit = dict(mode="concurrent-registration", seed=list(seed), policy=policy, p_switch=p_switch, callbacks=ncb)
    if not ok:
        ctx.inconclusive("wall-clock watchdog in concurrent-registration run")
        return
    if sched.deadlock or sched.aborting:
        ctx.violation("C15/concurrent-registration/hang", "run did not finish: %r %r" % (sched.deadlock, sched.abort_reason), wit)
        return
    missing = [i for i in range(ncb) if i not in ran]
    dup = sorted({i for i in ran if ran.count(i) > 1})
    if missing:
        ctx.violation("C15/concurrent-registration/callback-lost", "callback(s) %r registered while another thread dispatched the reply never ran" % (missing,), wit)
    if dup:
        ctx.violation("C15/concurrent-registration/callback-twice", "callback(s) %r ran twice" % (dup,), wit)
    if not missing and not dup and ran != sorted(ran):
        ctx.violation("C15/concurrent-registration/callback-order", "callbacks ran in the order %r" % (ran,), wit)


def run(ctx):
    from rv import suiterun
    suiterun.for_check(ctx, PROPERTY, ['results_completed'])
    if ctx.shard[0] == 0:
        nested_request_expiry(ctx)
    rng = ctx.rng
    for i in range(ctx.budget(500, 80000)):
        concurrent_registration(ctx, (ctx.seed, ctx.shard[0], i), "random" if i % 3 else "pct", rng.choice([0.1, 0.3, 0.6]), rng.choice([1, 2, 3]))
        if ctx.enough():
            return
    if ctx.shard[0] == 0:
        for case in boundary_cases():
            compare(ctx, case)
            if ctx.enough():
                return
        ctx.count("boundary_lists", len(boundary_cases()))
    for i in range(ctx.budget(15000, 2400000)):
        case = gen_case(rng, i)
        compare(ctx, case)
        if i < 3:
            ctx.sample(case)
        if ctx.enough():
            break
    if not ctx.counters["events_compared"]:
        ctx.inconclusive("no event compared")


def replay(ctx, w):
    case = w["witness"]["case"]
    case["script"] = [(t, k, tuple(p) if isinstance(p, list) else p) for t, k, p in case["script"]]
    case["script"] = [(t, k, (p[0], tuple(p[1])) if k == "reply" else p) for t, k, p in case["script"]]
    case["events"] = [tuple(e) for e in case["events"]]
    compare(ctx, case)

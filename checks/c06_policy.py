"""C06 - attribute access by the peer follows the connection's policy, and only its own.

Reference-policy monitor: every decision goes through the REAL request path (sync_request(HANDLE_GETATTR / SETATTR /
DELATTR / CALLATTR, proxy, name, ...)) against a canary object on the serving side that records every read, write,
delete and call; the outcome is compared with an independent policy function (lib/rv/models.py) and, where the policy
says "access attribute n", with the same operation applied directly to a twin object.  Isolation: histories of
opening/closing differently configured connections, re-probing a fixed decision table on every live connection.
"""
import copy

from rv import models, refcodec as rc, vnet

PROPERTY = "C06"
LEVEL = "exploration"
RULE = ("decision = (2^7 switch settings, exposed prefix in {exposed_, x_, ''}, name class (public, _private, __dunder, "
        "safe-listed, already-prefixed, other-prefix, ghost, __class__, method, bytes-typed, undecodable bytes, non-text "
        "values), object shape (has name / has twin / both / neither / own hooks / partial hooks / restricted view / "
        "Service instance / class object), operation (read, write, delete, call-by-name)); quick: all 384 (switches, "
        "prefix) pairs x a seeded sample of the rest; thorough: the full product. isolation: seeded histories (<= 12 steps) of "
        "open/close of default / public / custom-prefix / all-attrs / classic connections, a third of them handing ONE dict object, "
        "edited in place, to every connection, a third probing while the module-level defaults are edited. distinct = the decision tuple / "
        "the history; non-trivial = every decision (each is a separate policy evaluation)")
ASSUMPTIONS = ["reference policy: lib/rv/models.py (written from the statement); when it says 'access n' the expected outcome is "
               "what the same operation does on a twin object",
               "reads of the twin name while probing for it are reads of an exposed-prefixed attribute and are not violations; "
               "rpyc's own introspection reads (__class__, __dict__) are not judged",
               "for undecodable bytes names only 'fails, no effect' is required"]
SHARDS = {"quick": 1, "thorough": 16}
MIN_DISTINCT = {"quick": 5000, "thorough": 150000}

OPS = ["get", "set", "del", "call", "cmp"]
CMP_NAMES = ["__eq__", "__ne__", "__lt__", "__hash__", "__getattribute__", "__setattr__", "__delattr__", "__init__", "__reduce_ex__", "peek",
             "_peek", "exposed_peek", "__class__", "__dict__", "__sizeof__", "__dir__", b"__eq__", b"_peek", 5, None]
TEXT_NAMES = ["foo", "_priv", "__secret", "__add__", "__len__", "next", "PFXfoo", "exposed_foo", "x_foo", "ghost",
              "__class__", "meth", "_pmeth", "__dict__", "__init__", "é", "_mid_PFXfoo", "midPFX"]
ODD_NAMES = [b"foo", b"_priv", b"meth", b"\xff\xfe", 5, None, ("foo",), 1.5, ["foo"], True]
PLAIN_SHAPES = [(True, False), (False, True), (True, True), (False, False)]
SPECIAL_SHAPES = ["hooks", "partial_hooks", "restricted", "restricted_ro", "restricted_ro_list", "restricted_same", "service", "classobj"]
NOT_JUDGED_READS = {"__class__", "__dict__", "__init__"}


def secret(name, k):
    return "SECRET<%s|%s>" % (name, k)


class Canary(object):
    """records every attribute read / write / delete; callables stored on it record their calls"""

    # methods on the TYPE: what the comparison handler resolves (it looks the operator name up on type(obj))
    def peek(self, other):
        object.__getattribute__(self, "_log").append(("call", "peek", (other,), ()))
        return ("peeked", other)

    def _peek(self, other):
        object.__getattribute__(self, "_log").append(("call", "_peek", (other,), ()))
        return ("private-peeked", other)

    def exposed_peek(self, other):
        object.__getattribute__(self, "_log").append(("call", "exposed_peek", (other,), ()))
        return ("exposed-peeked", other)

    def __init__(self, log):
        object.__setattr__(self, "_log", log)

    def __getattribute__(self, name):
        if name != "_log":
            object.__getattribute__(self, "_log").append(("get", name))
        return object.__getattribute__(self, name)

    def __setattr__(self, name, value):
        object.__getattribute__(self, "_log").append(("set", name, value if rc.plain_immutable(value) else "<ref>"))
        object.__setattr__(self, name, value)

    def __delattr__(self, name):
        object.__getattribute__(self, "_log").append(("del", name))
        object.__delattr__(self, name)


class Hooked(object):
    """decides for itself: the configuration must be ignored"""

    def __init__(self, log):
        self.log = log

    def _rpyc_getattr(self, name):
        self.log.append(("hook-get", name))
        if name.startswith("deny"):
            raise AttributeError(name)
        if name == "meth":
            return lambda *a, **k: ("hooked-call", a, tuple(sorted(k.items())))
        return "hooked:" + name

    def _rpyc_setattr(self, name, value):
        self.log.append(("hook-set", name, value))
        if name.startswith("deny"):
            raise AttributeError(name)

    def _rpyc_delattr(self, name):
        self.log.append(("hook-del", name))
        if name.startswith("deny"):
            raise AttributeError(name)


class PartialHooked(Canary):
    """only a read hook: writes and deletes fall back to the configuration"""

    def _rpyc_getattr(self, name):
        object.__getattribute__(self, "_log").append(("hook-get", name))
        return "hooked:" + name


class LogMeta(type):
    def __getattribute__(cls, name):
        if name not in ("_log", "__mro__", "__dict__", "__class__", "__name__", "__module__", "__qualname__", "__bases__"):
            type.__getattribute__(cls, "_log").append(("get", name))
        return type.__getattribute__(cls, name)

    def __setattr__(cls, name, value):
        type.__getattribute__(cls, "_log").append(("set", name, value if rc.plain_immutable(value) else "<ref>"))
        type.__setattr__(cls, name, value)

    def __delattr__(cls, name):
        type.__getattribute__(cls, "_log").append(("del", name))
        type.__delattr__(cls, name)


def make_callable(log, name):
    def fn(*a, **k):
        log.append(("call", name, a, tuple(sorted(k.items()))))
        return ("called", name, a)
    return fn


def populate(setter, log, name, prefix, has_name, has_twin, k):
    """give the object the attribute `name` and/or its prefixed twin"""
    def value(n):
        if n.endswith("meth") or n in ("__add__", "__len__", "next") or n.endswith("__add__") or n.endswith("__len__"):
            return make_callable(log, n)
        return secret(n, k)
    if has_name and name not in ("__class__", "__dict__", "__init__"):
        setter(name, value(name))
    if has_twin and prefix:
        setter(prefix + name, value(prefix + name))


def build(shape, name, prefix, k):
    """-> (object to lend, log, has(n) predicate or None for special shapes, target log for restricted)"""
    import rpyc
    from rpyc.utils.helpers import restricted
    log = []
    if type(shape) is tuple:
        has_name, has_twin = shape
        obj = Canary(log)
        populate(lambda n, v: object.__setattr__(obj, n, v), log, name, prefix, has_name, has_twin, k)
        return obj, log
    if shape == "hooks":
        return Hooked(log), log
    if shape == "partial_hooks":
        obj = PartialHooked(log)
        populate(lambda n, v: object.__setattr__(obj, n, v), log, name, prefix, True, True, k)
        return obj, log
    if type(shape) is str and shape.startswith("restricted"):
        target = Canary(log)
        for n in ("foo", "bar", "meth", "_priv", "exposed_foo"):
            object.__setattr__(target, n, make_callable(log, n) if n == "meth" else secret(n, k))
        if shape == "restricted":
            view = restricted(target, {"foo", "meth"}, {"bar"})
        elif shape == "restricted_ro":
            view = restricted(target, {"foo", "meth"}, ())          # documented read-only form
        elif shape == "restricted_ro_list":
            view = restricted(target, ["foo", "meth"], [])
        else:
            view = restricted(target, {"foo", "meth"})               # wattrs defaults to attrs
        return view, log
    if shape == "service":
        class Svc(rpyc.Service):
            def __init__(self):
                pass

            def __setattr__(self, n, v):
                log.append(("set", n, v if rc.plain_immutable(v) else "<ref>"))
                object.__setattr__(self, n, v)

            def __delattr__(self, n):
                log.append(("del", n))
                object.__delattr__(self, n)
        obj = Svc()
        populate(lambda n, v: object.__setattr__(obj, n, v), log, name, prefix, True, True, k)
        return obj, log
    if shape == "classobj":
        ns = {"_log": log}
        cls = LogMeta("CanaryClass", (object,), ns)
        populate(lambda n, v: type.__setattr__(cls, n, v), log, name, prefix, True, False, k)
        return cls, log
    raise AssertionError(shape)


def effects(log):
    return [e for e in log if e[0] in ("set", "del", "call", "hook-get", "hook-set", "hook-del")]


def apply_direct(obj, op, resolved, value, cargs, ckw):
    """the same operation applied directly (twin differential)"""
    try:
        if op == "get":
            return ("ok", getattr(obj, resolved))
        if op == "set":
            return ("ok", setattr(obj, resolved, value))
        if op == "del":
            return ("ok", delattr(obj, resolved))
        return ("ok", getattr(obj, resolved)(*cargs, **dict(ckw)))
    except Exception as e:
        return ("exc", type(e))


def has_on(obj):
    def has(n):
        try:
            if isinstance(obj, type):
                type.__getattribute__(obj, n)
            else:
                object.__getattribute__(obj, n)
            return True
        except AttributeError:
            return False
    return has


def summarise_result(r):
    if r[0] == "exc":
        return r
    v = r[1]
    if rc.plain_immutable(v):
        return ("ok", rc.fingerprint(v))
    return ("ok", "<ref>")


def decide(ctx, pair, cfg, prefix, name, shape, op, k):
    """one decision through the real request path; returns nothing, records violations"""
    from rpyc.core import consts
    import rpyc
    kind, text = models.name_as_text(name)
    key_name = name_class(name, prefix)
    key_shape = shape if type(shape) is str else "name%d_twin%d" % shape
    desc = (tuple(cfg[s] for s in models.SWITCHES), prefix, key_name, key_shape, op)
    ctx.case(desc)
    real_name = text.replace("PFX", prefix) if text is not None else None
    wire_name = name
    if type(name) is str:
        wire_name = real_name
    obj, log = build(shape, real_name or "foo", prefix, k)
    twin, tlog = build(shape, real_name or "foo", prefix, k)
    a, b = pair.a, pair.b
    proxy = a._unbox(b._box(obj))
    del log[:]
    value = ("newval", k)
    cargs, ckw = (1, "two"), (("kw", 3),)
    w0 = len(pair.net.pipe("B->A").writes)
    try:
        if op == "get":
            r = ("ok", a.sync_request(consts.HANDLE_GETATTR, proxy, wire_name))
        elif op == "set":
            r = ("ok", a.sync_request(consts.HANDLE_SETATTR, proxy, wire_name, value))
        elif op == "del":
            r = ("ok", a.sync_request(consts.HANDLE_DELATTR, proxy, wire_name))
        elif op == "cmp":
            r = ("ok", a.sync_request(consts.HANDLE_CMP, proxy, ("other", k), wire_name))
        else:
            r = ("ok", a.sync_request(consts.HANDLE_CALLATTR, proxy, wire_name, cargs, ckw))
    except Exception as e:
        r = ("exc", type(e))
    sent_back = b"".join(pair.net.pipe("B->A").writes[w0:])
    eff = effects(log)
    wit = dict(config={s: cfg[s] for s in models.SWITCHES}, prefix=prefix, name=repr(name), shape=key_shape, op=op,
               outcome=repr(r)[:200], effects=repr(eff)[:300])
    vkey = "%s/%s/%s" % (op, key_shape, key_name)

    def builtin_exc(r, cls):
        return r[0] == "exc" and isinstance(r[1], type) and issubclass(r[1], cls)

    # ---- names that are not text
    if kind == "nontext":
        ctx.count("nontext_names")
        if not builtin_exc(r, TypeError):
            ctx.violation("C06/nontext-name-not-TypeError/" + op, "a name that is not text gave %r, expected TypeError" % (r,), wit)
        if eff:
            ctx.violation("C06/nontext-name-had-effect/" + op, "a name that is not text had an effect: %r" % (eff[:3],), wit)
        return
    if kind == "undecodable":
        ctx.count("undecodable_names")
        if r[0] != "exc":
            ctx.violation("C06/undecodable-name-succeeded/" + op, "an undecodable bytes name did not fail", wit)
        if eff:
            ctx.violation("C06/undecodable-name-had-effect/" + op, "an undecodable bytes name had an effect", wit)
        return
    if op == "cmp":
        judge_cmp(ctx, r, eff, cfg, prefix, real_name, obj, twin, tlog, k, wit, key_shape, key_name)
        return
    # ---- objects with their own hooks decide instead of the configuration
    if shape == "hooks":
        hk = {"get": "hook-get", "call": "hook-get", "set": "hook-set", "del": "hook-del"}[op]
        want_eff = [(hk, real_name) + ((value,) if op == "set" else ())]
        if eff != want_eff:
            ctx.violation("C06/hooks-not-consulted/" + op, "object hooks saw %r, expected exactly %r" % (eff, want_eff), wit)
        denied = real_name.startswith("deny")
        if denied:
            want = ("exc", AttributeError)
        elif op == "get":
            want = ("ok", rc.fingerprint("hooked:" + real_name)) if real_name != "meth" else ("ok", "<ref>")
        elif op == "call":
            want = ("ok", rc.fingerprint(("hooked-call", cargs, ckw))) if real_name == "meth" else ("exc", TypeError)
        else:
            want = ("ok", rc.fingerprint(None))
        got = summarise_result(r)
        if got != want and not (want[0] == "exc" and builtin_exc(r, want[1])):
            ctx.violation("C06/hooks-outcome/" + op, "hook decided %r but the peer saw %r" % (want, got), wit)
        ctx.count("hook_decisions")
        return
    if type(shape) is str and shape.startswith("restricted"):
        writable = {"restricted": {"bar"}, "restricted_ro": set(), "restricted_ro_list": set(), "restricted_same": {"foo", "meth"}}[shape]
        judge_restricted(ctx, r, eff, op, real_name, value, cargs, ckw, k, wit, writable)
        return
    if shape == "service" and op in ("set", "del"):
        if not builtin_exc(r, AttributeError) or eff:
            ctx.violation("C06/service-self-write/" + op, "a Service instance let the peer %s an attribute: %r %r" % (op, r, eff), wit)
        ctx.count("service_decisions")
        return
    if shape == "partial_hooks" and op in ("get", "call"):
        want_eff = [("hook-get", real_name)]
        if [e for e in eff if e[0].startswith("hook")] != want_eff:
            ctx.violation("C06/hooks-not-consulted/" + op, "read hook saw %r" % (eff,), wit)
        ctx.count("hook_decisions")
        return
    # ---- configuration policy
    pcfg = dict(cfg, exposed_prefix=prefix, safe_attrs=models.SAFE_ATTRS)
    verdict = models.policy(pcfg, op, real_name, has_on(twin))
    ctx.count("policy_" + verdict[0])
    twin_name = prefix + real_name if prefix else None
    if verdict[0] == "deny":
        ctx.count("denied_decisions")
        if not builtin_exc(r, AttributeError):
            ctx.violation("C06/allowed-contrary-to-policy/" + vkey, "policy denies, peer got %r" % (r,), wit)
        bad = [e for e in eff if e[0] in ("set", "del", "call")]
        if bad:
            ctx.violation("C06/denied-but-had-effect/" + vkey, "denied operation had effects %r" % (bad[:3],), wit)
        for n in (real_name, twin_name):
            if n and secret(n, k).encode() in sent_back:
                ctx.violation("C06/denied-but-secret-sent/" + vkey, "the value of %r travelled to the peer although access is denied" % n, wit)
        reads = [e[1] for e in log if e[0] == "get" and e[1] == real_name and e[1] not in NOT_JUDGED_READS]
        allowed_plain = models.policy(dict(pcfg, allow_getattr=True, allow_setattr=True, allow_delattr=True), op, real_name,
                                      lambda n: n == real_name)[0] == "access"
        if reads and not allowed_plain:
            ctx.violation("C06/denied-name-touched/" + vkey, "attribute %r was read on the owner although the policy does not allow the name" % real_name, wit)
        return
    resolved = verdict[1]
    ctx.count("allowed_decisions")
    if resolved != real_name:
        ctx.count("twin_resolutions")
    exp = apply_direct(twin, op, resolved, value, cargs, ckw)
    got, want = summarise_result(r), summarise_result(exp)
    if want[0] == "exc":
        ok = builtin_exc(r, want[1]) if issubclass(want[1], Exception) else False
    else:
        ok = got == want
    if not ok:
        ctx.violation("C06/outcome-differs/" + vkey, "policy says access %r; direct access gives %r, the peer got %r" % (resolved, want, got), wit)
    e1 = [e for e in eff if e[0] in ("set", "del", "call")]
    e2 = [e for e in effects(tlog) if e[0] in ("set", "del", "call")]
    if e1 != e2:
        ctx.violation("C06/wrong-attribute-touched/" + vkey, "effects on the owner's object %r differ from direct access to %r: %r" % (e1[:3], resolved, e2[:3]), wit)


def judge_cmp(ctx, r, eff, cfg, prefix, name, obj, twin, tlog, k, wit, key_shape, key_name):
    """comparison by operator name: the name is resolved on type(obj) under the read permission, then called with (obj, other)"""
    ctx.count("cmp_decisions")
    vkey = "cmp/%s/%s" % (key_shape, key_name)
    ttype = type(twin)
    if getattr(type(ttype), "_rpyc_getattr", None) is not None:
        return
    pcfg = dict(cfg, exposed_prefix=prefix, safe_attrs=models.SAFE_ATTRS)
    verdict = models.policy(pcfg, "get", name, has_on(ttype))
    called = [e for e in eff if e[0] in ("set", "del", "call")]
    if verdict[0] == "deny":
        ctx.count("denied_decisions")
        if not (r[0] == "exc" and isinstance(r[1], type) and issubclass(r[1], AttributeError)):
            ctx.violation("C06/allowed-contrary-to-policy/" + vkey, "policy denies the operator name, peer got %r" % (r,), wit)
        if called:
            ctx.violation("C06/denied-but-had-effect/" + vkey, "denied comparison had effects %r" % (called[:3],), wit)
        return
    ctx.count("allowed_decisions")
    try:
        exp = ("ok", getattr(ttype, verdict[1])(twin, ("other", k)))
    except Exception as e:
        exp = ("exc", type(e))
    got, want = summarise_result(r), summarise_result(exp)
    ok = (r[0] == "exc" and isinstance(r[1], type) and issubclass(r[1], want[1])) if want[0] == "exc" else got == want
    if not ok:
        ctx.violation("C06/outcome-differs/" + vkey, "policy says call type(obj).%s; direct call gives %r, the peer got %r" % (verdict[1], want, got), wit)
    e2 = [e for e in effects(tlog) if e[0] in ("set", "del", "call")]
    if called != e2:
        ctx.violation("C06/wrong-attribute-touched/" + vkey, "effects %r differ from the direct call's %r" % (called[:3], e2[:3]), wit)


def judge_restricted(ctx, r, eff, op, name, value, cargs, ckw, k, wit, writable=frozenset(["bar"])):
    ctx.count("restricted_decisions")
    touched = [e for e in eff if e[0] in ("set", "del", "call")]
    if op == "get":
        if name in ("foo",):
            if r != ("ok", secret("foo", k)):
                ctx.violation("C06/restricted/read-listed", "listed attribute not readable through the restricted view: %r" % (r,), wit)
        elif name == "meth":
            if r[0] != "ok":
                ctx.violation("C06/restricted/read-listed", "listed method not readable: %r" % (r,), wit)
        elif r[0] != "exc" or not issubclass(r[1], AttributeError):
            ctx.violation("C06/restricted/read-unlisted", "attribute %r readable through a view that does not list it: %r" % (name, r), wit)
        if touched:
            ctx.violation("C06/restricted/effect", "a read had effects %r" % (touched,), wit)
    elif op == "call":
        if name == "meth":
            if r[0] != "ok" or touched != [("call", "meth", cargs, ckw)]:
                ctx.violation("C06/restricted/call-listed", "listed method call: %r effects %r" % (r, touched), wit)
        elif name == "foo":
            if r[0] != "exc" or touched:
                ctx.violation("C06/restricted/call-data", "calling a data attribute: %r %r" % (r, touched), wit)
        elif r[0] != "exc" or touched:
            ctx.violation("C06/restricted/call-unlisted", "unlisted name called through the view: %r %r" % (r, touched), wit)
    elif op == "set":
        if name in writable:
            if r[0] != "ok" or touched != [("set", name, value)]:
                ctx.violation("C06/restricted/write-listed", "listed attribute not writable: %r %r" % (r, touched), wit)
        elif r[0] != "exc" or not issubclass(r[1], AttributeError) or touched:
            ctx.violation("C06/restricted/write-unlisted", "attribute %r written through a view that does not list it: %r %r" % (name, r, touched), wit)
    else:
        if r[0] != "exc" or touched:
            ctx.violation("C06/restricted/delete", "delete through a restricted view: %r %r" % (r, touched), wit)


def name_class(name, prefix):
    if type(name) is str:
        return name
    if type(name) is bytes:
        return "bytes:" + (name.decode("utf8") if models.name_as_text(name)[0] == "text" else "undecodable")
    return "nontext:" + type(name).__name__


def all_configs():
    for bits in range(128):
        cfg = {s: bool(bits >> i & 1) for i, s in enumerate(models.SWITCHES)}
        for prefix in ("exposed_", "x_", ""):
            yield bits, cfg, prefix


def decisions_for(rng, full):
    names = TEXT_NAMES + ODD_NAMES
    shapes = PLAIN_SHAPES + SPECIAL_SHAPES
    if full:
        for n in names:
            for sh in shapes:
                if type(sh) is str and sh.startswith("restricted"):
                    continue
                for op in OPS[:4]:
                    yield n, sh, op
        for n in CMP_NAMES:
            for sh in PLAIN_SHAPES[:1] + ["service", "partial_hooks"]:
                yield n, sh, "cmp"
        for rs in ("restricted", "restricted_ro", "restricted_ro_list", "restricted_same"):
            for n in ["foo", "bar", "meth", "_priv", "exposed_foo", "ghost", b"foo", 5]:
                for op in OPS[:4]:
                    yield n, rs, op
        for n in ["denyme", "meth"]:
            for op in OPS:
                yield n, "hooks", op
    else:
        for _ in range(30):
            sh = rng.choice(shapes) if rng.random() < .45 else rng.choice(PLAIN_SHAPES)
            if type(sh) is str and sh.startswith("restricted"):
                n = rng.choice(["foo", "bar", "meth", "_priv", "exposed_foo", "ghost", b"foo", 5])
            elif sh == "hooks":
                n = rng.choice(TEXT_NAMES + ODD_NAMES + ["denyme", "meth"])
            else:
                n = rng.choice(names)
            op = rng.choice(OPS[:4])
            if rng.random() < .12 and (type(sh) is tuple or sh in ("service", "partial_hooks")):
                n, op = rng.choice(CMP_NAMES), "cmp"
            yield n, sh, op


def fixed_name_requests(ctx, pair, cfg, prefix):
    """requests whose attribute name is fixed by the handler, not sent by the peer - leaving a with-block (CTXEXIT -> '__exit__') and
    old-style slicing (OLDSLICING -> '__getitem__' / '__getslice__'): the same policy decides them. Targets: a plain object (the
    configuration decides) and an object with its own read hook that refuses the name (the hook decides). Oracle: reference
    policy for the implied name + the target's own effect log."""
    from rpyc.core import consts
    a, b = pair.a, pair.b
    for target_kind in ("plain", "hook-denies"):
        for req in ("ctxexit", "oldslicing"):
            log = []

            class Target(object):
                def __enter__(self):
                    return self

                def __exit__(self, *exc):
                    log.append("__exit__ ran")
                    return False

                def __getitem__(self, key):
                    log.append("__getitem__ ran")
                    return "item"

                def __getslice__(self, i, j):
                    log.append("__getslice__ ran")
                    return "slice"
            if target_kind == "hook-denies":
                def _rpyc_getattr(self, name):
                    log.append(("hook", name))
                    raise AttributeError("this object's own hook refuses %r" % (name,))
                Target._rpyc_getattr = _rpyc_getattr
            obj = Target()
            proxy = a._unbox(b._box(obj))
            del log[:]
            implied = ["__exit__"] if req == "ctxexit" else ["__getitem__", "__getslice__"]
            try:
                if req == "ctxexit":
                    r = ("ok", a.sync_request(consts.HANDLE_CTXEXIT, proxy, None))
                else:
                    r = ("ok", a.sync_request(consts.HANDLE_OLDSLICING, proxy, "__getitem__", "__getslice__", 0, 1, ()))
            except Exception as e:
                r = ("exc", type(e))
            del proxy
            ran = [e for e in log if type(e) is str]
            wit = dict(config={s: cfg[s] for s in models.SWITCHES}, prefix=prefix, request=req, target=target_kind, outcome=repr(r)[:120], effects=repr(log)[:200])
            ctx.case((tuple(cfg[s] for s in models.SWITCHES), prefix, "fixed-name", req, target_kind))
            ctx.count("fixed_name_requests")
            if target_kind == "hook-denies":
                if ran or r[0] != "exc" or not issubclass(r[1], AttributeError):
                    ctx.violation("C06/fixed-name/%s/own-hook-not-consulted" % req, "the target's own read hook refuses every name, yet the request gave %r and ran %r" % (r, ran), wit)
                continue
            pcfg = dict(cfg, exposed_prefix=prefix, safe_attrs=models.SAFE_ATTRS)
            verdicts = [models.policy(pcfg, "get", n, lambda n2: hasattr(Target, n2)) for n in implied]
            if all(v[0] == "deny" for v in verdicts):
                ctx.count("denied_decisions")
                if ran or r[0] != "exc" or not issubclass(r[1], AttributeError):
                    ctx.violation("C06/fixed-name/%s/allowed-contrary-to-policy" % req, "the policy denies %r, yet the request gave %r and ran %r" % (implied, r, ran), wit)
            elif verdicts[0][0] == "access":
                ctx.count("allowed_decisions")
                if r[0] != "ok" or ran != ["%s ran" % implied[0]]:
                    ctx.violation("C06/fixed-name/%s/denied-contrary-to-policy" % req, "the policy allows %r, yet the request gave %r and ran %r" % (implied[0], r, ran), wit)


def sweep(ctx, rng):
    import rpyc
    from rpyc.core import protocol
    full = not ctx.quick
    configs = list(all_configs())
    if full:
        configs = [c for i, c in enumerate(configs) if i % ctx.shard[1] == ctx.shard[0]]
        ctx.extra["exhaustive"] = True
    k = 0
    for bits, cfg, prefix in configs:
        server_cfg = dict(cfg, exposed_prefix=prefix)
        pair = vnet.ServedPair(rpyc.VoidService(), rpyc.VoidService(), cfg_a={}, cfg_b=server_cfg)
        try:
            fixed_name_requests(ctx, pair, cfg, prefix)
            for n, sh, op in decisions_for(rng, full):
                k += 1
                decide(ctx, pair, cfg, prefix, n, sh, op, k)
                if ctx.enough():
                    return
        finally:
            pair.close()
        if pair.server_exc is not None:
            ctx.violation("C06/server-died/%s" % type(pair.server_exc).__name__, "serving side died: %r" % (pair.server_exc,),
                          dict(config=cfg, prefix=prefix))
    ctx.sample({"decision": dict(config=cfg, prefix=prefix, name=repr(n), shape=repr(sh), op=op)})


# ---------------------------------------------------------------- isolation histories
PROBE_TABLE = [("foo", (True, False), "get"), ("_priv", (True, False), "get"), ("foo", (False, True), "get"),
               ("foo", (True, False), "set"), ("_priv", (True, False), "del"), ("__add__", (True, False), "get"),
               ("x_foo", (True, False), "get"), ("__secret", (True, True), "call"), ("meth", (True, False), "call")]
KINDS = {
    "default": {},
    "public": {"allow_public_attrs": True},
    "custom_prefix": {"exposed_prefix": "x_"},
    "all": {"allow_all_attrs": True, "allow_setattr": True, "allow_delattr": True},
    "nothing": {"allow_getattr": False, "allow_exposed_attrs": False, "allow_safe_attrs": False},
    "classic": None,          # SlaveService widens its own connection on connect
}
CLASSIC_CFG = dict(allow_all_attrs=True, allow_getattr=True, allow_setattr=True, allow_delattr=True, allow_exposed_attrs=False)


def effective(kind):
    cfg = dict(models.DEFAULT_SWITCHES)
    cfg.update(CLASSIC_CFG if kind == "classic" else KINDS[kind])
    return cfg


def probe_live(ctx, live, steps, kbox):
    for kind, pair in live:
        eff_cfg = effective(kind)
        cfg = {s: eff_cfg[s] for s in models.SWITCHES}
        n0 = ctx.counters["violations_raw"]
        for (n, sh, op) in PROBE_TABLE:
            kbox[0] += 1
            decide(ctx, pair, cfg, eff_cfg["exposed_prefix"], n, sh, op, kbox[0])
        if ctx.counters["violations_raw"] != n0:
            ctx.violation("C06/isolation/decision-changed", "a %s connection decides differently after the history %r" % (kind, steps),
                          dict(history=steps, kind=kind))
        ctx.count("isolation_probes", len(PROBE_TABLE))


def isolation_history(ctx, rng, idx, default_snapshot):
    import rpyc
    from rpyc.core import protocol
    live = []
    steps = []
    kbox = [100000 * (idx + 1)]
    shared = {} if idx % 3 == 1 else None
    try:
        for step in range(rng.randrange(3, 13)):
            if live and rng.random() < .35:
                i = rng.randrange(len(live))
                kind, pair = live.pop(i)
                pair.close()
                steps.append(("close", kind))
            else:
                kind = rng.choice(list(KINDS))
                if kind == "classic":
                    pair = vnet.ServedPair(rpyc.VoidService(), rpyc.SlaveService())
                elif shared is not None:
                    # the application keeps ONE dict and edits it in place for the next connection
                    shared.clear()
                    shared.update(KINDS[kind])
                    pair = vnet.ServedPair(rpyc.VoidService(), rpyc.VoidService(), cfg_b=shared, cfg_b_as_is=True)
                    ctx.count("isolation_opens_reusing_one_dict")
                else:
                    pair = vnet.ServedPair(rpyc.VoidService(), rpyc.VoidService(), cfg_b=dict(KINDS[kind]))
                live.append((kind, pair))
                steps.append(("open", kind) if shared is None or kind == "classic" else ("open", kind, "same dict object edited in place"))
            # after every step: every live connection still decides by its own configuration;
            # now and then while the module-level defaults are edited (which configures FUTURE connections only)
            edited = None
            if idx % 3 == 2 and live and rng.random() < .4:
                edited = rng.choice([("allow_public_attrs", True), ("allow_all_attrs", True), ("allow_getattr", False), ("exposed_prefix", "zz_")])
                protocol.DEFAULT_CONFIG[edited[0]] = edited[1]
                steps.append(("defaults edited while probing", edited[0]))
                ctx.count("isolation_probes_under_edited_defaults")
            try:
                probe_live(ctx, live, steps, kbox)
            finally:
                if edited is not None:
                    protocol.DEFAULT_CONFIG[edited[0]] = default_snapshot[edited[0]]
            if protocol.DEFAULT_CONFIG != default_snapshot:
                diff = [key for key in default_snapshot if protocol.DEFAULT_CONFIG.get(key) != default_snapshot[key]]
                ctx.violation("C06/isolation/default-config-changed", "DEFAULT_CONFIG changed (%r) after %r" % (diff, steps), dict(history=steps))
                protocol.DEFAULT_CONFIG.clear()
                protocol.DEFAULT_CONFIG.update(copy.deepcopy(default_snapshot))
    finally:
        for kind, pair in live:
            pair.close()
    ctx.case(("history", tuple(steps)))
    return steps


def server_isolation(ctx, rng):
    """the same through one real ThreadedServer: per-connection configuration copies"""
    import rpyc
    from rpyc.utils.server import ThreadedServer
    srv = ThreadedServer(rpyc.SlaveService, hostname="127.0.0.1", port=0, protocol_config={}, auto_register=False)
    srv._listen()
    t = rpyc.lib.spawn(srv.start)
    try:
        c1 = rpyc.connect("127.0.0.1", srv.port)
        c2 = rpyc.connect("127.0.0.1", srv.port)
        ok = c1.root.getmodule("sys").getrecursionlimit() > 0 and c2.root.getmodule("os").getpid() > 0
        if not ok:
            ctx.violation("C06/isolation/classic-server", "classic connections through one server do not work")
        if srv.protocol_config.get("allow_all_attrs"):
            ctx.violation("C06/isolation/server-config-widened", "a classic connection widened the server's shared protocol_config")
        ctx.count("isolation_probes", 2)
        c1.close()
        c2.close()
    finally:
        srv.close()
        t.join(5)


def run(ctx):
    from rpyc.core import protocol
    rng = ctx.rng
    snapshot = copy.deepcopy(protocol.DEFAULT_CONFIG)
    if frozenset(snapshot["safe_attrs"]) != models.SAFE_ATTRS:
        ctx.violation("C06/safe-list-differs", "DEFAULT_CONFIG['safe_attrs'] differs from the documented safe list: %r" % (
            sorted(frozenset(snapshot["safe_attrs"]) ^ models.SAFE_ATTRS),))
    for key, val in models.DEFAULT_SWITCHES.items():
        if snapshot.get(key) != val:
            ctx.violation("C06/default-switch/%s" % key, "default of %s is %r, documented %r" % (key, snapshot.get(key), val))
    sweep(ctx, rng)
    if not ctx.enough():
        for i in range(ctx.budget(60, 24000)):
            steps = isolation_history(ctx, rng, i, snapshot)
            if i < 2:
                ctx.sample({"isolation history": steps})
            if ctx.enough():
                break
        if ctx.shard[0] == 0:
            server_isolation(ctx, rng)
    if protocol.DEFAULT_CONFIG != snapshot:
        ctx.violation("C06/isolation/default-config-changed", "DEFAULT_CONFIG differs at the end of the run")
    if not ctx.counters["denied_decisions"] or not ctx.counters["allowed_decisions"] or not ctx.counters["twin_resolutions"]:
        ctx.inconclusive("the sweep did not reach denied, allowed and twin-resolved decisions")

"""C12 - concurrent senders never interleave, lose or strand a message.

Controlled scheduler (lib/rv/vsched.py) with pre-emption at every source line of the real Connection._send and at
every transport write; 2-3 sender tasks x 1-3 messages, optionally a re-entrant send started from inside the
transport write (what a proxy finalizer does).  Oracle over the recording transport: the byte stream parses into
exactly the multiset of sent packets (each once, contiguous), per-thread order holds, the send queue is empty when
all senders have returned, at most one thread is ever inside the transport write, nobody deadlocks.
"""
from rv import refcodec as rc, vnet, vsched
from rv.verdict import h

PROPERTY = "C12"
LEVEL = "exploration"
RULE = ("configurations: 2-3 sender tasks x 1-3 messages, small packets or packets above the 64000-byte I/O chunk (three writes "
        "each), with/without re-entrant sends (1, 40 or 150 of them) from inside the first transport write, and re-entrant sends (1 or 5) started while a message is being encoded (where a collector pass may finalize proxies). schedules: (i) systematic - a census run "
        "lists every yield point (source line of _send, lock operation, transport write); every placement of ONE delay and "
        "(2 tasks) of TWO delays is run; (ii) seeded random and PCT-style schedules. distinct = hash of the (task, yield point) "
        "switch trace; non-trivial = at least one pre-emption taken inside _send")
ASSUMPTIONS = ["line-granularity pre-emption inside _send only (plus lock operations and transport writes); the three lock objects of "
               "the connection are replaced by scheduler-aware ones with the same semantics",
               "sampled and systematically delay-injected interleavings, not all interleavings"]
SHARDS = {"quick": 1, "thorough": 16}
MIN_DISTINCT = {"quick": 300, "thorough": 20000}
_codes = []


def instrument(sched):
    from rpyc.core.protocol import Connection
    global _codes
    _codes = sched.instrument([Connection._send.__code__])


def one_run(cfg, seed, policy, script=(), census=False, p_switch=0.3):
    """-> dict(result fields); never raises"""
    import rpyc
    from rpyc.core.channel import Channel
    from rpyc.core import consts
    ntasks, nmsgs, big, reentrant = cfg[:4]
    poison = len(cfg) > 4 and cfg[4]
    enc_reentrant = len(cfg) > 5 and cfg[5]
    sched = vsched.Sched(seed=seed, policy=policy, script=script, p_switch=p_switch, max_steps=60000)
    sched.record_census = census
    net = vnet.Net(waiter=vsched.SchedWaiter(sched))
    conn = rpyc.VoidService()._connect(Channel(net.a, compress=False), {})
    vsched.simulate_connection(conn, sched, "A")
    pad = b"x" * (70000 if big else 10)
    sent = []
    returned = []
    fired = []

    def on_write(side, data):
        # reentrant = how many sends are started from inside the first transport write (one proxy finalizer, or a collector pass
        # that frees dozens of proxies at once)
        if reentrant and not fired and side == "A":
            fired.append(1)
            for k in range(int(reentrant)):
                sent.append(("re", k))
                conn._send(consts.MSG_REQUEST, 900 + k, ("re", k, b"r"))
    net.on_write = on_write

    # the same, but started while a message is being ENCODED (the collector may run at any bytecode boundary of the encoder and
    # finalize proxies there): the text dumper of the serializer fires the re-entrant sends when it meets the marker string
    from rpyc.core import brine
    orig_str_dumper = brine._dump_registry[str]
    fired_enc = []

    def str_dumper(obj, stream):
        if enc_reentrant and obj == ENC_MARK and not fired_enc:
            fired_enc.append(1)
            for k in range(int(enc_reentrant)):
                sent.append(("enc", k))
                conn._send(consts.MSG_REQUEST, 1500 + k, ("enc", k, b"e", "tail"))
        orig_str_dumper(obj, stream)
    if enc_reentrant:
        brine._dump_registry[str] = str_dumper

    refused = []
    wrongly_failed = []

    def sender(t):
        for i in range(nmsgs[t]):
            if poison and t == 1 and i == 0:
                # a value the serializer accepts as plain data but cannot encode (an integer beyond the interpreter's text limit):
                # the failure belongs to THIS send, in THIS thread, and to nothing else
                try:
                    conn._send(consts.MSG_REQUEST, 777, (t, "poison", POISON))
                    refused.append("accepted")
                except ValueError:
                    refused.append("ValueError")
                except Exception as e:
                    refused.append(type(e).__name__)
            sent.append((t, i))
            try:
                if enc_reentrant and t == 0 and i == 0:
                    conn._send(consts.MSG_REQUEST, t * 10 + i, (t, i, "head", ENC_MARK, pad))
                else:
                    conn._send(consts.MSG_REQUEST, t * 10 + i, (t, i, pad))
            except vsched.SchedAbort:
                raise
            except Exception as e:
                wrongly_failed.append((t, i, type(e).__name__))
        returned.append(t)
    for t in range(ntasks):
        sched.spawn(sender, t, name="s%d" % t)
    instrument(sched)
    try:
        ok = sched.run(watchdog=30)
    finally:
        brine._dump_registry[str] = orig_str_dumper
    vsched.Sched.uninstrument(_codes)
    res = dict(cfg=cfg, seed=seed, policy=policy, script=list(script), bad=[])
    bad = res["bad"]
    if not ok:
        res["inconclusive"] = "wall-clock watchdog"
    if not ok:
        pass
    elif sched.deadlock:
        bad.append(("deadlock", "senders deadlocked: %r" % (sched.deadlock,)))
    elif sched.aborting:
        bad.append(("livelock", "run aborted: %s" % sched.abort_reason))
    for t in sched.tasks:
        if t.exc is not None:
            bad.append(("sender-raised/%s" % type(t.exc).__name__, "a sender raised %r" % (t.exc,)))
    if not sched.aborting and ok:
        fp = rc.FrameParser()
        fp.feed(net.raw("A->B"))
        got = []
        for body, flag, n in fp.frames:
            try:
                m = rc.decode(body)
                got.append((m[2][0], m[2][1]))
            except Exception as e:
                bad.append(("garbled-packet", "a packet on the wire does not decode (%s): packets were interleaved" % type(e).__name__))
        if fp.buf or fp.errors:
            bad.append(("garbled-stream", "the byte stream does not parse into whole packets: %r, %d bytes left" % (fp.errors[:2], len(fp.buf))))
        if sorted(got, key=repr) != sorted(sent, key=repr) and not bad:
            missing = [x for x in sent if x not in got]
            dup = [x for x in set(got) if got.count(x) > 1]
            if missing:
                bad.append(("message-lost", "messages %r were never transmitted" % (missing[:3],)))
            if dup:
                bad.append(("message-duplicated", "messages %r were transmitted twice" % (dup[:3],)))
        for t in list(range(ntasks)) + ["re", "enc"]:
            mine = [i for (tt, i) in got if tt == t]
            if mine != sorted(mine):
                bad.append(("order", "messages of one thread left out of order: %r" % (mine,)))
        if poison:
            if refused != ["ValueError"]:
                bad.append(("unencodable-send-not-refused-in-its-own-thread", "the send of a value that cannot be encoded ended with %r in the issuing thread" % (refused,)))
        if wrongly_failed:
            bad.append(("send-failed-for-another-message", "an ordinary send raised %r: the failure of another message surfaced here" % (wrongly_failed[:2],)))
        if conn._send_queue:
            bad.append(("stranded", "%d message(s) left in the send queue after all senders returned" % len(conn._send_queue)))
        if net.max_in_send > 1 + (1 if False else 0):
            bad.append(("two-writers", "%d threads were inside the transport write at once" % net.max_in_send))
        if len(returned) != ntasks:
            bad.append(("sender-never-returned", "only %d of %d senders returned" % (len(returned), ntasks)))
    res.update(trace=sched.trace_hash(), preemptions=sched.preemptions, steps=sched.steps, census=sched.census,
               maxq=0, reentrant_fired=bool(fired), enc_reentrant_fired=bool(fired_enc))
    return res


import sys as _sys
ENC_MARK = "collector-runs-here"
POISON = 10 ** ((_sys.get_int_max_str_digits() if hasattr(_sys, "get_int_max_str_digits") and _sys.get_int_max_str_digits() else 4300) + 50)


def big_for_enc(ntasks):
    return ntasks == 3


def configs(rng, quick):
    out = []
    for ntasks in (2, 3):
        for big in (False, True):
            for reentrant in (False, True):
                for nm in ((1, 1, 1), (2, 1, 1), (1, 3, 2), (3, 3, 1)):
                    out.append((ntasks, nm[:ntasks], big, reentrant))
            # bursts of re-entrant sends: far more packets queued behind one write than any handful of threads produces
            out.append((ntasks, (2, 1, 1)[:ntasks], big, 40))
        out.append((ntasks, (1, 2, 1)[:ntasks], False, 150))
        # one sender also issues a message that cannot be encoded, between the others
        out.append((ntasks, (2, 2, 1)[:ntasks], False, False, True))
        out.append((ntasks, (1, 1, 2)[:ntasks], True, True, True))
        # re-entrant sends started while a message is being encoded (1 or 5 of them), with and without those from inside the write
        out.append((ntasks, (1, 1, 1)[:ntasks], False, False, False, 1))
        out.append((ntasks, (2, 1, 1)[:ntasks], big_for_enc(ntasks), True, False, 5))
    return out


def record(ctx, res):
    ctx.case(("trace", res["cfg"][0], res["cfg"][2], res["cfg"][3], res["trace"]), nontrivial=res["preemptions"] > 0)
    ctx.count("runs")
    ctx.count("preemptions_taken", res["preemptions"])
    ctx.count("yield_points", res["steps"])
    if res["reentrant_fired"]:
        ctx.count("reentrant_sends")
    if res.get("enc_reentrant_fired"):
        ctx.count("reentrant_sends_from_inside_the_encoder")
    if res.get("inconclusive"):
        ctx.inconclusive(res["inconclusive"])
    for key, what in res["bad"]:
        ctx.violation("C12/" + key, what, dict(cfg=res["cfg"], seed=res["seed"], policy=res["policy"], script=res["script"]))


def run(ctx):
    rng = ctx.rng
    cfgs = configs(rng, ctx.quick)
    if ctx.shard[0] == 0:
        # (i) systematic single- and double-delay placement over the census trace
        n_sys = 0
        for cfg in cfgs:
            if ctx.quick and (cfg[0] == 3 and len(set(cfg[1])) > 1):
                continue
            cen = one_run(cfg, 0, "scripted", census=True)
            record(ctx, cen)
            points = [(name, nth) for (name, nth, tag) in cen["census"]]
            ctx.maximum("census_yield_points", len(points))
            if cfg[3] not in (False, True):
                # burst configurations have thousands of yield points that differ only by the position in the burst: an evenly
                # spaced sample of them in the systematic part (the random schedules below cover the rest)
                points = points[::max(1, len(points) // (25 if ctx.quick else 200))]
            for (name, nth) in points:
                for d in ((2, 60) if ctx.quick else (1, 2, 5, 60)):
                    record(ctx, one_run(cfg, 0, "scripted", script=[(name, nth, d)]))
                    n_sys += 1
                if ctx.enough():
                    return
            if cfg[0] == 2 and not ctx.quick and len(points) <= 140:
                for i, (n1, k1) in enumerate(points):
                    for (n2, k2) in points[i + 1:]:
                        record(ctx, one_run(cfg, 0, "scripted", script=[(n1, k1, 60), (n2, k2, 60)]))
                        n_sys += 1
        ctx.count("systematic_delay_runs", n_sys)
        ctx.extra["single_delay_placements_complete"] = True
    n = ctx.budget(6000, 2000000)
    plain = [c for c in cfgs if len(c) == 4 and c[3] in (False, True)]
    extra = [c for c in cfgs if c not in plain]
    for i in range(n):
        # the ordinary configurations get most of the random schedules: their defects need a particular interleaving of a few
        # steps; the bursts and the unencodable message fail under almost any schedule
        cfg = rng.choice(plain) if (rng.random() < .8 or not extra) else rng.choice(extra)
        policy = "random" if i % 4 else "pct"
        res = one_run(cfg, (ctx.seed, ctx.shard[0], i), policy, p_switch=rng.choice([0.1, 0.3, 0.6]))
        record(ctx, res)
        if i < 2:
            ctx.sample({"cfg": cfg, "policy": policy, "preemptions": res["preemptions"], "yield_points": res["steps"]})
        if ctx.enough():
            break
    if not ctx.counters["preemptions_taken"] or not ctx.counters["reentrant_sends"] or not ctx.counters["reentrant_sends_from_inside_the_encoder"]:
        ctx.inconclusive("no pre-emption / no re-entrant send was exercised")


def replay(ctx, w):
    wit = w["witness"]
    cfg = wit["cfg"]
    cfg = (cfg[0], tuple(cfg[1]), cfg[2], cfg[3]) + tuple(cfg[4:])
    seed = tuple(wit["seed"]) if isinstance(wit["seed"], list) else wit["seed"]
    record(ctx, one_run(cfg, seed, wit["policy"], script=[tuple(x) for x in wit["script"]]))

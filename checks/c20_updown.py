"""C20 - uploading / downloading a file or a directory tree reproduces it byte for byte; a name filter excludes
exactly the entries it rejects.

Runtime monitoring of the real rpyc.utils.classic.upload* / download* over a real classic connection
(`rpyc.classic.connect_thread()`: SlaveService served by a thread over a loopback socket).  Source trees are
generated from a seed in a scratch directory under /tmp (always removed), transferred by the real code, and the
destination is read back from disk and compared with a model:

    expected tree = source tree minus every entry (file or directory, at any level below the top) whose
                    basename the filter rejects; the top-level path itself is never filtered;
    oracle        = same set of relative names (files, directories, empty directories) and the same bytes in
                    every file; the source is unchanged; the filter only ever sees basenames.
"""
import os
import random
import shutil
import tempfile
import threading

PROPERTY = "C20"
LEVEL = "exploration"
RULE = ("grid (first shard): every chunk size in {1,2,3,7,64,1000,4096,64000} x every size class {0,1,c-1,c,c+1,2c-1,2c,"
        "2c+1,3c+k} as a single file, uploaded and downloaded; then seeded trees (depth <= 4, fan-out <= 5, empty "
        "directories, empty files, names with spaces / non-ASCII / combining / astral characters, contents random bytes "
        "salted with CR LF NUL ^Z at chunk edges), file sizes drawn from the same classes for a chunk size from the list, "
        "a random one in 1..20000 or the library default, each tree uploaded and downloaded with a filter from {none, "
        "accept-all, reject-all, by suffix, by prefix, rejecting a directory name, non-bool result, basename-only}, "
        "through upload/download or upload_dir/download_dir/upload_file/download_file, into a destination that is "
        "absent, absent with absent parents, an existing empty directory, or an existing directory/file holding "
        "longer/shorter colliding files. distinct = (direction, chunk, filter, api, destination mode, canonical tree "
        "shape with size classes); non-trivial = the source holds at least one file")
ASSUMPTIONS = ["both ends of the connection see the same file system (SlaveService runs in a thread of this process), so "
               "the destination is read back directly from disk",
               "only regular files and directories are generated (no links, devices, unreadable entries)",
               "entries already present in the destination that the transfer does not name are outside the property and "
               "are ignored by the oracle",
               "a transfer of < 1 MB over loopback that has not returned after 60 s is reported as not terminating"]
SHARDS = {"quick": 1, "thorough": 16}
MIN_DISTINCT = {"quick": 150, "thorough": 4000}

CHUNKS = [1, 2, 3, 7, 64, 1000, 4096, 64000]
SIZE_CLASSES = ["0", "1", "c-1", "c", "c+1", "2c-1", "2c", "2c+1", "3c+k"]
BOUNDARY = {"c-1", "c", "c+1", "2c-1", "2c", "2c+1"}
SPECIALS = [b"\r\n", b"\x00", b"\x1a", b"\n", b"\r", b"\r\r\n", b"\xff\xfe", b"\x00\x00"]
STALL_LIMIT = 60.0
KEEP = "~was already here~"

FILE_NAMES = ["a.txt", "b.bin", "data", "with space.txt", "two  spaces .dat", " leading", "ñandú.txt",
              "файл.bin", "日本語 テキスト", "été.txt",
              "\U0001f642.txt", "skip_me.txt", "skip_ñ", "skip_", "junk.tmp", "with space.tmp", ".tmp", ".hidden",
              "x.tmp.keep", "tmp", "UPPER.TXT", "-dash", "name.with.dots", "skip", "a'b\"c", "semi;colon&amp", "trailing.",
              "ü", "excluded dir.txt", "*.txt", "back\\slash", "é.tmp"]
DIR_NAMES = ["sub", "sub dir", "excluded dir", "skip_dir", "cache.tmp", "ünï", "глубоко",
             "d", "empty", "a.txt", ".git", "目 录", "skip_", "docs.txt"]
ALPHABET = "abcXYZ019 ._-éßЖ中\U0001f600~+'"
SIBLING_AFFIXES = [(".part", ""), (".tmp", ""), ("~", ""), (".bak", ""), (".swp", "."), (".partial", ""), (".download", ""), (".0", ""),
                   ("", "."), ("", "~"), ("", ".#"), (".new", ""), (".old", ""), (".lock", ""), (".crdownload", ""), ("", "tmp_")]


# ----------------------------------------------------------------------------------------------------------------------
# filters (predicates over the basename)
# ----------------------------------------------------------------------------------------------------------------------
FILTERS = {
    "none": None,
    "accept-all": lambda fn: True,
    "reject-all": lambda fn: False,
    "suffix(.tmp)": lambda fn: not fn.endswith(".tmp"),
    "prefix(skip_)": lambda fn: not fn.startswith("skip_"),
    "reject-dir-name": lambda fn: fn != "excluded dir",
    "non-bool(.txt)": lambda fn: 0 if fn.endswith(".txt") else fn,
    "basename-only": lambda fn: os.sep not in fn,
}
FILTER_NAMES = sorted(FILTERS)


# ----------------------------------------------------------------------------------------------------------------------
# sizes, contents, names, trees   (a tree is {name: bytes | tree})
# ----------------------------------------------------------------------------------------------------------------------
def size_for(cls, c, rng):
    if cls == "3c+k":
        return 3 * c + (rng.randrange(1, c) if c > 1 else rng.randrange(0, 5))
    return {"0": 0, "1": 1, "c-1": c - 1, "c": c, "c+1": c + 1, "2c-1": 2 * c - 1, "2c": 2 * c, "2c+1": 2 * c + 1}[cls]


def size_class(n, c):
    """where a size sits relative to the chunk size (computed from the size, not from how it was generated)"""
    if n == 0:
        return "0"
    q, r = divmod(n, c)

    def mult(k):
        return "" if k == 1 else (str(k) if k < 3 else "k")
    if r == 0:
        return mult(q) + "c"
    if r == 1:
        return "1" if q == 0 else mult(q) + "c+1"
    if r == c - 1:
        return mult(q + 1) + "c-1"
    return "<c" if q == 0 else mult(q) + "c+k"


def gen_bytes(rng, n, c):
    if n == 0:
        return b""
    kind = rng.random()
    if kind < 0.08:
        return bytes(n)                                     # all zeros (sparse files, padding)
    if kind < 0.14:
        return bytes([rng.randrange(256)]) * n              # one byte value repeated
    b = bytearray(rng.randbytes(n))
    if kind < 0.26 and n > 1:
        # a run of one value covering whole chunks: the tail, the head or a chunk in the middle
        fill = rng.choice([0, 0, 255, 10])
        k = min(n, max(1, c * rng.randrange(1, 3)))
        where = rng.choice(["tail", "tail", "head", "mid"])
        start = n - k if where == "tail" else 0 if where == "head" else (max(0, (n // 2) // max(1, c) * c))
        b[start:start + k] = bytes([fill]) * len(b[start:start + k])
        return bytes(b[:n])
    for _ in range(min(4, n // 2)):
        s = rng.choice(SPECIALS)
        if len(s) <= n:
            pos = rng.randrange(0, n - len(s) + 1)
            b[pos:pos + len(s)] = s
    if n > c and rng.random() < 0.5:            # CR LF straddling the first chunk edge
        b[c - 1:c + 1] = b"\r\n"
    if rng.random() < 0.4:
        b[-1:] = rng.choice([b"\n", b"\r", b"\x1a", b"\x00"])
    if rng.random() < 0.2:
        b[:1] = rng.choice([b"\n", b"\r", b"\x1a", b"\x00", b"\xef"])
    return bytes(b[:n])


def gen_name(rng, pool, used):
    for _ in range(50):
        if used and rng.random() < 0.2:
            # a sibling whose name is derived from one already there, the way tools name their scratch, backup and partial files
            base = rng.choice(sorted(used))
            name = rng.choice([base + sfx for sfx in (".part", ".tmp", "~", ".bak", ".swp", ".partial", ".0", " (1)", ".part.part")] +
                              [pfx + base for pfx in (".", "~", "tmp", ".#")])
        elif rng.random() < 0.75:
            name = rng.choice(pool)
        else:
            name = "".join(rng.choice(ALPHABET) for _ in range(rng.randrange(1, 10)))
            name = rng.choice(["", "", "skip_", "."]) + name + rng.choice(["", "", ".tmp", ".txt"])
        if name in (".", "..", KEEP) or name in used or len(name.encode("utf8")) > 200:
            continue
        used.add(name)
        return name
    name = "n%d" % len(used)
    used.add(name)
    return name


class TreeGen(object):
    def __init__(self, rng, c, big_budget):
        self.rng, self.c = rng, c
        self.bytes_left = big_budget
        self.entries_left = 26
        self.maxdepth = rng.choice([1, 2, 2, 3, 3, 4])
        self.classes = list(SIZE_CLASSES)

    def file(self):
        rng = self.rng
        cls = rng.choice(self.classes)
        n = size_for(cls, self.c, rng)
        if n > self.bytes_left:
            n = rng.choice([0, 1])
        self.bytes_left -= n
        return gen_bytes(rng, n, self.c)

    def dir(self, depth):
        rng = self.rng
        tree, used = {}, set()
        fan = rng.choice([0, 1, 1, 2, 2, 3, 3, 4, 5]) if depth > 1 else rng.choice([1, 2, 3, 3, 4, 5])
        for _ in range(fan):
            if self.entries_left <= 0:
                break
            self.entries_left -= 1
            if depth < self.maxdepth and rng.random() < 0.42:
                pool = DIR_NAMES if rng.random() < 0.8 else ["excluded dir", "skip_dir", "cache.tmp"]
                tree[gen_name(rng, pool, used)] = self.dir(depth + 1)
            else:
                tree[gen_name(rng, FILE_NAMES, used)] = self.file()
        return tree


def build_source(spec, c):
    """(top-level name, node) regenerated from the spec alone"""
    if spec["kind"] == "grid":
        rng = random.Random("C20grid/%s/%s" % (c, spec["size_class"]))
        name = rng.choice(FILE_NAMES)
        return name, gen_bytes(rng, size_for(spec["size_class"], c, rng), c)
    rng = random.Random("C20tree/%s/%s" % (spec["seed"], c))
    if spec["kind"] == "siblings":
        # every directory holds pairs of names of which one is the other plus the kind of suffix / prefix that tools give
        # their scratch, partial and backup files; each pair is created in both orders (directory listings follow it on some
        # file systems), at two levels
        def level(tag):
            d = {}
            for k, (sfx, pfx) in enumerate(SIBLING_AFFIXES):
                base = "%s%d%s" % (tag, k, rng.choice(["", ".bin", ".txt"]))
                derived = pfx + base + sfx
                pair = [(base, gen_bytes(rng, rng.choice([0, 1, 7, 300]), c)), (derived, gen_bytes(rng, rng.choice([0, 2, 9, 200]), c))]
                if k % 2:
                    pair.reverse()
                for n, data in pair:
                    d[n] = data
                if rng.random() < .5:
                    d[pfx + derived + sfx] = gen_bytes(rng, 5, c)
            return d
        top = level("report")
        top["sub"] = level("data")
        return "siblings.d", top
    if spec["kind"] == "file":
        name = gen_name(rng, FILE_NAMES, set())
        return name, gen_bytes(rng, size_for(rng.choice(SIZE_CLASSES), c, rng), c)
    name = gen_name(rng, DIR_NAMES + ["src", "skip_src", "src.tmp", "excluded dir"], set())
    g = TreeGen(rng, c, 700000 if c >= 1000 else 10 ** 9)
    return name, g.dir(1)


def materialize(path, node):
    if isinstance(node, dict):
        os.mkdir(path)
        for name, sub in node.items():
            materialize(os.path.join(path, name), sub)
    else:
        with open(path, "wb") as f:
            f.write(node)


OTHER = ("not a regular file or directory",)


def snapshot(path):
    """what is on disk at path: bytes | {name: ...} | None (absent) | OTHER"""
    if os.path.islink(path):
        return OTHER
    if os.path.isdir(path):
        return {e: snapshot(os.path.join(path, e)) for e in os.listdir(path)}
    if os.path.isfile(path):
        with open(path, "rb") as f:
            return f.read()
    if not os.path.lexists(path):
        return None
    return OTHER


def apply_filter(node, pred, stats):
    """the model: drop every entry below the top whose basename the filter rejects"""
    if not isinstance(node, dict):
        return node
    out = {}
    for name, sub in node.items():
        if pred is not None and not pred(name):
            stats["filtered"] += 1
            stats["filtered_dirs"] += isinstance(sub, dict)
            continue
        out[name] = apply_filter(sub, pred, stats)
    return out


def walk_files(node, rel=()):
    if isinstance(node, dict):
        for name in sorted(node):
            for x in walk_files(node[name], rel + (name,)):
                yield x
    else:
        yield rel, node


def walk_dirs(node, rel=()):
    if isinstance(node, dict):
        yield rel, node
        for name in sorted(node):
            for x in walk_dirs(node[name], rel + (name,)):
                yield x


def shape(node, c):
    if isinstance(node, dict):
        return ("d",) + tuple(sorted((shape(v, c) for v in node.values()), key=repr))
    return size_class(len(node), c)


def listing(node, c, limit=14):
    out = []
    for rel, d in walk_dirs(node):
        if rel and not d:
            out.append("/".join(rel) + "/  (empty dir)")
    for rel, data in walk_files(node):
        out.append("%s  %d bytes (%s)" % ("/".join(rel) or "<the file itself>", len(data), size_class(len(data), c)))
    return out[:limit] + (["... %d more" % (len(out) - limit)] if len(out) > limit else [])


# ----------------------------------------------------------------------------------------------------------------------
# one transfer
# ----------------------------------------------------------------------------------------------------------------------
def prepare_destination(spec, expected, dst_parent, rng):
    """returns the destination path; creates what the destination mode says exists beforehand"""
    used = set()
    dst = os.path.join(dst_parent, gen_name(rng, FILE_NAMES + DIR_NAMES, used))
    mode = spec["dest"]
    if mode == "absent":
        return dst
    if mode == "absent-deep":
        return os.path.join(dst, gen_name(rng, DIR_NAMES, used), "leaf")
    if not isinstance(expected, dict):
        # an existing file with other content: longer, shorter or of the same size
        n = len(expected)
        with open(dst, "wb") as f:
            f.write(rng.randbytes(rng.choice([n + 1, n + 7, 2 * n + 3, max(0, n - 1), n // 2, 3 * n + 100, n, n, n, n])))
        if rng.random() < .3:
            os.utime(dst, (1, 1))            # an old or a new time stamp: neither says anything about the content
        return dst
    os.mkdir(dst)
    if mode == "exists-empty":
        return dst
    # exists-merge: an unrelated entry, plus colliding files (other content, longer, shorter or of the same size) for some expected files
    with open(os.path.join(dst, KEEP), "wb") as f:
        f.write(b"keep")
    files = list(walk_files(expected))
    rng.shuffle(files)
    for rel, data in files[:3]:
        d = os.path.join(dst, *rel[:-1])
        os.makedirs(d, exist_ok=True)
        n = len(data)
        with open(os.path.join(dst, *rel), "wb") as f:
            f.write(rng.randbytes(rng.choice([n + 1, n + 9, 2 * n + 5, max(0, n - 1), n // 2, n, n, n, n])))
        if rng.random() < .3:
            os.utime(os.path.join(dst, *rel), (1, 1))
    return dst


def invoke(classic, conn, spec, src, dst, flt):
    kw = {} if spec["chunk"] is None else {"chunk_size": spec["chunk"]}
    up = spec["direction"] == "upload"
    api = spec["api"]
    if api == "generic":
        (classic.upload if up else classic.download)(conn, src, dst, filter=flt, **kw)
    elif api == "positional":
        if kw:
            (classic.upload if up else classic.download)(conn, src, dst, flt, False, spec["chunk"])
        else:
            (classic.upload if up else classic.download)(conn, src, dst, flt)
    elif api == "dir":
        (classic.upload_dir if up else classic.download_dir)(conn, src, dst, flt, **kw)
    elif api == "file":
        (classic.upload_file if up else classic.download_file)(conn, src, dst, **kw)
    else:
        raise ValueError(api)


def guarded(fn, limit):
    box = {}

    def work():
        try:
            fn()
        except BaseException as e:       # judged by the caller
            box["exc"] = e
    t = threading.Thread(target=work, daemon=True, name="c20-transfer")
    t.start()
    t.join(limit)
    if t.is_alive():
        return "stalled", None
    return "done", box.get("exc")


def rejected_on_path(source, rel, pred):
    """is rel (below the top) an entry of the source that the filter excludes (itself or through an ancestor)?"""
    node = source
    for name in rel:
        if not isinstance(node, dict) or name not in node:
            return False
        if pred is not None and not pred(name):
            return True
        node = node[name]
    return False


def compare(exp, act, rel, out):
    if isinstance(exp, dict):
        if not isinstance(act, dict):
            out.append(("kind", rel, exp, act))
            return
        for name in sorted(set(exp) | set(act)):
            r = rel + (name,)
            if name not in act:
                out.append(("missing", r, exp[name], None))
            elif name not in exp:
                out.append(("extra", r, None, act[name]))
            else:
                compare(exp[name], act[name], r, out)
    elif not isinstance(act, bytes):
        out.append(("kind", rel, exp, act))
    elif act != exp:
        out.append(("content", rel, exp, act))


def first_diff(a, b):
    for i, (x, y) in enumerate(zip(a, b)):
        if x != y:
            return i
    return min(len(a), len(b))


def describe(node):
    if node is None:
        return "nothing"
    if node is OTHER:
        return "something that is neither file nor directory"
    if isinstance(node, dict):
        return "a directory with %d entries" % len(node)
    return "a file of %d bytes" % len(node)


class Runner(object):
    def __init__(self, ctx, base):
        import rpyc
        from rpyc.utils import classic
        self.ctx, self.base, self.rpyc, self.classic = ctx, base, rpyc, classic
        self.conn = None
        self.ncase = 0
        self.dead = False
        self.nsampled = {}

    def connection(self):
        if self.conn is None or self.conn.closed:
            self.conn = self.rpyc.classic.connect_thread()
        return self.conn

    def close(self):
        if self.conn is not None:
            try:
                self.conn.close()
            except Exception:
                pass
            self.conn = None

    def run_case(self, spec):
        ctx = self.ctx
        self.ncase += 1
        work = os.path.join(self.base, "case%d" % self.ncase)
        os.mkdir(work)
        try:
            self._run_case(spec, work)
        finally:
            shutil.rmtree(work, ignore_errors=True)

    def _run_case(self, spec, work):
        ctx, classic = self.ctx, self.classic
        c = spec["chunk"] if spec["chunk"] is not None else classic.STREAM_CHUNK
        direction = spec["direction"]
        pred = FILTERS[spec["filter"]]
        top, source = build_source(spec, c)
        stats = dict(filtered=0, filtered_dirs=0)
        expected = apply_filter(source, pred, stats) if spec["api"] != "file" else source
        nfiles = sum(1 for _ in walk_files(source))
        ctx.case((direction, spec["chunk"], spec["filter"], spec["api"], spec["dest"], shape(source, c)), nontrivial=nfiles > 0)
        wit = dict(spec=spec, effective_chunk=c, source_top_name=top, source=listing(source, c))
        self.nsampled.setdefault(spec["kind"], 0)
        if self.nsampled[spec["kind"]] < (1 if spec["kind"] not in ("tree", "siblings") else 3) and (nfiles > 1 or spec["kind"] not in ("tree", "siblings")):
            self.nsampled[spec["kind"]] += 1
            ctx.sample(dict(direction=direction, chunk=spec["chunk"] or "default(%d)" % c, filter=spec["filter"], api=spec["api"],
                            destination=spec["dest"], source=listing(source, c, 8)))

        src_parent, dst_parent = os.path.join(work, "from here"), os.path.join(work, "to thére")
        os.mkdir(src_parent)
        os.mkdir(dst_parent)
        src = os.path.join(src_parent, top)
        materialize(src, source)
        dst = prepare_destination(spec, expected, dst_parent, random.Random("C20dest/%s/%s" % (spec.get("seed"), direction)))

        calls = []
        if pred is None:
            flt = None
        else:
            def flt(fn, _pred=pred, _calls=calls):
                _calls.append(fn)
                return _pred(fn)
        conn = self.connection()
        state, exc = guarded(lambda: invoke(classic, conn, spec, src, dst, flt), STALL_LIMIT)
        ctx.beat()
        ctx.count("transfers")
        ctx.count("transfers_" + direction)
        ctx.count("api_" + spec["api"])
        ctx.count("dest_" + spec["dest"])
        P = "C20/%s/" % direction
        if state == "stalled":
            self.dead = True
            self.close()
            ctx.violation(P + "transfer-does-not-return",
                          "%s of %d files (%d bytes in all) had not returned after %d s" % (
                              direction, nfiles, sum(len(d) for _, d in walk_files(source)), STALL_LIMIT), wit)
            return
        if exc is not None:
            ctx.violation(P + "transfer-raised/%s" % type(exc).__name__,
                          "%s(%s) raised %r" % (direction, spec["api"], exc), dict(wit, error=repr(exc)[:300]))
            if isinstance(exc, EOFError) or conn.closed:
                self.close()
            # the destination is still compared below: a partial result is described too

        # --- the filter only ever sees basenames of source entries
        names = set()
        for _, d in walk_dirs(source):
            names.update(d)
        for arg in calls:
            if not isinstance(arg, str) or arg not in names:
                ctx.violation(P + "filter-given-non-basename",
                              "the filter was called with %r, which is not the bare name of an entry" % (arg,), dict(wit, filter_argument=repr(arg)))
                break
        ctx.count("filter_calls", len(calls))

        # --- destination == model
        actual = snapshot(dst)
        if isinstance(actual, dict) and spec["dest"] == "exists-merge":
            actual.pop(KEEP, None)
        diffs = []
        if actual is None:
            diffs.append(("missing", (), expected, None))
        else:
            compare(expected, actual, (), diffs)
        for kind, rel, e, a in diffs[:6]:
            w = dict(wit, entry="/".join(rel) or "<top>", expected=describe(e), found=describe(a))
            if kind == "missing":
                if isinstance(e, dict) and not e:
                    ctx.violation("C20/empty-dir-missing" if rel else P + "missing-entry/top-dir",
                                  "%s: an empty directory of the source (or one whose entries are all filtered out) is absent from "
                                  "the destination" % direction, w)
                elif isinstance(e, dict):
                    ctx.violation(P + "missing-entry/dir", "a directory of the source that the filter accepts is absent from the destination", w)
                else:
                    ctx.violation(P + "missing-entry/file/size-vs-chunk=%s" % size_class(len(e), c),
                                  "a file of the source that the filter accepts is absent from the destination", w)
            elif kind == "extra":
                if rejected_on_path(source, rel, pred):
                    ctx.violation(P + "filter-not-applied",
                                  "an entry whose name (or whose parent directory's name) the filter rejects was transferred", w)
                else:
                    ctx.violation(P + "unexpected-entry", "the destination holds an entry the source does not have", w)
            elif kind == "kind":
                ctx.violation(P + "entry-kind-differs", "expected %s, found %s" % (describe(e), describe(a)), w)
            else:
                i = first_diff(e, a)
                how = ("truncated" if len(a) < len(e) and e.startswith(a) else
                       "extended" if len(a) > len(e) and a.startswith(e) else "altered")
                ctx.violation(P + "content-differs/size-vs-chunk=%s" % size_class(len(e), c),
                              "file content %s: %d bytes expected, %d found, first difference at offset %d (chunk size %d)" % (
                                  how, len(e), len(a), i, c),
                              dict(w, offset=i, expected_bytes=e[max(0, i - 8):i + 8], found_bytes=a[max(0, i - 8):i + 8]))
        # --- the same transfer once more over the same connection after the destination went away in between (a deployment that is
        #     repeated after the target was cleaned): nothing remembered from the first time may stand in for work on the second
        if spec.get("repeat") and not diffs and exc is None and spec["dest"] in ("absent", "absent-deep") and not conn.closed:
            if os.path.isdir(dst):
                shutil.rmtree(dst)
            elif os.path.lexists(dst):
                os.remove(dst)
            state2, exc2 = guarded(lambda: invoke(classic, conn, spec, src, dst, flt), STALL_LIMIT)
            ctx.count("transfers_repeated_after_the_destination_was_removed")
            if state2 == "stalled":
                self.dead = True
                self.close()
                ctx.violation(P + "transfer-does-not-return", "the repeated %s had not returned after %d s" % (direction, STALL_LIMIT), wit)
                return
            if exc2 is not None:
                ctx.violation(P + "repeated-transfer-raised/%s" % type(exc2).__name__, "the same %s again, after the destination had been removed, raised %r" % (direction, exc2),
                              dict(wit, error=repr(exc2)[:300]))
            else:
                again = snapshot(dst)
                d2 = []
                if again is None:
                    d2.append(("missing", (), expected, None))
                else:
                    compare(expected, again, (), d2)
                if d2:
                    kind2, rel2, e2, a2 = d2[0]
                    ctx.violation(P + "repeated-transfer-differs/%s" % kind2, "the same %s again, after the destination had been removed, left %s %s (expected %s, found %s)" % (
                        direction, kind2, "/".join(rel2) or "<top>", describe(e2), describe(a2)), wit)
        # --- the source is untouched
        if snapshot(src) != source:
            ctx.violation(P + "source-modified", "the source tree differs from what was written before the transfer", wit)

        # --- evidence
        for rel, data in walk_files(expected):
            cls = size_class(len(data), c)
            ctx.maximum("depth", len(rel))
            ctx.count("files_compared")
            ctx.count("bytes_compared", len(data))
            ctx.count("size_class_" + cls)
            if cls in BOUNDARY:
                ctx.count("boundary_size_files")
            if len(data) > c:
                ctx.count("multi_chunk_files")
        ndirs = 0
        for rel, d in walk_dirs(expected):
            ndirs += 1
            if rel and not d:
                ctx.count("empty_dirs_expected")
            ctx.maximum("fan_out", len(d))
        ctx.count("dirs_compared", ndirs)
        ctx.count("filtered_entries", stats["filtered"])
        ctx.count("filtered_dirs", stats["filtered_dirs"])
        ctx.count("filter_" + spec["filter"])
        ctx.maximum("chunk", c)
        ctx.maximum("file_bytes", max([len(d) for _, d in walk_files(source)] or [0]))


# ----------------------------------------------------------------------------------------------------------------------
# workloads
# ----------------------------------------------------------------------------------------------------------------------
BIG_CHUNKS = [1000000, 1024000, 1024001, 1048576, 2500000]


def big_chunk_specs():
    """'any chunk size': chunks of a megabyte and more (a caller moving large files asks for them), with files just below, at and
    above one and two chunks"""
    for c in BIG_CHUNKS:
        for cls in ("c-1", "c", "c+1", "2c+1"):
            for direction in ("upload", "download"):
                yield dict(kind="grid", seed="grid-big", chunk=c, size_class=cls, direction=direction, filter="none",
                           api="generic" if (BIG_CHUNKS.index(c) + len(cls)) % 2 else "file", dest="absent")


def grid_specs():
    for c in CHUNKS:
        for cls in SIZE_CLASSES:
            for direction in ("upload", "download"):
                yield dict(kind="grid", seed="grid", chunk=c, size_class=cls, direction=direction, filter="none",
                           api="generic" if (CHUNKS.index(c) + SIZE_CLASSES.index(cls)) % 2 else "file", dest="absent")


def sibling_specs(tag):
    for direction in ("upload", "download"):
        for api, dest in (("generic", "absent"), ("dir", "exists-merge"), ("positional", "exists-empty")):
            yield dict(kind="siblings", seed="%s/%s/%s" % (tag, direction, api), chunk=None if api == "dir" else 16, direction=direction,
                       filter="none", api=api, dest=dest, repeat=True)


def random_specs(rng, tag):
    """two transfers (one per direction) of one generated source"""
    r = rng.random()
    if r < 0.72:
        chunk = rng.choice(CHUNKS[:-1] + CHUNKS[:4]) if rng.random() < 0.93 else 64000
    elif r < 0.92:
        chunk = int(2 ** rng.uniform(0, 14.3))
    else:
        chunk = None
    kind = "tree" if rng.random() < 0.85 else "file"
    for direction in rng.sample(["upload", "download"], 2):
        if kind == "tree":
            api = rng.choice(["generic", "generic", "positional", "dir"])
            dest = rng.choice(["absent"] * 5 + ["exists-empty"] * 2 + ["exists-merge"] * 3 + ["absent-deep"])
            flt = rng.choice(FILTER_NAMES)
        else:
            api = rng.choice(["generic", "file", "positional"])
            dest = rng.choice(["absent", "absent", "exists-other"])
            flt = rng.choice(["none", "reject-all", "suffix(.tmp)"]) if api != "file" else "none"
        yield dict(kind=kind, seed=tag, chunk=chunk, direction=direction, filter=flt, api=api, dest=dest, repeat=rng.random() < .35)


def run(ctx):
    base = tempfile.mkdtemp(prefix="rv_c20_", dir="/tmp")
    runner = None
    try:
        runner = Runner(ctx, base)
        if ctx.shard[0] == 0:
            for spec in grid_specs():
                if runner.dead or ctx.enough():
                    break
                runner.run_case(spec)
            for spec in sibling_specs("%s/%s" % (ctx.seed, ctx.tier)):
                if runner.dead or ctx.enough():
                    break
                runner.run_case(spec)
                ctx.count("sibling_name_transfers")
            for spec in big_chunk_specs():
                if runner.dead or ctx.enough():
                    break
                runner.run_case(spec)
                ctx.count("transfers_with_chunks_of_a_megabyte_and_more")
        rng = ctx.rng
        for i in range(ctx.budget(60, 20000)):
            if runner.dead or ctx.enough():
                break
            for spec in random_specs(rng, "%s/%s/%s/%d" % (ctx.seed, ctx.tier, ctx.shard[0], i)):
                if runner.dead or ctx.enough():
                    break
                runner.run_case(spec)
    finally:
        if runner is not None:
            runner.close()
        shutil.rmtree(base, ignore_errors=True)
    if not ctx.violations:
        if not ctx.counters["filtered_entries"]:
            ctx.inconclusive("no entry was ever rejected by a filter")
        if not ctx.counters["boundary_size_files"]:
            ctx.inconclusive("no file with a size at a chunk boundary was transferred")
        if not ctx.counters["empty_dirs_expected"]:
            ctx.inconclusive("no empty directory was transferred")
        if not ctx.counters["multi_chunk_files"]:
            ctx.inconclusive("no file larger than one chunk was transferred")


def replay(ctx, w):
    spec = w["witness"]["spec"]
    base = tempfile.mkdtemp(prefix="rv_c20_", dir="/tmp")
    runner = None
    try:
        runner = Runner(ctx, base)
        runner.run_case(spec)
    finally:
        if runner is not None:
            runner.close()
        shutil.rmtree(base, ignore_errors=True)
